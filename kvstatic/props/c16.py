"""C16 - error-rate metrics: accumulator typestate + sibling agreement forward/update/benchmark."""
from __future__ import annotations

import ast
from typing import Dict, List, Optional, Set, Tuple

from ..astutil import attr_chain, call_name, match, returns_of, stmts_of, walk_no_nested
from ..core import OK, UNDECIDED, VIOLATION, AnalysisError, ClassInfo, FuncInfo, Repo, Report, unparse
from ..terms import NONE, Terms, single
from .c15 import tv_eval

EXPLANATION = (
    "Accumulator typestate and sibling agreement for BitErrorRate / BlockErrorRate (and their SER/FER aliases) and the benchmark helpers. "
    "ACC: the registered integer buffers are written in update() only by `+=` of per-batch quantities that do not read an accumulator (so the accumulated pair is a monoid "
    "homomorphism of the batch sequence: any split or order of the data gives the same totals); reset() zeroes exactly the buffers update() writes; compute() divides the error "
    "buffer by max(total buffer, 1) and reads nothing else; forward() writes no accumulator. SIBLING: a free-term abstract interpreter (locals substituted by their definitions, "
    "branches joined as sets, casts erased, commutative operators sorted) derives the per-batch error count and total of update() and of forward(); the term sets must be equal, so the "
    "streamed value equals the one-shot value; the error predicate must be symmetric in (x, y). BLER blocks come from one _reshape_into_blocks that raises on non-divisible sizes and "
    "reduces with any() over the block axis. The benchmark helpers must be count(!=)/numel and any-per-block/number of blocks. Decides structure, not float rounding."
)

BER = "kaira/metrics/signal/ber.py"
BLER = "kaira/metrics/signal/bler.py"
BM = "kaira/benchmarks/metrics.py"


def buffers_of(ci: ClassInfo) -> Dict[str, ast.Call]:
    out = {}
    init = ci.methods.get("__init__")
    if init is None:
        return out
    from ..astutil import ancestors, set_parents

    set_parents(init.node)
    for c in ast.walk(init.node):
        if isinstance(c, ast.Call) and attr_chain(c.func) == "self.register_buffer" and c.args and isinstance(c.args[0], ast.Constant):
            out[c.args[0].value] = c
        elif isinstance(c, ast.Call) and attr_chain(c.func) == "self.register_buffer" and c.args and isinstance(c.args[0], ast.Name):
            # the name comes from a loop over a literal tuple / list of strings: one registration per entry
            lp = next((a for a in ancestors(c) if isinstance(a, ast.For) and isinstance(a.target, ast.Name) and a.target.id == c.args[0].id), None)
            if lp is not None and isinstance(lp.iter, (ast.Tuple, ast.List)) and lp.iter.elts and all(isinstance(e, ast.Constant) and isinstance(e.value, str) for e in lp.iter.elts):
                for e in lp.iter.elts:
                    out[e.value] = c
            else:
                UNRESOLVED_BUFFERS.add(ci.name)
        elif isinstance(c, ast.Call) and attr_chain(c.func) == "self.register_buffer":
            UNRESOLVED_BUFFERS.add(ci.name)
    return out


#: classes with a register_buffer call whose name the analysis could not resolve (the accumulator set is then unknown)
UNRESOLVED_BUFFERS: set = set()


def cfg(atoms):
    return lambda test, env: tv_eval(test, atoms)


def swap_xy(term: str) -> str:
    return term.replace("x", "\0").replace("y", "x").replace("\0", "y")


#: object state the evaluated methods read (the constructor defaults relevant to the mean-reduced rate)
STREAM_ATTRS = {
    "BitErrorRate": {"self.threshold": 0.5},
    "BlockErrorRate": {"self.threshold": 0.25, "self.block_size": 2, "self.reduction": "mean"},
}


def analyse_metric(repo: Repo, rep: Report, file: str, cname: str, fwd_atoms: Dict[str, bool]) -> int:
    ci = repo.cls(file, cname)
    n = 0
    bufs = buffers_of(ci)
    if cname in UNRESOLVED_BUFFERS:
        rep.undecided("ACC", f"{file}::{cname}.__init__", f"{cname}: registered buffers", "a register_buffer call names its buffer through an expression the analysis cannot resolve: the set of accumulators is not known")
        return 1
    rep.floor(f"{cname} registered accumulators", len(bufs), 2)
    for b, call in bufs.items():
        init_txt = unparse(call.args[1]) if len(call.args) > 1 else ""
        ok = match(call.args[1], "torch.tensor(0)") is not None or match(call.args[1], "torch.tensor(0, dtype=torch.long)") is not None or match(call.args[1], "torch.tensor(0, dtype=torch.int64)") is not None or match(call.args[1], "torch.zeros((), dtype=torch.long)") is not None
        wrong = (not ok) and (("0.0" in init_txt) or ("float" in init_txt) or any(isinstance(x, ast.Constant) and isinstance(x.value, (int, float)) and not isinstance(x.value, bool) and x.value != 0 for x in ast.walk(call.args[1])))
        rep.shape(ok, wrong, "ACC", f"{file}::{cname}.__init__", f"buffer {b} = {init_txt}", "integer counter starting at 0 (exact counts, no float drift)", "accumulator is not an integer counter starting at zero", node=call)
        n += 1

    # ---- compute: errors / max(total, 1)
    comp = repo.method(ci, "compute")
    t = Terms(comp, repo, ci)
    t.run({})
    err_attr = tot_attr = None
    for v, r, env in t.returns:
        for term in v or ():
            pass
    # state = attributes written outside the constructor; compute() may depend on the registered accumulators only
    mutable_state = set()
    for mname, mfi in ci.methods.items():
        if mname == "__init__":
            continue
        for s_ in ast.walk(mfi.node):
            tg = s_.targets if isinstance(s_, ast.Assign) else ([s_.target] if isinstance(s_, (ast.AugAssign, ast.AnnAssign)) else [])
            for t_ in tg:
                root = t_
                while isinstance(root, ast.Subscript):
                    root = root.value
                ch_ = attr_chain(root) if isinstance(root, ast.Attribute) else None
                if ch_ and ch_.startswith("self.") and ch_.count(".") == 1:
                    mutable_state.add(ch_)
    comp_reads = {attr_chain(a) for a in ast.walk(comp.node) if isinstance(a, ast.Attribute) and isinstance(a.ctx, ast.Load) and attr_chain(a) and attr_chain(a).startswith("self.") and attr_chain(a).count(".") == 1}
    stale = sorted((comp_reads & mutable_state) - {f"self.{b}" for b in bufs})
    if stale:
        rep.violation("ACC", comp, f"compute() reads mutable state {stale}", f"the result of compute() depends on {stale}, which is neither a registered accumulator nor restored by reset(): a value remembered from an earlier accumulation can be returned after reset()/further updates", node=comp.node)
        n += 1
    rets = returns_of(comp.node)
    # compute() may not modify anything it reads: an in-place method on an accumulator (clamp_, add_, ...) is reported here
    # because the quotient analysis below may not get that far
    early_writes = False
    for c_ in ast.walk(comp.node):
        if isinstance(c_, ast.Call) and isinstance(c_.func, ast.Attribute) and c_.func.attr.endswith("_") and not c_.func.attr.startswith("__"):
            ch_ = attr_chain(c_.func.value)
            if ch_ and ch_.startswith("self.") and ch_[5:] in bufs:
                rep.violation("ACC", comp, f"compute(): {unparse(c_)[:70]}", f"compute() modifies the accumulator `{ch_}` in place: reading the metric changes what is accumulated, so later results depend on whether compute() was called in between (a compute() on the empty state turns total = 0 into 1 for good: every later rate is errors / (total + 1))", node=c_)
                n += 1
                early_writes = True
    if len(rets) != 1:
        # several exits (an explicit empty-state return ...): decided by evaluating compute() on accumulator states
        eg_, tg_ = (sorted(b_ for b_ in bufs if "err" in b_) + [None])[0], (sorted(b_ for b_ in bufs if "total" in b_ or "tot" in b_) + [None])[0]
        cst_, cd_ = compute_evaluated(repo, ci, comp, f"self.{eg_}" if eg_ else None, f"self.{tg_}" if tg_ else None)
        rep.add("ACC", comp, f"compute() with {len(rets)} returns", cst_, cd_, node=comp.node)
        n += 1
        if cst_ == OK:
            err_attr, tot_attr = f"self.{eg_}", f"self.{tg_}"
    else:
        from ..astutil import Inliner

        e = Inliner(comp).inline(rets[0].value)
        while isinstance(e, ast.Call) and ((call_name(e) == "torch.tensor" and e.args) or (isinstance(e.func, ast.Attribute) and e.func.attr in ("to", "float", "double") and not (call_name(e) or "").startswith("torch."))):
            e = e.args[0] if call_name(e) == "torch.tensor" else e.func.value
        if isinstance(e, ast.BinOp) and isinstance(e.op, ast.Div):
            num, den = e.left, e.right
            num_attrs = {attr_chain(a) for a in ast.walk(num) if isinstance(a, ast.Attribute) and (attr_chain(a) or "").count(".") == 1 and attr_chain(a).startswith("self.")}
            den_attrs = {attr_chain(a) for a in ast.walk(den) if isinstance(a, ast.Attribute) and (attr_chain(a) or "").count(".") == 1 and attr_chain(a).startswith("self.")}
            if len(num_attrs) == 1 and len(den_attrs) == 1:
                err_attr, tot_attr = num_attrs.pop(), den_attrs.pop()
            guard = any(isinstance(c, ast.Call) and call_name(c) == "max" and any(isinstance(a, ast.Constant) and a.value == 1 for a in c.args) for c in ast.walk(den))
            tt = Terms(comp, repo, ci)
            numt = tt.eval(num, {})
            dent = tt.eval(den, {})
            ok = err_attr is not None and numt == single(err_attr) and guard and dent in (single(f"max({tot_attr},1)"), single(f"max(1,{tot_attr})"))
            if ok:
                rep.ok("ACC", comp, f"compute: {unparse(rets[0].value)}", f"rate = {err_attr} / max({tot_attr}, 1): exact fraction with zero guard", node=rets[0])
            else:
                # another spelling of the quotient / of the zero guard: decided by evaluating compute() on accumulator states
                cst_, cd_ = compute_evaluated(repo, ci, comp, err_attr, tot_attr)
                rep.add("ACC", comp, f"compute: {unparse(rets[0].value)}", cst_, cd_ if cst_ != UNDECIDED else f"not the listed form errors / max(total, 1), and not evaluable ({cd_})", node=rets[0])
            n += 1
        elif not early_writes:
            rep.undecided("ACC", comp, f"compute: {unparse(rets[0].value)}", "not a quotient")
    if err_attr is None:
        return n
    if {err_attr[5:], tot_attr[5:]} != set(bufs):
        rep.violation("ACC", comp, f"compute reads {err_attr}, {tot_attr}", f"registered accumulators are {sorted(bufs)}")
    reads = {attr_chain(a) for a in ast.walk(comp.node) if isinstance(a, ast.Attribute) and attr_chain(a) and attr_chain(a).startswith("self.") and attr_chain(a).count(".") == 1}
    rep.check(reads <= {err_attr, tot_attr}, "ACC", comp, f"compute reads {sorted(reads)}", "only the two accumulators", "compute() depends on state other than the accumulators")
    n += 1

    # ---- update: += only, RHS independent of accumulators
    upd = repo.method(ci, "update")
    written: Dict[str, List[frozenset]] = {}
    tu = Terms(upd, repo, ci, opaque_methods={"_reshape_into_blocks"})
    env = {p: single(p) for p in upd.params if p != "self"}
    tu.run(env)
    for ch, kind, val, st in tu.attr_writes:
        if ch not in (err_attr, tot_attr):
            if ch[5:] in bufs:
                pass
            continue
        ok = kind == "aug+"
        dep = any(err_attr in t_ or tot_attr in t_ for t_ in val)
        if not ok:
            rep.violation("ACC", upd, st, f"accumulator {ch} is written by `{kind}` instead of `+=`: the accumulated value is no longer the sum over batches (partition/order dependent)", node=st)
        elif dep:
            rep.violation("ACC", upd, st, "the increment reads an accumulator: the result depends on how the data was split into update() calls", node=st)
        else:
            rep.ok("ACC", upd, st, "`+=` of a per-batch quantity that reads no accumulator", node=st)
        n += 1
        written.setdefault(ch, []).append(val)
    other_writes = [w for w in tu.attr_writes if w[0] not in (err_attr, tot_attr)]
    for ch, kind, val, st in other_writes:
        rep.violation("ACC", upd, st, f"update() writes state `{ch}` that reset() / compute() do not manage", node=st)
    if set(written) != {err_attr, tot_attr}:
        rep.violation("ACC", upd, f"update writes {sorted(written)}", f"both {err_attr} and {tot_attr} must be advanced on every update")
        return n
    if any(len(v) != 1 for v in written.values()):
        # several increment sites: alternatives only if all but the last sit on early-return paths
        from ..astutil import ancestors, set_parents

        set_parents(upd.node)
        sites = [st for ch, kind, val, st in tu.attr_writes if ch in (err_attr, tot_attr)]
        early = []
        for st in sites:
            blk = next((a for a in ancestors(st) if isinstance(a, ast.If)), None)
            if blk is not None and any(isinstance(x, ast.Return) for x in blk.body) and st in list(stmts_of(blk.body)):
                early.append(st)
        if len(sites) - len(early) > 2 or not early:
            rep.undecided("ACC", upd, "update()", "an accumulator is advanced at more than one site on the same path")
            return n
        for ch in list(written):
            u = frozenset()
            for v in written[ch]:
                u = u | v
            written[ch] = [u]
        if not any(ch == err_attr for ch, kind, val, st in tu.attr_writes if st in early):
            # an early-exit path that advances the total but not the error count: errors += 0 on that path
            pass

    # ---- reset zeroes exactly what update writes
    rst = repo.method(ci, "reset")
    tr = Terms(rst, repo, ci)
    tr.run({})
    zeroed = set()
    for ch, kind, val, st in tr.attr_writes:
        if kind == "inplace:zero_" or (kind == "inplace:fill_" and val == single("0")) or (kind == "assign" and any(z in next(iter(val)) for z in ("torch.tensor(0", "torch.zeros("))):
            zeroed.add(ch)
        else:
            rep.violation("ACC", rst, st, f"reset() sets {ch} by `{kind}` to {sorted(val)}: not the initial state", node=st)
    rep.check(zeroed == set(written), "ACC", rst, f"reset zeroes {sorted(zeroed)}", "exactly the accumulators update() advances", f"update() advances {sorted(written)} but reset() zeroes {sorted(zeroed)}")
    n += 1

    # ---- compute() is a pure function of the accumulators: whatever it (or any other method) writes must be restored by reset()
    comp_m = repo.method(ci, "compute")
    tcw = Terms(comp_m, repo, ci)
    tcw.run({})
    for ch, kind, val, st in tcw.attr_writes:
        n += 1
        if ch in (err_attr, tot_attr):
            rep.violation("ACC", comp_m, st, f"compute() modifies the accumulator `{ch}` ({kind}): reading the metric changes what is accumulated, so a later result depends on whether (and when) compute() was called in between - e.g. a compute() on the empty state turns total = 0 into 1 for good and every later rate is errors / (total + 1)", node=st)
        elif ch in zeroed:
            rep.ok("ACC", comp_m, st, "state written by compute() is restored by reset()", node=st, nontrivial=False)
        else:
            rep.violation("ACC", comp_m, st, f"compute() writes `{ch}`, which reset() does not restore: after reset() the metric still carries information from the previous accumulation (a value computed before the reset can be returned after it)", node=st)

    # ---- forward writes nothing
    fwd = repo.method(ci, "forward")
    tf = Terms(fwd, repo, ci, config=cfg(fwd_atoms), opaque_methods={"_reshape_into_blocks"})
    envf = {p: single(p) for p in fwd.params if p != "self"}
    tf.run(envf)
    rep.check(not tf.attr_writes, "ACC", fwd, f"forward writes {[w[0] for w in tf.attr_writes]}", "one-shot evaluation leaves the accumulators untouched", "forward() modifies metric state", node=fwd.node)
    n += 1

    # ---- sibling agreement: per-batch count/total of forward vs update
    E_u, T_u = written[err_attr][0], written[tot_attr][0]
    E_f = T_f = None
    for v, r, renv in tf.returns:
        e = r.value
        if isinstance(e, ast.Call) and call_name(e) == "torch.tensor" and e.args:
            e = e.args[0]
        if isinstance(e, ast.Name):
            # follow a single local definition
            defs = [s for s in stmts_of(fwd.body) if isinstance(s, ast.Assign) and any(isinstance(t_, ast.Name) and t_.id == e.id for t_ in s.targets)]
            if len(defs) == 1:
                e = defs[0].value
                if isinstance(e, ast.Call) and call_name(e) == "torch.tensor" and e.args:
                    e = e.args[0]
        if isinstance(e, ast.IfExp):
            guard_ok = isinstance(e.test, ast.Compare)
            e = e.body
        if isinstance(e, ast.BinOp) and isinstance(e.op, ast.Div):
            tt = Terms(fwd, repo, ci, config=cfg(fwd_atoms), opaque_methods={"_reshape_into_blocks"})
            ef = tt.eval(e.left, dict(renv))
            tfv = tt.eval(e.right, dict(renv))
            E_f = ef if E_f is None else E_f | ef
            T_f = tfv if T_f is None else T_f | tfv
    if E_f is None:
        rep.undecided("SIBLING", fwd, "forward: rate = count / total", "no return of the form count / total found")
        return n
    ev = None
    for what, a, b in (("error count", E_f, E_u), ("total", T_f, T_u)):
        if (a != b or "?" in a or "?" in b) and ev is None:
            # the two derivations are spelt differently (or too long to compare as terms): decided by evaluating both methods on sample batches
            ev = streaming_evaluated(repo, ci, err_attr, tot_attr, STREAM_ATTRS.get(cname, {}))
        if ("?" in a or "?" in b) and ev is not None and ev[0] is True:
            rep.ok("SIBLING", fwd, f"{what}: forward vs update (terms too long to compare)", ev[1])
        elif ("?" in a or "?" in b) and ev is not None and ev[0] is False:
            rep.violation("SIBLING", upd, f"{what}: forward vs update", f"accumulating over update() calls does not equal the one-shot value on the concatenated data ({ev[1]})")
        elif "?" in a or "?" in b:
            rep.undecided("SIBLING", fwd, f"{what}: forward vs update", "term overflow" + (f"; evaluation: {ev[1]}" if ev is not None else ""))
        elif a == b:
            rep.ok("SIBLING", fwd, f"{what}: forward == update == {' | '.join(sorted(a))}", "the streamed per-batch quantity is the one-shot quantity")
        elif ev is not None and ev[0] is True:
            rep.ok("SIBLING", fwd, f"{what}: forward vs update (different spellings)", ev[1])
        elif ev is not None and ev[0] is None:
            rep.undecided("SIBLING", upd, f"{what}: forward and update derive it differently", f"the two derivations differ as terms and could not be evaluated ({ev[1]})")
        else:
            only_f, only_u = sorted(a - b), sorted(b - a)
            rep.violation("SIBLING", upd, f"{what}: update computes {' | '.join(only_u) or '(subset)'}", f"forward computes {' | '.join(only_f) or '(superset)'}: accumulating over update() calls no longer equals the one-shot value on the concatenated data" + (f" ({ev[1]})" if ev is not None and ev[0] is False else ""))
        n += 1
    # symmetry of the error predicate: re-derive the count with the arguments exchanged
    ts = Terms(upd, repo, ci, opaque_methods={"_reshape_into_blocks"})
    params = [p for p in upd.params if p != "self"]
    envs = {p: single(p) for p in params}
    if len(params) >= 2:
        envs[params[0]], envs[params[1]] = single(params[1]), single(params[0])
    ts.run(envs)
    E_s = None
    for ch, kind, val, st in ts.attr_writes:
        if ch == err_attr:
            E_s = val
    ok = E_s is not None and E_s == E_u
    rep.check(bool(ok), "SYMMETRIC", upd, f"error count with arguments exchanged: {' | '.join(sorted(E_s or ()))[:200]}", "identical term: the count is symmetric in (x, y)", f"exchanging the arguments changes the count (original: {' | '.join(sorted(E_u))[:160]})")
    n += 1
    return n


#: batches the streamed / one-shot comparison is evaluated on: (x, y) pairs of 2-D inputs with the same row length
STREAM_BATCHES = (
    ([[0.9, 0.1, 0.8, 0.2], [0.7, 0.6, 0.1, 0.3]], [[0.8, 0.7, 0.9, 0.1], [0.2, 0.9, 0.0, 0.9]]),
    ([[0.2, 0.9, 0.4, 0.6], [0.1, 0.1, 0.9, 0.9], [0.6, 0.4, 0.7, 0.3]], [[0.1, 0.8, 0.7, 0.9], [0.0, 0.3, 0.8, 0.7], [0.9, 0.9, 0.2, 0.2]]),
    ([[0.55, 0.45, 0.05, 0.95]], [[0.6, 0.4, 0.1, 0.2]]),
    # values exactly at the decision threshold (0.5) and differences exactly equal to the block threshold (0.25)
    ([[0.5, 0.75, 0.5, 0.0], [0.25, 0.5, 1.0, 0.5]], [[0.75, 0.5, 0.25, 0.0], [0.5, 0.5, 1.0, 0.75]]),
    # an error-free batch (x == y)
    ([[0.9, 0.1, 0.2, 0.8], [0.3, 0.7, 0.6, 0.4], [1.0, 0.0, 1.0, 0.0]], [[0.9, 0.1, 0.2, 0.8], [0.3, 0.7, 0.6, 0.4], [1.0, 0.0, 1.0, 0.0]]),
)
#: complex symbols covering every pattern of (real bit differs, imaginary bit differs): none, real only, imaginary only, both
STREAM_COMPLEX = (
    ([[0.9 + 0.1j, 0.2 + 0.8j], [0.7 + 0.6j, 0.1 + 0.3j]], [[0.8 + 0.7j, 0.9 + 0.9j], [0.2 + 0.9j, 0.0 + 0.2j]]),
    ([[0.1 + 0.9j, 0.6 + 0.6j]], [[0.9 + 0.8j, 0.4 + 0.7j]]),
    ([[0.9 + 0.9j, 0.1 + 0.8j], [0.2 + 0.1j, 0.7 + 0.2j]], [[0.1 + 0.1j, 0.9 + 0.2j], [0.8 + 0.9j, 0.7 + 0.2j]]),
)


def compute_evaluated(repo: Repo, ci, comp, err_attr, tot_attr):
    """compute() evaluated (own arithmetic) on accumulator states: the empty state gives 0 (no division by zero), every other
    state the exact quotient errors / total."""
    from ..constfold import Unfoldable
    from ..frag import FragRaise, FragReturn, run_fragment

    if err_attr is None or tot_attr is None:
        return UNDECIDED, "accumulators not identified"
    funcs = {f"self.{m}": fi_.node for m, fi_ in ci.methods.items() if m not in ("forward", "update", "compute", "reset", "__init__")}
    for e_, t_ in ((0, 0), (0, 1), (1, 1), (0, 5), (5, 5), (3, 12), (1, 3), (7, 1000003)):
        attrs = {err_attr: e_, tot_attr: t_}
        try:
            run_fragment(comp.body, {}, attrs, funcs=funcs, max_steps=20000, attrs_live=True)
            return UNDECIDED, "no value returned"
        except FragReturn as ret:
            got = ret.value
        except FragRaise:
            return VIOLATION, f"compute() raises for errors = {e_}, total = {t_}"
        except ZeroDivisionError:
            return VIOLATION, "compute() divides by zero on the empty state (no data accumulated yet)"
        except (Unfoldable, TypeError, ValueError) as exc:
            return UNDECIDED, str(exc)
        while isinstance(got, list) and len(got) == 1:
            got = got[0]
        if isinstance(got, bool) or not isinstance(got, (int, float)):
            return UNDECIDED, f"result {got!r} is not a number"
        want = 0.0 if t_ == 0 else e_ / t_
        if abs(got - want) > 1e-15 * max(1.0, want) or attrs != {err_attr: e_, tot_attr: t_}:
            return VIOLATION, f"compute() with errors = {e_}, total = {t_} returns {got}" + (f" and leaves the accumulators as {attrs}" if attrs != {err_attr: e_, tot_attr: t_} else "") + f"; the exact rate is {want}"
    return OK, "unlisted spelling; evaluated on eight accumulator states (the empty state included): the exact quotient errors / total, 0 on the empty state, accumulators untouched"


def streaming_evaluated(repo: Repo, ci, err_attr: str, tot_attr: str, attrs0: Dict[str, object]):
    """update() on several batches followed by compute(), against forward() on the concatenated data, all evaluated by own
    arithmetic over nested lists.  Returns (True, note) / (False, counter-example) / (None, reason)."""
    from ..constfold import PySeq, Unfoldable
    from ..frag import FragReturn, run_fragment

    funcs = {f"self.{m}": fi_.node for m, fi_ in ci.methods.items() if m not in ("forward", "update", "compute", "reset", "__init__")}
    for st in ci.module.tree.body:
        if isinstance(st, ast.FunctionDef):
            funcs[st.name] = st
    fwd, upd, comp = (ci.methods[m] for m in ("forward", "update", "compute"))

    def call(fi_, names, attrs):
        try:
            run_fragment(fi_.body, names, attrs, funcs=funcs, max_steps=60000, attrs_live=True)
        except FragReturn as ret:
            return ret.value
        return None

    def scalar(v):
        while isinstance(v, list) and len(v) == 1:
            v = v[0]
        if isinstance(v, bool) or not isinstance(v, (int, float)):
            raise Unfoldable(f"rate is not a number: {v!r}")
        return float(v)

    groups = [("real", STREAM_BATCHES), ("complex", STREAM_COMPLEX)]
    from .. import frag as _frag

    _frag.COVERAGE = set()
    try:
        for kind, batches in groups:
            for k in range(1, len(batches) + 1):
                attrs = dict(attrs0)
                attrs[err_attr if err_attr.startswith("self.") else f"self.{err_attr}"] = 0
                attrs[tot_attr if tot_attr.startswith("self.") else f"self.{tot_attr}"] = 0
                for x, y in batches[:k]:
                    call(upd, {"x": x, "y": y, "args": PySeq([]), "kwargs": {}}, attrs)
                streamed = scalar(call(comp, {}, dict(attrs)))
                X = [r for x, _ in batches[:k] for r in x]
                Y = [r for _, y in batches[:k] for r in y]
                oneshot = scalar(call(fwd, {"x": X, "y": Y, "args": PySeq([]), "kwargs": {}}, dict(attrs0)))
                if abs(streamed - oneshot) > 1e-12:
                    return False, f"{kind} batches of {[len(b[0]) for b in batches[:k]]} rows: update()+compute() gives {streamed!r}, forward() on the concatenated data gives {oneshot!r}"
    except Unfoldable as exc:
        _frag.COVERAGE = None
        return None, str(exc)
    # "agrees on the samples" is only said when the samples reached every branch of the evaluated methods
    missed = _frag.unreached_branches([f_.node for f_ in (fwd, upd, comp)] + [nd_ for nd_ in funcs.values()])
    _frag.COVERAGE = None
    if missed:
        st_, flag_ = missed[0]
        if flag_ == "body":
            return None, f"the samples never enter the body of the loop at line {st_.lineno}: agreement on them does not cover that path"
        return None, f"the samples never take the {'true' if flag_ else 'false'} arm of `if {unparse(st_.test)[:60]}` (line {st_.lineno}): agreement on them does not cover that path"
    return True, f"update() over 1..{len(STREAM_BATCHES)} batches + compute() equals forward() on the concatenated data ({', '.join(g for g, _ in groups)} samples; every branch of the three methods reached)"


#: error patterns that tell `any` from `all`, the block axis from the other axes and consecutive from strided blocks
BLOCK_PATTERNS = [[1, 1, 0, 0], [1, 0, 0, 0], [0, 0, 0, 0], [0, 1, 1, 0]]


def blocks_evaluated(repo: Repo, ci, m: str):
    """forward() (or update() + compute()) evaluated on words whose error pattern is BLOCK_PATTERNS: the rate must be the
    fraction of consecutive runs of block_size elements (or of rows, for block_size None) that contain an error."""
    from ..constfold import PySeq, Unfoldable
    from ..frag import FragReturn, run_fragment

    funcs = {f"self.{k}": fi_.node for k, fi_ in ci.methods.items() if k not in ("forward", "update", "compute", "reset", "__init__")}
    for st in ci.module.tree.body:
        if isinstance(st, ast.FunctionDef):
            funcs[st.name] = st
    bufs = list(buffers_of(ci))

    def call(fi_, names, attrs):
        try:
            run_fragment(fi_.body, names, attrs, funcs=funcs, max_steps=60000, attrs_live=True)
        except FragReturn as ret:
            return ret.value
        return None

    def scalar(v):
        while isinstance(v, list) and len(v) == 1:
            v = v[0]
        if isinstance(v, bool) or not isinstance(v, (int, float)):
            raise Unfoldable(f"rate is not a number: {v!r}")
        return float(v)

    X = [[0.0] * 4 for _ in BLOCK_PATTERNS]
    Y = [[float(e) for e in r] for r in BLOCK_PATTERNS]
    from ..frag import coverage_scope

    scope = coverage_scope()
    scope.__enter__()
    try:
        for bs in (2, None, 4, 1):
            size = bs or 4
            blocks = [r[i : i + size] for r in BLOCK_PATTERNS for i in range(0, 4, size)]
            want = sum(1 for b in blocks if any(b)) / len(blocks)
            attrs = {"self.threshold": 0.25, "self.block_size": bs, "self.reduction": "mean"}
            for b_ in bufs:
                attrs[f"self.{b_}"] = 0
            if m == "forward":
                got = scalar(call(ci.methods["forward"], {"x": X, "y": Y, "args": PySeq([]), "kwargs": {}}, attrs))
            else:
                call(ci.methods["update"], {"x": X, "y": Y, "args": PySeq([]), "kwargs": {}}, attrs)
                got = scalar(call(ci.methods["compute"], {}, attrs))
            if abs(got - want) > 1e-12:
                return False, f"block_size {bs}: error pattern {BLOCK_PATTERNS} gives {got!r}; {sum(1 for b in blocks if any(b))} of its {len(blocks)} blocks of {size} consecutive elements contain an error ({want!r})"
            # the same for items with more than one axis: (2, 2, 4) - an item is flattened, then cut into runs of block_size
            # elements (block_size None: the whole item is one block)
            if bs in (None, 2, 4):
                Z = [0, 0, 0, 0]
                items = [[Z, Z], [Z, BLOCK_PATTERNS[1]]]
                X3 = [[[0.0] * 4, [0.0] * 4], [[0.0] * 4, [0.0] * 4]]
                Y3 = [[[float(e) for e in r] for r in it] for it in items]
                flat = [[e for r in it for e in r] for it in items]
                size3 = bs or 8
                blocks3 = [f[i : i + size3] for f in flat for i in range(0, 8, size3)]
                want3 = sum(1 for b in blocks3 if any(b)) / len(blocks3)
                attrs = {"self.threshold": 0.25, "self.block_size": bs, "self.reduction": "mean"}
                for b_ in bufs:
                    attrs[f"self.{b_}"] = 0
                if m == "forward":
                    got3 = scalar(call(ci.methods["forward"], {"x": X3, "y": Y3, "args": PySeq([]), "kwargs": {}}, attrs))
                else:
                    call(ci.methods["update"], {"x": X3, "y": Y3, "args": PySeq([]), "kwargs": {}}, attrs)
                    got3 = scalar(call(ci.methods["compute"], {}, attrs))
                if abs(got3 - want3) > 1e-12:
                    return False, f"block_size {bs}, input of shape (2, 2, 4) with one erroneous element in the second item: the rate is {got3!r}; {sum(1 for b in blocks3 if any(b))} of the {len(blocks3)} blocks ({'one per batch item' if bs is None else f'runs of {bs} elements of each flattened item'}) contain an error ({want3!r})"
    except Unfoldable as exc:
        scope.__exit__()
        return None, str(exc)
    scope.__exit__()
    # branches that only serve empty inputs / the other reductions are outside this evaluation's claim
    gap = None
    for st_, flag_ in scope.missed([ci.methods[m].node] + ([ci.methods["compute"].node] if m == "update" else [])):
        if flag_ == "body":
            gap = f"the samples never enter the body of the loop at line {st_.lineno}"
            break
        txt_ = unparse(st_.test)
        if "reduction" in txt_ or "numel() == 0" in txt_ or "> 0" in txt_:
            continue
        gap = f"the samples never take the {'true' if flag_ else 'false'} arm of `if {txt_[:60]}` (line {st_.lineno})"
        break
    if gap:
        return None, gap
    return True, "block_size 2 / None / 4 / 1: the rate is the fraction of consecutive runs of block_size elements containing an error"


def sorted_sym(term: str) -> bool:
    """abs(x - y) is symmetric although the term is not literally invariant."""
    s = swap_xy(term)
    return s.replace("(y - x)", "(x - y)").replace("self._reshape_into_blocks(y) - self._reshape_into_blocks(x)", "self._reshape_into_blocks(x) - self._reshape_into_blocks(y)") == term and ".abs()" in term


def rule_blocks(repo: Repo, rep: Report) -> int:
    fi = repo.func(BLER, "BlockErrorRate._reshape_into_blocks")
    n = 0
    raises = [s for s in stmts_of(fi.body) if isinstance(s, ast.If) and any(isinstance(x, ast.Raise) for x in s.body) and "%" in unparse(s.test)]
    if len(raises) == 1:
        # a local alias of the block size (`block_size = self.block_size`) is resolved first
        al = {s_.targets[0].id for s_ in stmts_of(fi.body) if isinstance(s_, ast.Assign) and isinstance(s_.targets[0], ast.Name) and unparse(s_.value) == "self.block_size"}
        if al:
            import copy as _copy

            class _R(ast.NodeTransformer):
                def visit_Name(self, nd):
                    return ast.copy_location(ast.parse("self.block_size", mode="eval").body, nd) if nd.id in al and isinstance(nd.ctx, ast.Load) else nd

            raises = [ast.fix_missing_locations(_R().visit(_copy.deepcopy(raises[0])))]
    ok = len(raises) == 1 and match(raises[0].test, "_E % self.block_size != 0") is not None
    whole_batch = False
    if ok:
        mE = match(raises[0].test, "_E % self.block_size != 0")["_E"]
        edefs = [s_.value for s_ in stmts_of(fi.body) if isinstance(s_, ast.Assign) and isinstance(mE, ast.Name) and isinstance(s_.targets[0], ast.Name) and s_.targets[0].id == mE.id]
        etxt = unparse(edefs[-1]) if edefs else unparse(mE)
        per_item = ("shape[1:]" in etxt or "remainder_dims" in etxt or "// batch_size" in etxt or "// data.shape[0]" in etxt or "data[0].numel()" in etxt)
        whole_batch = (not per_item) and (etxt in ("data.numel()", "data.nelement()", "torch.numel(data)") or "data.shape)" in etxt and "shape[1:]" not in etxt)
        if whole_batch:
            ok = False
        elif not per_item:
            ok = False
    weakened = whole_batch or len(raises) == 1 and isinstance(raises[0].test, ast.BoolOp) and isinstance(raises[0].test.op, ast.And) and any(match(v_, "_E % self.block_size != 0") is not None for v_ in raises[0].test.values)
    rep.shape(ok, weakened, "BLOCKS", fi, f"divisibility: {unparse(raises[0].test) if raises else '(none)'}", "a per-item size that is not a multiple of block_size is rejected with an error", "the divisibility test is weakened or applied to the element count of the whole batch: a block size that does not divide one item's length is accepted and blocks straddle batch items", node=raises[0] if raises else fi.node)
    n += 1
    rets = returns_of(fi.node)
    last = rets[-1]
    from ..astutil import Inliner

    inl = Inliner(fi).inline(last.value)
    ok = match(inl, "data.reshape(_B, -1).reshape(_B, _E // self.block_size, self.block_size)") is not None or match(inl, "data.reshape(_B, _E // self.block_size, self.block_size)") is not None
    wrong_view = match(inl, "data.reshape(_B, -1).reshape(_B, self.block_size, _E // self.block_size)") is not None or match(inl, "data.reshape(_B, self.block_size, _E // self.block_size)") is not None or "transpose" in unparse(inl) or "permute" in unparse(inl)
    rep.shape(ok, wrong_view, "BLOCKS", fi, f"block view: {unparse(inl)[:150]}", "(batch, n // block_size, block_size): consecutive elements form a block", "blocks are not consecutive runs of block_size elements", node=last)
    n += 1
    row = [r for r in rets if match(r.value, "data.reshape(batch_size, 1, -1)") is not None]
    rep.shape(len(row) >= 1, False, "BLOCKS", fi, "block_size None: data.reshape(batch_size, 1, -1)", "each row is one block", "row-as-block mode changed")
    n += 1
    # both forward and update reduce with any over the last (block) axis
    for m in ("forward", "update"):
        f2 = repo.func(BLER, f"BlockErrorRate.{m}")
        anys = [c for c in ast.walk(f2.node) if isinstance(c, ast.Call) and isinstance(c.func, ast.Attribute) and c.func.attr in ("any", "all")]
        ok = len(anys) == 1 and anys[0].func.attr == "any" and any(k.arg == "dim" and unparse(k.value) == "-1" for k in anys[0].keywords)
        wrong_red = len(anys) == 1 and (anys[0].func.attr == "all" or any(k.arg == "dim" and unparse(k.value) not in ("-1", "2") for k in anys[0].keywords))
        helper_calls = {who: [c for c in ast.walk(f2.node) if isinstance(c, ast.Call) and attr_chain(c.func) == "self._reshape_into_blocks" and c.args and unparse(c.args[0]) == who] for who in ("x", "y")}
        if not (ok or wrong_red) or any(len(v) != 1 for v in helper_calls.values()):
            # another spelling (e.g. the flags computed in a helper method): the method is evaluated against the definition
            ev = blocks_evaluated(repo, repo.cls(BLER, "BlockErrorRate"), m)
            if ev[0] is not None:
                construct = f"{m}: block error rate evaluated on sample words (block_size 2 and row-as-block)"
                if ev[0]:
                    rep.ok("BLOCKS", f2, construct, ev[1], node=f2.node)
                else:
                    rep.violation("BLOCKS", f2, construct, ev[1], node=f2.node)
                n += 3
                continue
        rep.shape(ok, wrong_red, "BLOCKS", f2, f"block reduction: {unparse(anys[0]) if anys else '(none)'}", "a block is in error iff any of its elements differs", "block error is not `any` over the block axis", node=anys[0] if anys else f2.node)
        n += 1
        for who in ("x", "y"):
            calls = [c for c in ast.walk(f2.node) if isinstance(c, ast.Call) and attr_chain(c.func) == "self._reshape_into_blocks" and c.args and unparse(c.args[0]) == who]
            rep.shape(len(calls) == 1, False, "BLOCKS", f2, f"{m}: blocks of {who} via self._reshape_into_blocks", "both arguments use the same block layout", f"{who} is not reshaped by the shared block helper", node=f2.node)
            n += 1
    return n


def rule_aliases(repo: Repo, rep: Report) -> int:
    mi = repo.module(BLER)
    n = 0
    for alias in ("SER", "FER", "SymbolErrorRate", "FrameErrorRate", "BLER"):
        tgt = mi.aliases.get(alias)
        rep.check(tgt == "BlockErrorRate", "ALIAS", f"{BLER}::{alias}", f"{alias} = {tgt}", "alias of the block error rate class", f"{alias} no longer resolves to BlockErrorRate")
        n += 1
    return n


BENCH_PAIRS = (
    ([0, 1, 1, 0, 1, 0, 0, 1, 1, 1, 0, 0], [0, 1, 1, 0, 1, 0, 0, 1, 1, 1, 0, 0]),
    ([0, 1, 1, 0, 1, 0, 0, 1, 1, 1, 0, 0], [1, 0, 0, 1, 0, 1, 1, 0, 0, 0, 1, 1]),
    ([0, 1, 1, 0, 1, 0, 0, 1, 1, 1, 0, 0], [0, 1, 1, 0, 1, 1, 0, 1, 1, 1, 0, 0]),
    ([0, 1, 1, 0, 1, 0, 0, 1, 1, 1, 0, 0], [1, 1, 1, 0, 1, 0, 0, 1, 1, 1, 0, 1]),
    ([0, 0, 0, 0, 0, 0, 1, 1, 1, 1, 1, 1], [0, 1, 1, 0, 0, 0, 1, 1, 1, 0, 0, 1]),
)


def bench_evaluated(ci, which: str):
    """The benchmark helper evaluated (own arithmetic) on binary word pairs - equal, complementary, one difference, a
    difference in the first and last position, scattered - and, for the block form, every block size dividing 12: the value
    must be the exact fraction of differing positions / of blocks with at least one difference."""
    from ..constfold import Unfoldable
    from ..frag import FragRaise, FragReturn, run_fragment

    fi = ci.methods[which]
    cases = 0
    for x, y in BENCH_PAIRS:
        for B in ((None,) if which == "bit_error_rate" else (1, 2, 3, 4, 6, 12)):
            names = {"transmitted": [float(v) for v in x], "received": [float(v) for v in y]}
            if B is not None:
                names["block_size"] = B
            layouts = [names]
            if B is None:
                # the bit error rate is defined for any shape: the same words as (3, 4) and (2, 2, 3) tensors
                layouts.append({k_: [v_[i : i + 4] for i in range(0, 12, 4)] for k_, v_ in names.items()})
                layouts.append({k_: [[v_[i : i + 3], v_[i + 3 : i + 6]] for i in range(0, 12, 6)] for k_, v_ in names.items()})
            for names in layouts[1:]:
                try:
                    run_fragment(fi.body, names, {}, ctors={"torch.Tensor": list}, materialise=True, max_steps=100000)
                    return None, "no value returned"
                except FragReturn as ret:
                    got2 = ret.value
                except (Unfoldable, FragRaise, TypeError, IndexError, ValueError, ZeroDivisionError) as exc:
                    return None, str(exc)
                want2 = sum(a != b for a, b in zip(x, y)) / len(x)
                if not isinstance(got2, (int, float)) or isinstance(got2, bool):
                    return None, f"result {got2!r} is not a number"
                if abs(got2 - want2) > 1e-12:
                    return VIOLATION, f"{which} of the words {x}, {y} laid out as a tensor of rank {2 if isinstance(names['transmitted'][0][0], float) else 3} is {got2}; the exact fraction of differing positions is {want2}"
                cases += 1
            names = layouts[0]
            try:
                run_fragment(fi.body, names, {}, ctors={"torch.Tensor": list}, materialise=True, max_steps=100000)
                return None, "no value returned"
            except FragReturn as ret:
                got = ret.value
            except (Unfoldable, FragRaise, TypeError, IndexError, ValueError, ZeroDivisionError) as exc:
                return None, str(exc)
            if not isinstance(got, (int, float)) or isinstance(got, bool):
                return None, f"result {got!r} is not a number"
            if B is None:
                want = sum(a != b for a, b in zip(x, y)) / len(x)
            else:
                want = sum(any(a != b for a, b in zip(x[i : i + B], y[i : i + B])) for i in range(0, len(x), B)) / (len(x) // B)
            if abs(got - want) > 1e-12:
                return VIOLATION, f"{which}({x}, {y}" + (f", block_size={B}" if B else "") + f") is {got}; the exact fraction of differing {'positions' if B is None else 'blocks'} is {want}"
            cases += 1
    return OK, f"{cases} cases: the exact fraction of differing {'positions' if which == 'bit_error_rate' else 'blocks (every block size dividing the length)'}"


def rule_benchmark(repo: Repo, rep: Report) -> int:
    n = 0
    ci = repo.cls(BM, "StandardMetrics")
    decided = set()
    for which in ("bit_error_rate", "block_error_rate"):
        st_, d_ = bench_evaluated(ci, which)
        if st_ is not None:
            rep.add("BENCH", repo.method(ci, which), f"{which} evaluated on binary word pairs", st_, d_, node=repo.method(ci, which).node)
            decided.add(which)
    if len(decided) == 2:
        return 2
    # fallback for a helper the evaluator cannot follow: the free-term form (another spelling gives no verdict, not an alarm)
    fi = repo.method(ci, "bit_error_rate")
    t = Terms(fi, repo, ci, config=lambda test, env: False if "isinstance" in unparse(test) else None)
    t.run({"transmitted": single("x"), "received": single("y")})
    got = set()
    for v, r, _ in t.returns:
        got |= set(v or ())
    want = {"((x != y).sum() / x.numel())", "((x != y).sum() / y.numel())"}
    ok = bool(got) and got <= want
    if "bit_error_rate" not in decided:
        rep.shape(ok, False, "BENCH", fi, f"bit_error_rate = {' | '.join(sorted(got))}", "count of differing positions / number of elements (the BER metric on binary inputs)", f"benchmark BER differs from count(!=)/numel", node=fi.node)
    n += 1
    fi = repo.method(ci, "block_error_rate")
    t = Terms(fi, repo, ci, config=lambda test, env: False if "isinstance" in unparse(test) else None)
    t.run({"transmitted": single("x"), "received": single("y"), "block_size": single("B")})
    got = set()
    for v, r, _ in t.returns:
        got |= set(v or ())
    nb = "(len(x) // B)"
    xb = f"x[:({nb} * B)].reshape((-1),B)"
    yb = f"y[:({nb} * B)].reshape((-1),B)"
    want = {f"(({xb} != {yb}).any(dim=1).sum() / {nb})"}
    alt = {w.replace(f"({nb} * B)", f"(B * {nb})") for w in want}
    ok = bool(got) and (got <= want or got <= alt)
    if "block_error_rate" not in decided:
        rep.shape(ok, False, "BENCH", fi, f"block_error_rate = {' | '.join(sorted(got))[:260]}", "blocks with at least one difference / number of blocks", "benchmark BLER differs from any-per-block / number of blocks", node=fi.node)
    n += 1
    return n


def rule_update_atomic(repo: Repo, rep: Report) -> int:
    """update() either accumulates a batch completely or not at all: every step that can reject the batch (a `raise`, a call
    of a method of the class that raises - the block reshape validates the length) comes before the first accumulator is
    advanced.  Otherwise a rejected batch leaves phantom counts behind and later results differ from the one-shot value on
    the accepted data."""
    n = 0
    for file, cname in ((BER, "BitErrorRate"), (BLER, "BlockErrorRate")):
        ci = repo.cls(file, cname)
        upd = ci.methods.get("update")
        if upd is None:
            continue
        bufs = set(buffers_of(ci))
        raising = {nm for nm, f_ in ci.methods.items() if any(isinstance(x, ast.Raise) for x in ast.walk(f_.node))}
        top = list(upd.body)

        def writes_acc(st):
            for x in ast.walk(st):
                if isinstance(x, ast.AugAssign) and (attr_chain(x.target) or "")[5:] in bufs:
                    return True
                if isinstance(x, ast.Call) and isinstance(x.func, ast.Attribute) and x.func.attr.endswith("_") and (attr_chain(x.func.value) or "")[5:] in bufs:
                    return True
                if isinstance(x, ast.Assign) and any((attr_chain(t_) or "")[5:] in bufs for t_ in x.targets):
                    return True
            return False

        def can_reject(st):
            for x in ast.walk(st):
                if isinstance(x, ast.Raise):
                    return x
                if isinstance(x, ast.Call) and (attr_chain(x.func) or "").startswith("self.") and (attr_chain(x.func) or "")[5:] in raising:
                    return x
            return None

        first = next((i for i, st in enumerate(top) if writes_acc(st)), None)
        n += 1
        if first is None:
            rep.undecided("ACC", upd, f"{cname}.update: accumulator writes", "no top-level statement advances an accumulator")
            continue
        late = next((can_reject(st) for st in top[first:] if can_reject(st) is not None and not (st is top[first] and can_reject(st) is not None and False)), None)
        # a rejecting call inside the very statement that writes is evaluated before the write (right-hand side first)
        late_nodes = [can_reject(st) for st in top[first + 1:] if can_reject(st) is not None]
        if late_nodes:
            rep.violation("ACC", upd, f"{cname}.update: `{unparse(top[first])[:50]}` before `{unparse(late_nodes[0])[:50]}`", "an accumulator is advanced before a step that can still reject the batch: a rejected update() (caught by the caller) leaves counts of data that was never accepted, so compute() no longer equals the one-shot value on the accepted batches, and reset() followed by a rejected update() leaves a non-zero state", node=late_nodes[0])
        else:
            rep.ok("ACC", upd, f"{cname}.update: every rejecting step precedes the first accumulator write", "a batch is accumulated completely or not at all", nontrivial=False)
    return n


def rule_count_dtype(repo: Repo, rep: Report) -> int:
    """Errors are counted in a type that holds every count exactly: a mismatch mask is summed as it is (integer result) or
    after a cast to a fixed wide type.  A cast whose target type is taken from an input (`.to(x.dtype)`, `.type_as(x)`)
    counts in half precision for half-precision inputs: float16 holds no odd integer above 2048, bfloat16 none above 256."""
    n = 0
    for file, cname in ((BER, "BitErrorRate"), (BLER, "BlockErrorRate")):
        ci = repo.cls(file, cname)
        helpers = [f_ for f_ in ci.module.functions.values()]
        for fi in [m_ for nm, m_ in ci.methods.items() if nm in ("forward", "update") or nm.startswith("_")] + helpers:
            params = {p_ for p_ in fi.params if p_ not in ("self", "cls")}
            casts = [c for c in ast.walk(fi.node) if isinstance(c, ast.Call) and isinstance(c.func, ast.Attribute) and c.func.attr in ("to", "type", "type_as")]
            bad = [c for c in casts if any(isinstance(x, ast.Name) and x.id in params for a in list(c.args) + [k.value for k in c.keywords] for x in ast.walk(a)) and not any("device" in unparse(a) for a in list(c.args) + [k.value for k in c.keywords])]
            # a real-valued cast of the compared values taken whenever they are "not floating point": complex tensors are not
            # floating point either, and .float() silently drops their imaginary part
            for st_ in ast.walk(fi.node):
                if isinstance(st_, ast.If) and "is_floating_point()" in unparse(st_.test) and "is_complex" not in unparse(st_.test):
                    neg = isinstance(st_.test, ast.UnaryOp) and isinstance(st_.test.op, ast.Not)
                    arm = st_.body if neg else st_.orelse
                    fl = [c for s2 in arm for c in ast.walk(s2) if isinstance(c, ast.Call) and isinstance(c.func, ast.Attribute) and (c.func.attr in ("float", "double", "half") or (c.func.attr in ("to", "type") and any("float" in unparse(a_) for a_ in c.args)))]
                    if fl:
                        n += 1
                        rep.violation("ACC", fi, f"{cname}.{fi.name}: if {unparse(st_.test)}: {unparse(fl[0])[:40]}", "the compared values are cast to a real floating type whenever they are not floating point - complex inputs are not floating point either, and the cast discards their imaginary part: symbols that differ only in the quadrature component count as equal (the rate is 0 for unequal inputs, and BER > BLER becomes possible)", node=st_)
            if not casts and not bad:
                continue
            n += 1
            if bad:
                rep.violation("ACC", fi, f"count dtype: {unparse(bad[0])[:80]}", "the mask of mismatches is converted to the dtype of an input before it is summed: for float16 / bfloat16 inputs the count is accumulated in half precision (no odd count above 2048 / 256), so the one-shot rate is not errors / total and disagrees with the accumulated one", node=bad[0])
            else:
                rep.ok("ACC", fi, f"count dtype: {len(casts)} cast(s), none to an input's dtype", "counts are taken in a fixed type", nontrivial=False)
    return n


def run(repo: Repo, rep: Report, tier: str) -> None:
    if tier == "thorough":
        for file_, cname_ in ((BER, "BitErrorRate"), (BLER, "BlockErrorRate")):
            ci_ = repo.cls(file_, cname_)
            bufs_ = list(buffers_of(ci_))
            err_ = next((b_ for b_ in bufs_ if "err" in b_), None)
            tot_ = next((b_ for b_ in bufs_ if "total" in b_), None)
            if err_ and tot_:
                ev_ = streaming_evaluated(repo, ci_, f"self.{err_}", f"self.{tot_}", STREAM_ATTRS.get(cname_, {}))
                if ev_[0] is not None:
                    rep.add("SIBLING", repo.method(ci_, "update"), f"{cname_}: update() over several batches + compute() against forward() on the concatenated data (thorough tier)", OK if ev_[0] else VIOLATION, ev_[1])
        ci_ = repo.cls(BLER, "BlockErrorRate")
        for m_ in ("forward", "update"):
            ev_ = blocks_evaluated(repo, ci_, m_)
            if ev_[0] is not None:
                rep.add("BLOCKS", repo.method(ci_, m_), f"{m_}: block error rate evaluated on discriminating error patterns (thorough tier)", OK if ev_[0] else VIOLATION, ev_[1])
    n = rule_count_dtype(repo, rep)
    n += rule_update_atomic(repo, rep)
    n += analyse_metric(repo, rep, BER, "BitErrorRate", {})
    n += analyse_metric(repo, rep, BLER, "BlockErrorRate", {"self.reduction == 'none'": False, "self.reduction == 'sum'": False})
    n += rule_blocks(repo, rep)
    n += rule_aliases(repo, rep)
    n += rule_benchmark(repo, rep)
    rep.floor("C16 rule instances", n, 35)
    rep.decided_clauses += [
        "accumulators are integer counters advanced only by += of per-batch quantities (partition/order independence)",
        "reset zeroes exactly the accumulators; compute = errors / max(total, 1); forward is stateless",
        "per-batch count and total of update() equal those of forward() (real and complex forms); error predicate symmetric",
        "blocks: shared reshape helper, divisibility error, any() over the block axis; SER/FER aliases; benchmark helpers' closed forms",
    ]
    rep.undecided_clauses += ["floating-point rounding of the final division", "BER <= BLER <= min(1, B*BER) as a numerical inequality"]
