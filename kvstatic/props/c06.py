"""C06 - demodulators decide for the nearest point and emit correctly signed, scaled LLRs."""
from __future__ import annotations

import ast
from fractions import Fraction
from typing import Dict, List, Optional, Set

from ..astutil import attr_chain, call_name, stmts_of, walk_no_nested
from ..core import OK, UNDECIDED, VIOLATION, AnalysisError, ClassInfo, FuncInfo, Repo, Report, unparse
from ..degree import CONST as DCONST
from ..degree import DV, Degree
from ..polarity import C, CONST, D, I, M, T, PV, Polarity, is_top, mk
from ..speciallint import lint_value_keyed
from .c15 import HARD_ATOMS, MOD_ATTRS, SOFT_ATOMS, decide_producer, make_config, modulator_amplitude_polarity, registered, run_forward, tv_eval

EXPLANATION = (
    "For every registered demodulator. LLR-SIGN: the polarity abstract interpretation of C15 on the soft branch (LLR decreasing in the distance to the bit-0 subset, increasing "
    "in the distance to the bit-1 subset; reductions must select the nearest point). LLR-SCALE: a homogeneity-degree interpreter derives how the soft output scales: degree -1 in "
    "the noise variance (scalar or per-symbol) for every scheme, and degree 2 in distance for the subset-distance schemes (squared Euclidean distance). HARD-NEAREST: every "
    "argmin/argmax site of the hard branch is interpreted: it must be the argmin of a quantity increasing in the distance to the whole constellation (monotone transforms such as "
    "abs vs abs^2 are accepted; circular phase distance for DPSK), closed-form sign decisions must have the polarity that matches the modulator's amplitude map. HARD-SOFT: the hard "
    "and the soft branch read the same constellation and the same bit-label table of the same reference modulator. METRIC-PURE: no device-, order- or value-keyed perturbation of "
    "the decision metric (special-case lint). The numerical max-log value and tie behaviour are not decided."
)

SKIP = {"IdentityDemodulator"}

DEG_ATTRS = {
    "self.modulator.constellation": DV({"d": Fraction(1)}),
    "self.modulator.levels": DV({"d": Fraction(1)}),
    "self.modulator.qpsk": DV({"d": Fraction(1)}),
    "self.modulator.qpsk_rotated": DV({"d": Fraction(1)}),
    "self._normalization": DV({"d": Fraction(1)}),
}


def cfg(atoms):
    return lambda test, env: tv_eval(test, atoms)


def branch_attr_reads(fi: FuncInfo, ci: ClassInfo, atoms: Dict[str, bool], repo: Repo) -> Set[str]:
    """self.modulator.* chains read on the branch selected by `atoms` (helpers of the class included)."""
    out: Set[str] = set()
    seen = set()

    def visit_body(body, cls):
        for st in body:
            if isinstance(st, ast.If):
                d = tv_eval(st.test, atoms)
                collect(st.test, cls)
                if d is not False:
                    visit_body(st.body, cls)
                if d is not True:
                    visit_body(st.orelse, cls)
            elif isinstance(st, (ast.For, ast.While)):
                collect(st.iter if isinstance(st, ast.For) else st.test, cls)
                visit_body(st.body, cls)
                visit_body(st.orelse, cls)
            elif isinstance(st, (ast.With, ast.Try)):
                visit_body(getattr(st, "body", []), cls)
            else:
                collect(st, cls)

    def collect(node, cls):
        for n in ast.walk(node):
            if isinstance(n, ast.Attribute):
                ch = attr_chain(n)
                if ch and ch.startswith("self.modulator.") and ch.count(".") == 2:
                    out.add(ch)
            if isinstance(n, ast.Call):
                nm = call_name(n) or ""
                if nm.startswith("self.") and nm.count(".") == 1:
                    m = cls.find_method(nm.split(".")[1])
                    if m is not None and m.qualname not in seen:
                        seen.add(m.qualname)
                        visit_body(m.body, cls)

    visit_body(fi.body, ci)
    return out


def _canonical_sets(cname: str):
    """The constellations of the scheme by definition (label order is irrelevant for a ranking comparison)."""
    import cmath
    import math

    def psk(M, off=0.0):
        return [cmath.exp(1j * (2 * math.pi * k / M + off)) for k in range(M)]

    def grid(k):
        lv = [complex(2 * i - (k - 1)) for i in range(k)]
        return [complex(a.real, b.real) for a in lv for b in lv]

    if cname == "Pi4QPSKDemodulator":
        return [psk(4, math.pi / 4), psk(4, 0.0)]
    if cname in ("PSKDemodulator", "DPSKDemodulator", "DBPSKDemodulator", "DQPSKDemodulator"):
        return [psk(4), psk(8), psk(8, math.pi / 8), psk(16)]
    if cname == "QPSKDemodulator":
        return [psk(4, math.pi / 4)]
    if cname == "QAMDemodulator":
        return [grid(2), grid(4), grid(8)]
    if cname == "PAMDemodulator":
        return [[complex(2 * i - (k - 1)) for i in range(k)] for k in (2, 4, 8)]
    return None


def metric_ranking_verdict(ci: ClassInfo, fi: FuncInfo, node: ast.AST, which: str):
    """Numeric fallback for a decision metric the polarity engine does not recognise: the metric expression (local names
    inlined) is evaluated with the checker's own arithmetic for received points on a grid, first against a generic
    irregular constellation (agreement with the Euclidean ranking there means a monotone transform of the distance), then
    against the scheme's constellations by definition (a separable metric is exact on a product grid).  A point where the
    selected index is not a Euclidean-nearest point is the witness of a violation."""
    from ..constfold import Folder, Unfoldable

    arg = node.args[0] if isinstance(node, ast.Call) and node.args else None
    if arg is None and isinstance(node, ast.Call) and isinstance(node.func, ast.Attribute):
        arg = node.func.value
    if arg is None:
        return UNDECIDED, "argument of the selection not found"
    defs: Dict[str, List[ast.AST]] = {}
    for st in ast.walk(fi.node):
        if isinstance(st, ast.Assign) and len(st.targets) == 1 and isinstance(st.targets[0], ast.Name):
            defs.setdefault(st.targets[0].id, []).append(st.value)
    params = [p for p in fi.params if p != "self"]
    recv = params[0] if params else "y"
    CONS = {"constellation", "qpsk", "qpsk_rotated", "points", "const", "ref_points"}

    def variants(e: ast.AST, depth=0) -> List[ast.AST]:
        """all inlinings of local names (one per reaching definition), bounded"""
        names = [x for x in ast.walk(e) if isinstance(x, ast.Name) and x.id in defs and x.id != recv and x.id not in CONS]
        if not names or depth > 6:
            return [e]
        nm = names[0].id
        out = []
        for d in defs[nm][:3]:
            if any(isinstance(x, ast.Name) and x.id == nm for x in ast.walk(d)):
                continue

            class Sub(ast.NodeTransformer):
                def visit_Name(self, n_):
                    return ast.copy_location(ast.parse(unparse(d), mode="eval").body, n_) if n_.id == nm else n_

            out += variants(Sub().visit(ast.parse(unparse(e), mode="eval").body), depth + 1)
        return out[:8] or [e]

    class F(Folder):
        def fold(self, n_):
            # anything rooted at the received tensor is the received point
            b = n_
            while isinstance(b, (ast.Subscript, ast.Attribute, ast.Call)):
                if isinstance(b, ast.Attribute) and b.attr in ("real", "imag"):
                    break
                if isinstance(b, ast.Call):
                    if isinstance(b.func, ast.Attribute) and b.func.attr in ("unsqueeze", "squeeze", "reshape", "view", "to", "clone", "contiguous") and not (call_name(b) or "").startswith("torch."):
                        b = b.func.value
                        continue
                    break
                b = b.value
            if isinstance(b, ast.Name) and b.id == recv and b is not n_ or (isinstance(n_, ast.Name) and n_.id == recv):
                return self.names[recv]
            if isinstance(n_, ast.Call) and isinstance(n_.func, ast.Attribute) and n_.func.attr in ("expand", "expand_as", "unsqueeze", "view", "reshape", "to", "contiguous") and not (call_name(n_) or "").startswith("torch."):
                return self.fold(n_.func.value)  # shape bookkeeping: the values are flattened below
            if isinstance(n_, ast.Attribute) and attr_chain(n_) in ("self.constellation", "self.modulator.constellation", "self.modulator.qpsk", "self.modulator.qpsk_rotated"):
                return self.names["constellation"]
            return super().fold(n_)

    exprs = variants(arg)
    grid_pts = [complex(a * 0.37 - 2.6, b * 0.41 - 2.7) for a in range(15) for b in range(14)]
    generic = [complex(0.9, 0.2), complex(-0.4, 1.3), complex(-1.1, -0.6), complex(0.3, -1.2), complex(1.7, 1.1), complex(-1.9, 0.8), complex(0.1, 0.15)]

    def compare(cons):
        for z in grid_pts:
            d2 = [abs(z - c) for c in cons]
            best = min(d2)
            if sorted(d2)[1] - best < 1e-6:
                continue
            for e in exprs:
                names = {recv: z, "constellation": cons}
                for k in CONS:
                    names[k] = cons
                v = F(names).fold(e)
                flat = []

                def fl(t):
                    if isinstance(t, list):
                        for u in t:
                            fl(u)
                    else:
                        flat.append(t)

                fl(v)
                if len(flat) != len(cons) or any(isinstance(t, complex) for t in flat):
                    raise Unfoldable("metric does not give one real value per constellation point")
                pick = flat.index(min(flat) if which == "argmin" else max(flat))
                if d2[pick] - best > 1e-9:
                    return z, cons[pick], cons[d2.index(best)], e
        return None

    try:
        if compare(generic) is None:
            return OK, "unlisted metric; its ranking equals the Euclidean ranking on a generic irregular constellation (monotone transform of the distance)"
        sets = _canonical_sets(ci.name)
        if sets is None:
            return UNDECIDED, "the metric is not a monotone transform of the Euclidean distance and the scheme's constellation is not tabulated"
        for cons in sets:
            w = compare(cons)
            if w is not None:
                z, got, want, e = w
                return VIOLATION, f"metric `{unparse(e)[:80]}` is not the Euclidean distance: for the received point {z:.3f} it selects {got:.3f} although {want:.3f} is nearer (constellation of {len(cons)} points)"
        return OK, f"unlisted metric; not a monotone transform of the distance in general, but its ranking equals the Euclidean one on the scheme's {len(sets)} constellation(s)"
    except (Unfoldable, TypeError, ValueError, IndexError, SyntaxError) as exc:
        return UNDECIDED, f"metric not evaluable ({exc})"


def run(repo: Repo, rep: Report, tier: str) -> None:
    if tier == "thorough":
        from .c15 import tabulate_demodulators

        tabulate_demodulators(repo, rep, "HARD-NEAREST", "hard")
        tabulate_demodulators(repo, rep, "LLR-SIGN", "soft")
    demods = [c for c in registered(repo, "register_demodulator") if c.name not in SKIP]
    n_soft = n_hard = n_scale = 0
    for ci in demods:
        fi = ci.find_method("forward")
        if fi is None or fi.cls is not ci:
            continue
        repo.consulted.add(fi.file)
        # ---------------- LLR-SIGN (shared with C15)
        interp = run_forward(repo, ci, fi, SOFT_ATOMS)
        rets = [(v, r) for (v, r, _e) in interp.returns if v is not None]
        before = len(rep.obligations)
        for v, r in rets:
            decide_producer(repo, rep, ci, fi, v, r, interp)
        for o in rep.obligations[before:]:
            o.rule = "LLR-SIGN"
        n_soft += len(rets)
        uses_sets = any(("D0" in v.seeds or "D1" in v.seeds) for v, _ in rets)

        # ---------------- LLR-SCALE
        params = [p for p in fi.params if p != "self"]
        deg_atoms = dict(SOFT_ATOMS)
        deg_atoms["levels.numel() == 0"] = False

        def degrees(track_distance: bool):
            attrs = DEG_ATTRS if track_distance else {}
            dg = Degree(fi, repo, cls=ci, config=cfg(deg_atoms), attr_values=attrs)
            env = {p: DCONST for p in params}
            if track_distance:
                env[params[0]] = DV({"d": Fraction(1)})
            else:
                env["noise_var"] = DV({"nv": Fraction(1)})
            dg.run(env)
            return [(v, r) for (v, r, _) in dg.returns if v is not None], dg

        nv_rets, dg1 = degrees(False)
        d_rets, dg2 = degrees(True)
        dmap = {id(r): v for v, r in d_rets}
        for v, r in nv_rets:
            n_scale += 1
            dv = dmap.get(id(r))
            construct = f"soft output scaling: {unparse(r)} ~ noise variance {v.show()}, distance {dv.show() if dv is not None else '?'}"
            # sums of unlike terms, and alternatives selected by the *input* (layout / shape conditions: every arm is reachable
            # within the property's inputs); alternatives selected by a mode parameter the configuration should fix are not
            added = [m_ for m_ in dg1.mixed if "combines" in m_ or ("alternative paths of `if " in m_ and not any(k in m_ for k in ("noise_var is", "soft_output", "hard", "soft", "self.training", "mode")))]
            if v.d is None and added:
                rep.violation("LLR-SCALE", fi, construct, "terms that scale differently with the noise variance are added: the LLR is not proportional to 1/noise_var: " + added[0], node=r)
                continue
            if v.d is None and dg1.mixed:
                # alternatives of a branch this configuration does not decide: which one runs is unknown, so no verdict
                rep.undecided("LLR-SCALE", fi, construct, "control-flow alternatives scale differently with the noise variance and the branch condition is not decided: " + dg1.mixed[0], node=r)
                continue
            if v.d is None and dg1.softmin:
                rep.violation("LLR-SCALE", fi, construct, "the per-subset metric is a soft minimum over the candidate points of distance / noise_var: " + dg1.softmin[0] + " - that is the exact log-MAP value, not the max-log LLR: noise_var * LLR depends on the noise variance (the soft minimum equals the hard one only for a single candidate), so the output is not a fixed multiple of (min d1 - min d0) / noise_var", trace=dg1.softmin[:3], node=r)
                continue
            if v.d is None:
                rep.undecided("LLR-SCALE", fi, construct, "degree in the noise variance not derived", trace=dg1.notes[:4], node=r)
                continue
            nv = v.d.get("nv", Fraction(0))
            if nv != -1:
                rep.violation("LLR-SCALE", fi, construct, f"the LLR has degree {nv} in the noise variance; it must scale as 1/noise_var", node=r)
            elif uses_sets and dv is not None and dv.d is not None and dv.d.get("d", Fraction(0)) != 2:
                rep.violation("LLR-SCALE", fi, construct, f"the LLR has degree {dv.d.get('d', Fraction(0))} in distance; the max-log LLR is a difference of SQUARED Euclidean distances (degree 2)", node=r)
            else:
                dist_note = ", degree 2 in distance" if (uses_sets and dv is not None and dv.d is not None) else (" (distance degree not derivable: normalised decision variable)" if uses_sets else "")
                rep.ok("LLR-SCALE", fi, construct, "degree -1 in the noise variance" + dist_note, node=r)

        # ---------------- grid slicers: an index computed by rounding must be limited at BOTH ends
        for meth in ci.methods.values():
            idx_names = {}
            for st_ in ast.walk(meth.node):
                if isinstance(st_, ast.Assign) and isinstance(st_.targets[0], ast.Name):
                    txt_ = unparse(st_.value)
                    if any(k in txt_ for k in ("torch.round(", ".round()", "torch.floor(", "torch.div(")) and (".long()" in txt_ or ".int()" in txt_ or "torch.long" in txt_):
                        idx_names[st_.targets[0].id] = st_
            for nm_, def_ in idx_names.items():
                used_as_index = any(isinstance(x_, ast.Subscript) and isinstance(x_.ctx, ast.Load) and any(isinstance(y_, ast.Name) and y_.id == nm_ for y_ in ast.walk(x_.slice)) for x_ in ast.walk(meth.node))
                if not used_as_index:
                    continue
                lo = hi_ = False
                for st_ in ast.walk(meth.node):
                    if isinstance(st_, ast.Assign) and isinstance(st_.targets[0], ast.Name) and st_.targets[0].id == nm_ and isinstance(st_.value, ast.Call):
                        cn_ = (call_name(st_.value) or "").split(".")[-1] if call_name(st_.value) else (st_.value.func.attr if isinstance(st_.value.func, ast.Attribute) else "")
                        if isinstance(st_.value.func, ast.Attribute):
                            cn_ = st_.value.func.attr
                        kws = {k.arg for k in st_.value.keywords}
                        nargs = len(st_.value.args) - (1 if (call_name(st_.value) or "").startswith("torch.") else 0)
                        if cn_ in ("clamp", "clip"):
                            lo = lo or "min" in kws or nargs >= 1
                            hi_ = hi_ or "max" in kws or nargs >= 2
                        if cn_ in ("clamp_min",):
                            lo = True
                        if cn_ in ("clamp_max",):
                            hi_ = True
                if lo != hi_:
                    rep.violation("HARD-NEAREST", meth, f"{ci.name}: `{nm_}` = {unparse(def_.value)[:70]} used as a table index", f"the rounded grid index is limited only at its {'lower' if lo else 'upper'} end: a received value beyond the other end of the constellation gives an index outside the table that wraps around (negative index) or raises, instead of deciding for the outermost point", node=def_)
                elif not lo and not hi_:
                    rep.undecided("HARD-NEAREST", meth, f"{ci.name}: `{nm_}` = {unparse(def_.value)[:70]} used as a table index", "a grid slicer without range limitation is not recognised as a nearest-point search", node=def_)
                else:
                    rep.undecided("HARD-NEAREST", meth, f"{ci.name}: `{nm_}` = {unparse(def_.value)[:70]} used as a table index", "grid slicers are not verified as nearest-point searches by this checker", node=def_)
        # ---------------- HARD-NEAREST
        hi = run_forward(repo, ci, fi, HARD_ATOMS)
        hrets = [(v, r) for (v, r, _e) in hi.returns if v is not None]
        sites = hi.arg_sites
        seen_nodes = set()
        for node, which, tv in sites:
            if id(node) in seen_nodes:
                continue
            seen_nodes.add(id(node))
            n_hard += 1
            construct = f"hard decision: {unparse(node)}"
            if tv.kind and tv.kind[0] == "elem":
                lab = tv.kind[1]
                pe = tv.p("E" + lab)
                good = (which == "argmin" and pe == I) or (which == "argmax" and pe == D)
                if lab != "A":
                    rep.violation("HARD-NEAREST", fi, construct, f"the decision searches only the bit-{lab} subset, not the whole constellation", node=node)
                elif good:
                    rep.ok("HARD-NEAREST", fi, construct, "index of a constellation point at minimum distance (monotone transform of the Euclidean / circular distance)", node=node)
                else:
                    rep.violation("HARD-NEAREST", fi, construct, f"`{which}` of a metric that is {pe} in the distance selects the farthest point", node=node)
            elif is_top(tv) or not tv.is_const:
                st_, why_ = metric_ranking_verdict(ci, fi, node, which)
                if st_ == UNDECIDED:
                    rep.undecided("HARD-NEAREST", fi, construct, f"the metric is not recognised as a distance to the constellation ({tv.show()}); {why_}", trace=hi.unknown_ops[:5], node=node)
                else:
                    rep.add("HARD-NEAREST", fi, construct, st_, why_, node=node)
            else:
                # the polarity domain lost the dependence (an operation it reads as constant): the ranking is decided by evaluation
                st_, why_ = metric_ranking_verdict(ci, fi, node, which)
                if st_ == UNDECIDED:
                    rep.undecided("HARD-NEAREST", fi, construct, f"the metric does not depend on the received value ({tv.show()}); {why_}", node=node)
                else:
                    rep.add("HARD-NEAREST", fi, construct, st_, why_, node=node)
        if not sites:
            # closed-form sign decisions (BPSK, OQPSK)
            amp = modulator_amplitude_polarity(repo, ci)
            for v, r in hrets:
                n_hard += 1
                py = v.p("y")
                construct = f"hard decision: {unparse(r)}"
                if is_top(v) or py in (T,):
                    rep.undecided("HARD-NEAREST", fi, construct, "polarity of the sign decision not derived", trace=hi.unknown_ops[:5], node=r)
                elif amp in (I, D) and py == amp:
                    rep.ok("HARD-NEAREST", fi, construct, f"decided bit is {py} in the received amplitude, the modulator's amplitude is {amp} in the bit: nearest of the two antipodal points", node=r)
                elif amp in (I, D) and py in (I, D, M):
                    rep.violation("HARD-NEAREST", fi, construct, f"decided bit is {py} in the received amplitude but the modulator's amplitude is {amp} in the bit: the decision is the complement of the nearest point's label", node=r)
                else:
                    from .c15 import hard_nearest_tabulated

                    st_, d_ = hard_nearest_tabulated(repo, ci, fi)
                    if st_ is None:
                        rep.undecided("HARD-NEAREST", fi, construct, f"modulator polarity {amp}, decision polarity {py}; tabulation: {d_}", node=r)
                    else:
                        rep.add("HARD-NEAREST", fi, construct, st_, d_, node=r)

        # ---------------- HARD-SOFT agreement
        soft_reads = branch_attr_reads(fi, ci, SOFT_ATOMS, repo)
        hard_reads = branch_attr_reads(fi, ci, HARD_ATOMS, repo)
        if soft_reads or hard_reads:
            lab_s = {a for a in soft_reads if a.endswith("bit_patterns")}
            lab_h = {a for a in hard_reads if a.endswith("bit_patterns")}
            pts_s = soft_reads - lab_s
            pts_h = hard_reads - lab_h
            ok = lab_s == lab_h and pts_s == pts_h and bool(lab_s) and bool(pts_s)
            rep.check(ok, "HARD-SOFT", fi, f"hard reads {sorted(hard_reads)}; soft reads {sorted(soft_reads)}", "both branches use the same constellation and label table of the reference modulator", "the hard and the soft branch do not read the same constellation / label table: sign(LLR) can disagree with the hard decision", node=fi.node)

        # ---------------- METRIC-PURE
        lint_value_keyed(rep, fi, rule="METRIC-PURE", allowed_literals={0, 1, -1, 2}, also_device=True)
        for mname, m in ci.methods.items():
            if mname not in ("forward", "__init__") and not mname.startswith("plot"):
                lint_value_keyed(rep, m, rule="METRIC-PURE", allowed_literals={0, 1, -1, 2}, also_device=True)
    # the decision / LLR of a call depends only on that call's arguments and the demodulator's configuration:
    # memoised constellation subsets must be keyed by everything that determines them, and the noise variance
    # (or the received symbols) handed in by the caller is never modified in place
    from .c05 import rule_alias_option
    from .c20 import rule_cache_key, rule_purity

    rule_alias_option(repo, rep, rule="HARD-SOFT")

    rule_cache_key(repo, rep, demods)
    rule_purity(repo, rep, demods)
    # ---------------- NV-ALIGN: a per-symbol noise variance expanded to one entry per LLR must follow the symbol-major
    # LLR layout (LLR j belongs to symbol j // bits_per_symbol)
    n_align = 0
    for ci in demods:
        for meth in ci.methods.values():
            if "noise_var" not in meth.params:
                continue
            tainted = {"noise_var"}
            changed = True
            assigns = [s_ for s_ in ast.walk(meth.node) if isinstance(s_, ast.Assign)]
            while changed:
                changed = False
                for s_ in assigns:
                    if any(isinstance(x, ast.Name) and x.id in tainted for x in ast.walk(s_.value)):
                        for t in s_.targets:
                            if isinstance(t, ast.Name) and t.id not in tainted:
                                tainted.add(t.id)
                                changed = True
            for c in ast.walk(meth.node):
                if not isinstance(c, ast.Call):
                    continue
                short = (call_name(c) or "").split(".")[-1]
                if short not in ("repeat", "tile", "repeat_interleave"):
                    continue
                recv_ = c.args[0] if (call_name(c) or "").startswith("torch.") and c.args else (c.func.value if isinstance(c.func, ast.Attribute) else None)
                if recv_ is None or not any(isinstance(x, ast.Name) and x.id in tainted for x in ast.walk(recv_)):
                    continue
                n_align += 1
                factors = [a for a in (c.args[1:] if (call_name(c) or "").startswith("torch.") else c.args)]
                last = factors[-1] if factors else None
                if short == "repeat_interleave":
                    rep.ok("NV-ALIGN", meth, f"{ci.name}: {unparse(c)[:90]}", "each symbol's variance is repeated for its own bits (symbol-major, like the LLRs)", node=c)
                elif isinstance(last, ast.Constant) and last.value == 1:
                    rep.ok("NV-ALIGN", meth, f"{ci.name}: {unparse(c)[:90]}", "no tiling along the symbol axis", node=c, nontrivial=False)
                else:
                    rep.violation("NV-ALIGN", meth, f"{ci.name}: {unparse(c)[:90]}", "tiling the per-symbol noise variance along the last axis orders it n0 n1 ... n0 n1 ..., while the LLRs are stored symbol by symbol (n0 n0 ... n1 n1 ...): LLR j is scaled by the variance of symbol j mod N instead of j // bits_per_symbol (use repeat_interleave)", node=c)
    rep.ok("NV-ALIGN", "kaira::demodulators", "expansions of a per-symbol noise variance to the LLR layout", f"{n_align} site(s) examined", nontrivial=False)
    rep.floor("soft returns decided", n_soft, 9)
    rep.floor("soft scaling laws", n_scale, 9)
    rep.floor("hard decision sites", n_hard, 9)
    rep.decided_clauses += [
        "LLR sign: decreasing in dist to bit-0 subset, increasing in dist to bit-1 subset, nearest-point reductions",
        "LLR scale: degree -1 in the noise variance; degree 2 in distance for subset-distance schemes",
        "hard decision = argmin of a monotone distance to the whole constellation (or the matching sign decision)",
        "hard and soft branches share constellation and label table; no device/value-keyed perturbation of the metric",
    ]
    rep.undecided_clauses += ["numerical max-log value and the constant factor", "tie behaviour"]
