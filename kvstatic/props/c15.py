"""C15 - one LLR polarity everywhere (positive = bit 0): whole-repository convention check.

Producers: every registered soft demodulator's LLR must be DEC in the distance to the
0-labelled points and INC in the distance to the 1-labelled points (closed-form schemes:
INC in the amplitude whose positive side carries bit 0).  Consumers: every LLR-to-bit decision
must be DEC in the LLR.  Decided by the polarity abstract interpreter (engine B).
"""
from __future__ import annotations

import ast
from typing import Dict, List, Optional, Tuple

from ..astutil import attr_chain, call_name, const_value, set_parents, stmts_of, walk_no_nested, ancestors
from ..core import OK, UNDECIDED, VIOLATION, AnalysisError, ClassInfo, FuncInfo, Repo, Report, unparse
from ..polarity import C, CONST, D, I, M, T, TOP_ALL, PV, Polarity, is_top, mk

EXPLANATION = (
    "Polarity dataflow (abstract interpretation over {const, increasing, decreasing, unknown} per seed, with signs and constellation-idiom tags) "
    "on /repo's source. PRODUCERS: for every class registered with ModulationRegistry.register_demodulator the soft branch of forward() "
    "(configuration: noise_var given) is interpreted, helper methods are analysed in context; the returned LLR must be decreasing in the minimum "
    "distance to the points whose label bit is 0 and increasing in the distance to the points labelled 1 (subsets recognised from "
    "`bit_patterns[:, b] == 0/1` masks); closed-form schemes (BPSK, OQPSK) must be increasing in the received amplitude while their modulator maps "
    "bit 0 to the positive amplitude. CONSUMERS: the LLR-mode path of every thresholder, sign_to_bin, llr_to_bits and every sign-decision site of the "
    "soft decoders must be decreasing in the LLR. The rule abstracts the input away, so it holds for every input at once; it decides the polarity "
    "convention, not numerical LLR values."
)

MOD_DIR = "kaira/modulations"
THR = "kaira/models/binary/soft_bit_thresholding.py"
FECU = "kaira/models/fec/utils.py"


# ---------------------------------------------------------------------------
# configuration: three-valued evaluation of branch tests
# ---------------------------------------------------------------------------

def tv_eval(node: ast.AST, atoms: Dict[str, Optional[bool]]) -> Optional[bool]:
    txt = unparse(node)
    if txt in atoms:
        return atoms[txt]
    if isinstance(node, ast.BoolOp):
        vals = [tv_eval(v, atoms) for v in node.values]
        if isinstance(node.op, ast.And):
            if any(v is False for v in vals):
                return False
            return True if all(v is True for v in vals) else None
        if any(v is True for v in vals):
            return True
        return False if all(v is False for v in vals) else None
    if isinstance(node, ast.UnaryOp) and isinstance(node.op, ast.Not):
        v = tv_eval(node.operand, atoms)
        return None if v is None else (not v)
    if isinstance(node, ast.Compare) and len(node.ops) == 1 and isinstance(node.ops[0], (ast.Is, ast.IsNot)) and isinstance(node.comparators[0], ast.Attribute) and isinstance(node.comparators[0].value, ast.Name) and node.comparators[0].attr.isupper():
        # identity against an Enum member selects the branch of the equality test for Enum-typed values (whether the stored
        # value can be a plain string instead is the MODE-TEST rule's question, not the polarity's)
        eq = ast.Compare(left=node.left, ops=[ast.Eq() if isinstance(node.ops[0], ast.Is) else ast.NotEq()], comparators=node.comparators)
        return tv_eval(eq, atoms)
    if isinstance(node, ast.Compare) and len(node.ops) == 1:
        # the complementary spelling of a configured atom: `a is None` <-> `a is not None`, == <-> !=, < <-> >=, > <-> <=
        comp = {ast.Is: ast.IsNot, ast.IsNot: ast.Is, ast.Eq: ast.NotEq, ast.NotEq: ast.Eq, ast.Lt: ast.GtE, ast.GtE: ast.Lt, ast.Gt: ast.LtE, ast.LtE: ast.Gt, ast.In: ast.NotIn, ast.NotIn: ast.In}.get(type(node.ops[0]))
        if comp is not None:
            other = unparse(ast.Compare(left=node.left, ops=[comp()], comparators=node.comparators))
            if other in atoms and atoms[other] is not None:
                return not atoms[other]
    return None


def make_config(atoms: Dict[str, Optional[bool]]):
    def cfg(txt, node, env, interp):
        return tv_eval(node, atoms)

    return cfg


SOFT_ATOMS = {"noise_var is None": False, "noise_var is not None": True}
HARD_ATOMS = {"noise_var is None": True, "noise_var is not None": False, "self.soft_output": False}
LLR_ATOMS = {
    "self.input_type == InputType.LLR": True,
    "self.input_type == InputType.PROBABILITY": False,
    "input_type == InputType.LLR": True,
    "input_type == InputType.PROBABILITY": False,
    "self.input_type != InputType.LLR": False,
    "reset_state": False,
    "reset": False,
}

MOD_ATTRS = {
    "self.modulator.bit_patterns": mk(kind=("labels",)),
    "self.modulator.constellation": mk(kind=("constellation",)),
    "self.modulator.levels": mk(kind=("constellation",)),
    "self.modulator.qpsk": mk(kind=("constellation",)),
    "self.modulator.qpsk_rotated": mk(kind=("constellation",)),
    "self.bit_patterns": mk(kind=("labels",)),
    "self.constellation": mk(kind=("constellation",)),
}


def registered(repo: Repo, marker: str) -> List[ClassInfo]:
    out = []
    for mi in repo.modules.values():
        if not mi.relpath.startswith(MOD_DIR + "/"):
            continue
        for ci in mi.classes.values():
            if any(marker in d for d in ci.decorators()):
                out.append(ci)
                repo.consulted.add(mi.relpath)
    return sorted(out, key=lambda c: (c.file, c.node.lineno))


def run_forward(repo: Repo, ci: ClassInfo, fi: FuncInfo, atoms, seed_param: Optional[str] = None, extra_env=None, positives=()) -> Polarity:
    interp = Polarity(fi, repo, cls=ci, config=make_config(atoms), positives=positives, attr_values=MOD_ATTRS)
    env = {}
    params = [p for p in fi.params if p not in ("self", "cls")]
    for p in params:
        if p in interp.positives:
            env[p] = mk(sign="pos")
        else:
            env[p] = CONST
    if seed_param is None and params:
        seed_param = params[0]
    if seed_param:
        env[seed_param] = mk({"y": I}, kind=("received",))
    env.update(extra_env or {})
    interp.run(env)
    return interp


def producers(repo: Repo, rep: Report) -> int:
    demods = registered(repo, "register_demodulator")
    n_dec = 0
    for ci in demods:
        fi = ci.find_method("forward")
        if fi is None:
            raise AnalysisError(f"{ci.name} has no forward")
        repo.consulted.add(fi.file)
        if ci.name == "IdentityDemodulator":
            rep.ok("POLARITY-PRODUCER", fi, "identity demodulator passes its input through", nontrivial=False)
            continue
        # inherited forward: report once per defining class
        if fi.cls is not ci:
            rep.ok("POLARITY-PRODUCER", f"{ci.file}::{ci.name}", f"inherits forward of {fi.cls.name}", nontrivial=False)
            continue
        interp = run_forward(repo, ci, fi, SOFT_ATOMS)
        rets = [(v, r) for (v, r, _e) in interp.returns if v is not None]
        if not rets:
            rep.undecided("POLARITY-PRODUCER", fi, "soft branch", "no return reached under `noise_var is not None`")
            continue
        for v, r in rets:
            n_dec += decide_producer(repo, rep, ci, fi, v, r, interp)
    return n_dec


def modulator_amplitude_polarity(repo: Repo, ci_demod: ClassInfo) -> Optional[str]:
    """Polarity of the transmitted amplitude in the bit for the modulator paired with a closed-form demodulator."""
    mname = ci_demod.name.replace("Demodulator", "Modulator")
    mi = ci_demod.module
    mc = mi.classes.get(mname)
    if mc is None:
        return None
    fi = mc.find_method("forward")
    if fi is None:
        return None
    interp = Polarity(fi, repo, cls=mc, positives=(), attr_values=MOD_ATTRS)
    params = [p for p in fi.params if p not in ("self", "cls")]
    env = {p: CONST for p in params}
    env[params[0]] = mk({"bit": I}, sign="nonneg")
    interp.run(env)
    out = None
    for v, r, _ in interp.returns:
        if v is None:
            continue
        p = v.p("bit")
        if is_top(v):
            p = T
        out = p if out is None else (out if out == p else T)
    return out


_SOFT_TAB_CACHE: Dict[tuple, tuple] = {}


def _other_buffers(cc: FuncInfo, env: dict, attrs: dict) -> None:
    """every other buffer the modulator's table constructor registers (label maps ...) is made available to the demodulator
    under self.modulator.<name>, evaluated in the constructor's final environment"""
    from ..constfold import Folder, Unfoldable

    for c_ in ast.walk(cc.node):
        if isinstance(c_, ast.Call) and attr_chain(c_.func) == "self.register_buffer" and len(c_.args) >= 2 and isinstance(c_.args[0], ast.Constant) and isinstance(c_.args[0].value, str):
            nm_ = c_.args[0].value
            if f"self.modulator.{nm_}" in attrs:
                continue
            try:
                val_ = Folder(dict(env), {}).fold(c_.args[1])
            except (Unfoldable, TypeError, ValueError):
                continue
            if isinstance(val_, (list, int, float, complex)):
                attrs[f"self.modulator.{nm_}"] = val_
                attrs.setdefault(f"self.{nm_}", val_)



def soft_sign_tabulated(repo: Repo, ci: ClassInfo, fi: FuncInfo):
    """Finite tabulation for a table-driven soft demodulator whose polarity the abstract domain cannot decide: the paired
    modulator's constructor is evaluated (own arithmetic) for its small orders and both labelings, then the soft branch of
    `forward` at every constellation point (noise-free): the LLR of bit j at point i must be positive iff label bit j of
    point i is 0.  Returns (OK | VIOLATION, detail) or (None, reason)."""
    key = (ci.file, ci.name)
    _cache = repo.__dict__.setdefault("_kv_soft_tab_cache", {})  # on the repository object: a path or id() may be reused by another tree
    if key in _cache:
        return _cache[key]
    from ..constfold import PySeq, Unfoldable
    from ..frag import FragRaise, FragReturn, run_fragment

    def done(st, d):
        _cache[key] = (st, d)
        return st, d

    mc = ci.module.classes.get(ci.name.replace("Demodulator", "Modulator"))
    cc = mc.find_method("_create_constellation") if mc is not None else None
    if cc is None and mc is not None and mc.find_method("_create_constellations") is not None and ci.name == "Pi4QPSKDemodulator":
        return done(*pi4_soft_tabulated(repo, ci, fi, mc))
    if cc is None:
        return done(None, "no paired modulator with a table constructor")
    funcs_m = {nm: f_.node for nm, f_ in ci.module.functions.items()}
    for mi_ in repo.modules.values():
        if mi_.relpath == "kaira/modulations/utils.py":
            funcs_m.update({nm: f_.node for nm, f_ in mi_.functions.items()})
    funcs_d = dict(funcs_m)
    funcs_d.update({f"self.{nm}": f_.node for nm, f_ in ci.methods.items() if nm not in ("forward", "__init__")})
    square = "QAM" in ci.name
    orders = (4, 16, 64) if square else (2, 4, 8, 16)
    count = 0
    for gray in (True, False):
        for M_ in orders:
            b = M_.bit_length() - 1
            mat = {"self.order": M_, "self._bits_per_symbol": b, "self.bits_per_symbol": b, "self.gray_coding": gray, "self.normalize": False}
            if square:
                mat["self._k"] = int(round(M_ ** 0.5))
            try:
                env = run_fragment(cc.body, {}, mat, max_steps=900000, materialise=True, funcs=funcs_m)
            except (Unfoldable, FragRaise, FragReturn, TypeError, ValueError, IndexError) as exc:
                return done(None, f"modulator tables for order {M_} not evaluable ({exc})")
            pts, bp, lv = env.get("constellation"), env.get("bit_patterns"), env.get("levels")
            if not isinstance(pts, list) and isinstance(lv, list):
                pts = [complex(x, 0.0) for x in lv]
            if not (isinstance(pts, list) and len(pts) == M_ and all(isinstance(z, (int, float, complex)) for z in pts) and isinstance(bp, list) and len(bp) == M_ and all(isinstance(r_, list) and len(r_) == b for r_ in bp)):
                return done(None, f"modulator tables for order {M_} have an unexpected form")
            pts = [complex(z) for z in pts]
            attrs = {"self.modulator.constellation": pts, "self.modulator.bit_patterns": bp, "self.modulator.levels": [z.real for z in pts], "self.constellation": pts, "self.bit_patterns": bp, "self._bits_per_symbol": b, "self.bits_per_symbol": b, "self.order": M_, "self.gray_coding": gray, "self.normalize": False}
            _other_buffers(cc, env, attrs)
            try:
                run_fragment(fi.body, {"y": list(pts), "noise_var": 0.5, "args": PySeq([]), "kwargs": {}}, attrs, funcs=funcs_d, materialise=True, max_steps=4000000)
                return done(None, "no value returned")
            except FragReturn as ret:
                out = ret.value
            except (Unfoldable, FragRaise, TypeError, ValueError, IndexError, ZeroDivisionError) as exc:
                return done(None, f"soft branch not evaluable for order {M_} ({exc})")
            if not (isinstance(out, list) and len(out) == M_ * b and all(isinstance(x, (int, float)) and not isinstance(x, bool) for x in out)):
                return done(None, f"soft output for order {M_} is not {M_ * b} real numbers")
            for i in range(M_):
                for j in range(b):
                    llr = out[i * b + j]
                    want0 = int(bp[i][j]) == 0
                    if not (llr == llr) or (llr > 0) != want0 or llr == 0:
                        return done(VIOLATION, f"order {M_}, gray_coding={gray}: at the constellation point {pts[i]} (label {[int(x) for x in bp[i]]}) the LLR of bit {j} is {llr!r}; the transmitted bit is {int(bp[i][j])}, so it must be {'positive' if want0 else 'negative'} (positive <=> bit 0)")
                    count += 1
    return done(OK, f"tabulated at every constellation point for orders {orders} and both labelings ({count} LLRs): positive <=> the point's label bit is 0")


def pi4_soft_tabulated(repo: Repo, ci: ClassInfo, fi: FuncInfo, mc: ClassInfo):
    """pi/4-QPSK: the two point tables come from evaluating the modulator's table constructor (both labelings); the soft
    branch of the demodulator's forward (class helpers followed) is evaluated, noise-free, on symbol sequences that
    alternate standard / rotated points starting with the standard table in every row (evaluation mode, fresh state): one
    sequence of 5 symbols, a batch with an odd and one with an even number of symbols per row.  The LLR of bit j of
    symbol t must be positive iff label bit j of the transmitted point is 0."""
    from ..constfold import PySeq, Unfoldable
    from ..frag import FragRaise, FragReturn, run_fragment
    from .c14 import fold_buffers

    funcs_d = {nm: f_.node for nm, f_ in ci.module.functions.items()}
    funcs_d.update({f"self.{nm}": f_.node for nm, f_ in ci.methods.items() if nm not in ("forward", "__init__")})
    count = 0
    for gray in (True, False):
        try:
            bufs = fold_buffers(mc, "_create_constellations", {"self.gray_coded": gray}, {"self.gray_coded": gray})
        except Exception as exc:  # noqa: BLE001 - any failure of the table evaluation means "not evaluable"
            return None, f"modulator tables not evaluable ({exc})"
        q, qr, bp = bufs.get("qpsk"), bufs.get("qpsk_rotated"), bufs.get("bit_patterns")
        if not (isinstance(q, list) and isinstance(qr, list) and len(q) == len(qr) == 4 and isinstance(bp, list) and len(bp) == 4 and all(isinstance(r_, list) and len(r_) == 2 for r_ in bp)):
            return None, "modulator tables have an unexpected form"
        q, qr = [complex(z) for z in q], [complex(z) for z in qr]
        layouts = [[0, 1, 2, 3, 1], [[0, 1, 2], [3, 2, 1], [1, 1, 0]], [[2, 0, 3, 1], [1, 3, 0, 2]]]
        for labs in layouts:
            batched = isinstance(labs[0], list)
            rows = labs if batched else [labs]
            y_rows = [[(qr if t % 2 else q)[l_] for t, l_ in enumerate(r_)] for r_ in rows]
            attrs = {"self.modulator.qpsk": q, "self.modulator.qpsk_rotated": qr, "self.modulator.bit_patterns": [[float(b_) for b_ in r_] for r_ in bp], "self.modulator.constellation": q, "self._use_rotated": False, "self.training": False, "self.soft_output": True, "self._bits_per_symbol": 2, "self.bits_per_symbol": 2, "self.gray_coded": gray}
            try:
                run_fragment(fi.body, {"y": y_rows if batched else y_rows[0], "noise_var": 0.5, "args": PySeq([]), "kwargs": {}}, attrs, funcs=funcs_d, materialise=True, max_steps=4000000, attrs_live=True)
                return None, "no value returned"
            except FragReturn as ret:
                out = ret.value
            except (Unfoldable, FragRaise, TypeError, ValueError, IndexError, ZeroDivisionError) as exc:
                return None, f"soft branch not evaluable ({exc})"
            flat = []

            def fl(z):
                if isinstance(z, list):
                    for e_ in z:
                        fl(e_)
                else:
                    flat.append(z)

            fl(out)
            T = len(rows[0])
            if len(flat) != len(rows) * T * 2 or not all(isinstance(x, (int, float)) and not isinstance(x, bool) for x in flat):
                return None, f"soft output is not {len(rows) * T * 2} real numbers"
            for ri, r_ in enumerate(rows):
                for t, l_ in enumerate(r_):
                    for j in range(2):
                        llr = flat[(ri * T + t) * 2 + j]
                        want0 = int(bp[l_][j]) == 0
                        if not (llr == llr) or llr == 0 or (llr > 0) != want0:
                            return VIOLATION, f"gray_coded={gray}, {'batch of ' + str(len(rows)) + ' rows with ' + str(T) + ' symbols each' if batched else 'sequence of ' + str(T) + ' symbols'}: row {ri}, symbol {t} is the {'rotated' if t % 2 else 'standard'} point with label {[int(x) for x in bp[l_]]}; the LLR of bit {j} is {llr!r}, it must be {'positive' if want0 else 'negative'} (positive <=> bit 0; every row starts with the standard table and alternates)"
                        count += 1
    return OK, f"pi/4-QPSK soft branch evaluated noise-free on alternating standard / rotated sequences (5 symbols; batches with 3 and 4 symbols per row; both labelings; {count} LLRs): positive <=> the transmitted label bit is 0"


def modulator_tables(repo: Repo, ci: ClassInfo, M_: int, gray: bool):
    """(points, label rows) of the modulator paired with demodulator class ci, from evaluating its table constructor."""
    from ..constfold import Unfoldable
    from ..frag import FragRaise, FragReturn, run_fragment

    mc = ci.module.classes.get(ci.name.replace("Demodulator", "Modulator"))
    cc = mc.find_method("_create_constellation") if mc is not None else None
    if cc is None and mc is not None and mc.methods.get("__init__") is not None:
        # a fixed-order scheme whose tables are written in the constructor (QPSK)
        from .c14 import fold_buffers

        bufs = fold_buffers(mc, "__init__", {"normalize": False}, {"self.normalize": False})
        pts, bp = bufs.get("constellation"), bufs.get("bit_patterns")
        if isinstance(pts, list) and isinstance(bp, list) and len(pts) == M_ == len(bp) and all(isinstance(z, (int, float, complex)) for z in pts) and all(isinstance(r_, list) for r_ in bp):
            return [complex(z) for z in pts], bp
        raise Unfoldable(f"the paired modulator's constructor does not give tables of order {M_}")
    if cc is None:
        raise Unfoldable("no paired modulator with a table constructor")
    funcs_m = {nm: f_.node for nm, f_ in ci.module.functions.items()}
    for mi_ in repo.modules.values():
        if mi_.relpath == "kaira/modulations/utils.py":
            funcs_m.update({nm: f_.node for nm, f_ in mi_.functions.items()})
    b = M_.bit_length() - 1
    mat = {"self.order": M_, "self._bits_per_symbol": b, "self.bits_per_symbol": b, "self.gray_coding": gray, "self.normalize": False}
    if "QAM" in ci.name:
        mat["self._k"] = int(round(M_ ** 0.5))
    try:
        env = run_fragment(cc.body, {}, mat, max_steps=3000000, materialise=True, funcs=funcs_m)
    except (FragRaise, FragReturn, TypeError, ValueError, IndexError) as exc:
        raise Unfoldable(f"modulator tables for order {M_}: {exc}")
    pts, bp, lv = env.get("constellation"), env.get("bit_patterns"), env.get("levels")
    if not isinstance(pts, list) and isinstance(lv, list):
        pts = [complex(x, 0.0) for x in lv]
    if not (isinstance(pts, list) and len(pts) == M_ and all(isinstance(z, (int, float, complex)) for z in pts) and isinstance(bp, list) and len(bp) == M_ and all(isinstance(r_, list) and len(r_) == b for r_ in bp)):
        raise Unfoldable(f"modulator tables for order {M_} have an unexpected form")
    return [complex(z) for z in pts], bp


_HARD_TAB_CACHE: Dict[tuple, tuple] = {}


def hard_nearest_tabulated(repo: Repo, ci: ClassInfo, fi: FuncInfo):
    """Finite tabulation of the hard branch of a table-driven demodulator whose search the rules do not recognise: evaluated
    (own arithmetic) at every constellation point and at four points displaced by 0.3 d_min around it, for the small
    orders, both labelings; the returned bits must be the label of the nearest constellation point.  For the largest
    order only the constellation points themselves are used.  Returns (OK | VIOLATION, detail) or (None, reason)."""
    key = (ci.file, ci.name)
    _hcache = repo.__dict__.setdefault("_kv_hard_tab_cache", {})  # on the repository object: a path may be reused by another tree
    if key in _hcache:
        return _hcache[key]
    from ..constfold import PySeq, Unfoldable
    from ..frag import FragRaise, FragReturn, run_fragment

    def done(st, d):
        _hcache[key] = (st, d)
        return st, d

    funcs_d = {nm: f_.node for nm, f_ in ci.module.functions.items()}
    funcs_d.update({f"self.{nm}": f_.node for nm, f_ in ci.methods.items() if nm not in ("forward", "__init__")})
    square = "QAM" in ci.name
    orders = (4, 16, 64, 256) if square else (2, 4, 8, 16, 32)
    mc_ = ci.module.classes.get(ci.name.replace("Demodulator", "Modulator"))
    fixed = mc_ is not None and mc_.find_method("_create_constellation") is None
    if fixed:
        orders = (4,)
    count = 0
    try:
        for gray in ((True,) if fixed else (True, False)):
            for M_ in orders:
                if M_ == orders[-1] and not gray and not fixed:
                    continue
                b = M_.bit_length() - 1
                pts, bp = modulator_tables(repo, ci, M_, gray)
                dmin = min(abs(p_ - q_) for i_, p_ in enumerate(pts) for q_ in pts[i_ + 1:]) if M_ > 1 else 1.0
                ys = list(pts)
                if M_ != orders[-1] or fixed:
                    for p_ in pts:
                        ys += [p_ + 0.3 * dmin * d_ for d_ in (1, -1, 1j, -1j)]
                attrs = {"self.modulator.constellation": pts, "self.modulator.bit_patterns": bp, "self.modulator.levels": [z.real for z in pts], "self.constellation": pts, "self.bit_patterns": bp, "self._bits_per_symbol": b, "self.bits_per_symbol": b, "self.order": M_, "self.gray_coding": gray, "self.normalize": False}
                try:
                    run_fragment(fi.body, {"y": list(ys), "noise_var": None, "args": PySeq([]), "kwargs": {}}, attrs, funcs=funcs_d, materialise=True, max_steps=8000000)
                    return done(None, "no value returned")
                except FragReturn as ret:
                    out = ret.value
                except (FragRaise, TypeError, ValueError, IndexError, ZeroDivisionError) as exc:
                    return done(None, f"hard branch not evaluable for order {M_} ({exc})")
                if not (isinstance(out, list) and len(out) == len(ys) * b and all(isinstance(x, (int, float)) and not isinstance(x, bool) for x in out)):
                    return done(None, f"hard output for order {M_} is not {len(ys) * b} numbers")
                for t, y_ in enumerate(ys):
                    dists = [abs(y_ - p_) for p_ in pts]
                    near = dists.index(min(dists))
                    got = [int(x) for x in out[t * b:(t + 1) * b]]
                    want = [int(x) for x in bp[near]]
                    if got != want:
                        return done(VIOLATION, f"order {M_}, gray_coding={gray}: the received value {y_} is nearest to point {near} = {pts[near]} (label {want}); the hard decision returns {got}")
                    count += 1
    except Unfoldable as exc:
        return done(None, str(exc))
    return done(OK, f"tabulated for orders {orders} (both labelings): at {count} received values (constellation points and points displaced by 0.3 d_min) the decision is the label of the nearest point")


def decide_producer(repo, rep, ci, fi, v: PV, r: ast.Return, interp: Polarity) -> int:
    construct = f"soft branch: {unparse(r)}"
    trace = [f"abstract value of the returned LLR: {v.show()}"] + [f"idiom: {x}" for x in interp.idioms[:4]]
    _undecided = rep.undecided
    real_rep = rep

    class _RepProxy:
        """an UNDECIDED polarity verdict is replaced by the finite tabulation where that is available"""

        def __getattr__(self, name):
            return getattr(real_rep, name)

        def undecided(self, rule, where, cons, detail, **kw):
            st_, d_ = soft_sign_tabulated(repo, ci, fi)
            if st_ is None:
                return _undecided(rule, where, cons, f"{detail}; tabulation: {d_}", **kw)
            return real_rep.add(rule, where, cons, st_, d_, node=kw.get("node"))

    rep = _RepProxy()
    d0, d1 = v.p("D0"), v.p("D1")
    if "D0" in v.seeds or "D1" in v.seeds or "E0" in v.seeds or "E1" in v.seeds:
        if v.p("E0") != C or v.p("E1") != C:
            rep.violation("POLARITY-PRODUCER", fi, construct, "the LLR depends on per-point distances that were never reduced to the nearest point of the bit-0 / bit-1 subset", trace=trace, node=r)
            return 1
        if d0 == D and d1 == I:
            rep.ok("POLARITY-PRODUCER", fi, construct, "LLR is decreasing in dist(y, bit-0 points) and increasing in dist(y, bit-1 points): positive <=> bit 0", trace=trace, node=r)
        elif d0 == I and d1 == D:
            rep.violation("POLARITY-PRODUCER", fi, construct, "LLR sign is inverted: it is increasing in the distance to the bit-0 points and decreasing in the distance to the bit-1 points (positive would mean bit 1)", trace=trace + interp.unknown_ops[:3], node=r)
        elif T in (d0, d1):
            rep.undecided("POLARITY-PRODUCER", fi, construct, f"polarity could not be decided (D0:{d0}, D1:{d1})", trace=trace + interp.unknown_ops[:6], node=r)
        elif M in (d0, d1):
            rep.violation("POLARITY-PRODUCER", fi, construct, f"the LLR is not a monotone function of the nearest-point distances (D0:{d0}, D1:{d1}): alternatives/outputs with opposite polarity or a reduction that selects the farthest point", trace=trace + interp.definite[:4], node=r)
        else:
            rep.violation("POLARITY-PRODUCER", fi, construct, f"LLR must depend on both subsets with opposite polarity (found D0:{d0}, D1:{d1})", trace=trace, node=r)
        return 1
    py = v.p("y")
    if py == M and not is_top(v):
        rep.violation("POLARITY-PRODUCER", fi, construct, "parts of the soft output are increasing and parts are decreasing in the received amplitude: one of them has the wrong sign", trace=trace + interp.definite[:4], node=r)
        return 1
    if is_top(v) or py == T or any(p_ == T for _k, p_ in v.pol):
        # an unknown dependence on anything (a subset selection the domain did not recognise ...) leaves the polarity open
        rep.undecided("POLARITY-PRODUCER", fi, construct, "polarity of the LLR in the received value could not be decided", trace=trace + interp.unknown_ops[:6], node=r)
        return 1
    if py == C:
        rep.violation("POLARITY-PRODUCER", fi, construct, "the soft output does not depend on the received value", trace=trace, node=r)
        return 1
    amp = modulator_amplitude_polarity(repo, ci)
    if amp not in (I, D):
        rep.undecided("POLARITY-PRODUCER", fi, construct, f"closed-form LLR is {py} in the received amplitude but the paired modulator's bit->amplitude polarity is {amp}", trace=trace, node=r)
        return 1
    # bit 0 carried by the larger amplitude iff amplitude is DEC in the bit; then LLR must be INC in y
    want = I if amp == D else D
    if py == want:
        rep.ok("POLARITY-PRODUCER", fi, construct, f"closed-form LLR is {py} in the received amplitude; the modulator's amplitude is {amp} in the bit: positive <=> bit 0", trace=trace, node=r)
    else:
        rep.violation("POLARITY-PRODUCER", fi, construct, f"closed-form LLR is {py} in the received amplitude but the modulator's amplitude is {amp} in the bit: positive LLR would mean bit 1", trace=trace, node=r)
    return 1


# ---------------------------------------------------------------------------
# consumers
# ---------------------------------------------------------------------------

THRESHOLDERS = ["FixedThresholder", "AdaptiveThresholder", "LLRThresholder", "MinDistanceThresholder", "HysteresisThresholder", "WeightedThresholder", "DynamicThresholder"]


def table_order_in_init(ci: ClassInfo, attr: str, atoms) -> Optional[str]:
    """Order ('asc'/'desc'/None) of the literal assigned to self.<attr> in __init__ on the LLR path."""
    init = ci.methods.get("__init__")
    if init is None:
        return None
    orders = set()

    def visit(body, live=True):
        for st in body:
            if isinstance(st, ast.If):
                d = tv_eval(st.test, atoms)
                if d is not False:
                    visit(st.body)
                if d is not True:
                    visit(st.orelse)
            elif isinstance(st, ast.Assign) and any(attr_chain(t) == f"self.{attr}" for t in st.targets):
                val = st.value
                if isinstance(val, ast.Call) and call_name(val) in ("torch.tensor", "torch.as_tensor") and val.args:
                    try:
                        lit = const_value(val.args[0])
                    except ValueError:
                        orders.add(None)
                        continue
                    if all(x <= y for x, y in zip(lit, lit[1:])):
                        orders.add("asc")
                    elif all(x >= y for x, y in zip(lit, lit[1:])):
                        orders.add("desc")
                    else:
                        orders.add(None)
                elif isinstance(val, ast.Name):
                    pass  # user-supplied table: unknown order, not a repository default
                else:
                    orders.add(None)

    visit(init.body)
    if len(orders) == 1:
        return next(iter(orders))
    return None


def consumers(repo: Repo, rep: Report) -> int:
    n = 0
    mi = repo.module(THR)
    for cname in THRESHOLDERS:
        ci = repo.cls(THR, cname)
        fi = repo.method(ci, "forward")
        interp = Polarity(fi, repo, cls=ci, config=make_config(LLR_ATOMS), positives={"self.weights", "weights"}, attr_values={"self.ref_points": mk(kind=("table", "ref_points"))})
        params = [p for p in fi.params if p not in ("self", "cls")]
        env = {p: CONST for p in params}
        env[params[0]] = mk({"llr": I})
        interp.run(env)
        rets = [(v, r) for (v, r, _e) in interp.returns if v is not None]
        if not rets:
            rep.undecided("POLARITY-CONSUMER", fi, "LLR-mode path", "no return reached")
        for v, r in rets:
            n += 1
            construct = f"LLR mode: {unparse(r)}"
            if v.p("llr") == I and not is_top(v):
                construct = f"{cname}, LLR mode: the decided bit increases with the LLR"  # keyed by what is wrong, not by the spelling of the return
            trace = [f"abstract value of the decision: {v.show()}", f"return statement: {unparse(r)[:80]}"] + [f"idiom: {x}" for x in interp.idioms[:4]]
            if v.kind and v.kind[0] == "nearest":
                order = table_order_in_init(ci, "reference_points", LLR_ATOMS)
                if order == "desc":
                    rep.ok("POLARITY-CONSUMER", fi, construct, "index of the nearest reference LLR in a descending default table: decreasing in the LLR", trace=trace, node=r)
                elif order == "asc":
                    rep.violation("POLARITY-CONSUMER", fi, construct, "the decided bit is the index of the nearest reference LLR and the default LLR table is ascending: negative LLRs decide bit 0 (inverted)", trace=trace, node=r)
                else:
                    rep.undecided("POLARITY-CONSUMER", fi, construct, "bit = index of nearest reference point, but the default table order is unknown", trace=trace, node=r)
                continue
            judge_dec(rep, "POLARITY-CONSUMER", fi, construct, v, "llr", r, trace, interp)
    # repetition decoder default + ensemble
    ci = repo.cls(THR, "RepetitionSoftBitDecoder")
    init = repo.method(ci, "__init__")
    picked = None
    for st in stmts_of(init.body):
        if isinstance(st, ast.If) and tv_eval(st.test, LLR_ATOMS) is True:
            for s2 in st.body:
                if isinstance(s2, ast.Assign) and any(attr_chain(t) == "self.thresholder" for t in s2.targets) and isinstance(s2.value, ast.Call):
                    picked = s2
    if picked is None:
        rep.undecided("POLARITY-CONSUMER", init, "default LLR thresholder", "assignment of self.thresholder under input_type == LLR not found")
    else:
        n += 1
        cn = call_name(picked.value)
        kw = {k.arg: unparse(k.value) for k in picked.value.keywords}
        good = cn == "LLRThresholder" and kw.get("output_type", "OutputType.HARD") == "OutputType.HARD"
        known_ok = cn in ("HysteresisThresholder", "WeightedThresholder", "DynamicThresholder", "AdaptiveThresholder", "MinDistanceThresholder") and "LLR" in kw.get("input_type", "")
        rep.check(good or known_ok, "POLARITY-CONSUMER", init, picked, "default LLR-mode thresholder is a verified LLR consumer in LLR mode", f"default thresholder for LLR input is `{unparse(picked.value)}`, which is not an LLR-mode consumer verified above", node=picked)
    fi = repo.method(ci, "forward")
    interp = Polarity(fi, repo, cls=ci, config=make_config(LLR_ATOMS))
    interp.callable_dec = {"self.thresholder"}
    env = {p: CONST for p in fi.params if p not in ("self",)}
    env["x"] = mk({"llr": I})
    interp.run(env)
    for v, r, _ in interp.returns:
        n += 1
        judge_dec(rep, "POLARITY-CONSUMER", fi, f"combine then threshold: {unparse(r)}", v, "llr", r, [f"abstract value: {v.show()}"], interp)
    ci = repo.cls(THR, "SoftBitEnsembleThresholder")
    fi = repo.method(ci, "forward")
    interp = Polarity(fi, repo, cls=ci, config=make_config(LLR_ATOMS), positives={"self.weights"})
    interp.iter_models = {"self.thresholders": mk(kind=("callable_dec",))}
    env = {p: CONST for p in fi.params if p not in ("self",)}
    env["x"] = mk({"llr": I})
    interp.run(env)
    for v, r, _ in interp.returns:
        n += 1
        judge_dec(rep, "POLARITY-CONSUMER", fi, f"ensemble vote: {unparse(r)}", v, "llr", r, [f"abstract value: {v.show()}"] + [f"idiom: {x}" for x in interp.idioms[:3]], interp)

    # utility conversions
    for fname in ("sign_to_bin", "llr_to_bits"):
        fi = repo.func(FECU, fname)
        interp = Polarity(fi, repo)
        env = {fi.params[0]: mk({"llr": I})}
        interp.run(env)
        for v, r, _ in interp.returns:
            n += 1
            judge_dec(rep, "POLARITY-CONSUMER", fi, unparse(r), v, "llr", r, [f"abstract value: {v.show()}"], interp)
    return n


def judge_dec(rep: Report, rule: str, fi, construct: str, v: PV, seed: str, node, trace, interp: Polarity) -> None:
    p = v.p(seed)
    if is_top(v):
        p = T
    if p == D:
        rep.ok(rule, fi, construct, "decided bit / P(bit=1) is decreasing in the LLR: positive LLR -> 0, negative -> 1", trace=trace, node=node)
    elif p == I:
        rep.violation(rule, fi, construct, "decided bit is INCREASING in the LLR: positive LLRs decide bit 1, contrary to the convention positive = bit 0", trace=trace, node=node)
    elif p == C:
        rep.violation(rule, fi, construct, "the decision does not depend on the LLR", trace=trace, node=node)
    elif p == M:
        rep.violation(rule, fi, construct, "alternatives of the decision have opposite polarity in the LLR: one of them decides bit 1 for positive LLRs", trace=trace + interp.definite[:4], node=node)
    else:
        rep.undecided(rule, fi, construct, "polarity could not be decided", trace=trace + interp.unknown_ops[:6], node=node)


# decision sites inside the soft decoders ------------------------------------------------

DECODER_SITES = [
    # (file, qualname, minimum number of sites)
    ("kaira/models/fec/decoders/wagner_soft_decision_decoder.py", "WagnerSoftDecisionDecoder.forward", 1),
    ("kaira/models/fec/decoders/reed_muller_decoder.py", "ReedMullerDecoder.forward", 2),
    ("kaira/models/fec/decoders/belief_propagation.py", "BeliefPropagationDecoder.forward", 1),
    ("kaira/models/fec/decoders/successive_cancellation.py", "SuccessiveCancellationDecoder.forward", 1),
    ("kaira/models/fec/decoders/belief_propagation_polar.py", "BeliefPropagationPolarDecoder.forward", 1),
]

BIT_CASTS = {"to", "int", "float", "long", "type", "bool"}


def decision_sites(fi: FuncInfo) -> List[ast.AST]:
    """Expressions that turn a soft value into a bit: `(E <op> 0).to(int)` and calls of sign_to_bin / llr_to_bits."""
    sites = []
    set_parents(fi.node)
    for n in ast.walk(fi.node):
        if isinstance(n, ast.Call) and call_name(n) in ("sign_to_bin", "llr_to_bits"):
            sites.append(n)
        elif isinstance(n, ast.Compare) and len(n.ops) == 1 and isinstance(n.ops[0], (ast.Lt, ast.Gt, ast.LtE, ast.GtE)):
            sides = [n.left, n.comparators[0]]
            zero = [s for s in sides if isinstance(s, ast.Constant) and s.value in (0, 0.0) and not isinstance(s.value, bool)]
            if len(zero) != 1:
                continue
            par = getattr(n, "_parent", None)
            # materialised as a bit tensor: (cmp).to(...)/.int()/.float()/.long()
            if isinstance(par, ast.Attribute) and par.attr in BIT_CASTS and isinstance(getattr(par, "_parent", None), ast.Call):
                sites.append(n)
    return sites


def decoder_sites(repo: Repo, rep: Report) -> int:
    total = 0
    for file, qual, floor in DECODER_SITES:
        cname, _, m = qual.partition(".")
        ci = repo.cls(file, cname)
        # sites may live in forward or in helpers/closures of the class: scan all methods of the class
        found = 0
        for meth in ci.methods.values():
            for site in decision_sites(meth):
                # seed every free variable of the site expression
                interp = Polarity(meth, repo, cls=ci)
                env = {}
                operand_names = sorted({x.id for x in ast.walk(site) if isinstance(x, ast.Name) and x.id not in ("torch", "sign_to_bin", "llr_to_bits", "self")})
                if isinstance(site, ast.Compare):
                    operand = site.left if not (isinstance(site.left, ast.Constant)) else site.comparators[0]
                    roots = sorted({x.id for x in ast.walk(operand) if isinstance(x, ast.Name)} - {"torch"})
                    # only the thresholded tensor is the seed; index variables are constants
                    base = operand
                    while isinstance(base, (ast.Subscript, ast.Attribute, ast.Call)):
                        base = base.value if not isinstance(base, ast.Call) else (base.func.value if isinstance(base.func, ast.Attribute) else base.args[0] if base.args else base)
                    seeds = [base.id] if isinstance(base, ast.Name) else roots
                else:
                    seeds = operand_names
                for nm in operand_names:
                    env[nm] = CONST
                for nm in seeds:
                    env[nm] = mk({"llr": I})
                v = interp.eval(site, env)
                found += 1
                judge_dec(rep, "POLARITY-CONSUMER", meth, f"decision site: {unparse(site)}", v, "llr", site, [f"seeded: {seeds}; abstract value: {v.show()}"], interp)
        rep.floor(f"decision sites in {cname}", found, floor)
        total += found
    return total


RAW_VIEW = {"reshape", "view", "abs", "float", "double", "to", "clone", "contiguous", "flatten", "unsqueeze", "squeeze", "detach"}


def rule_llr_range(repo: Repo, rep: Report) -> int:
    """The convention must hold for LLR magnitudes 1e-3 .. 1e3: a decision taken from the *product* of a block's raw LLRs
    (|LLR|^n) underflows float32 to +-0 for n >= 16 at |LLR| = 1e-3, so `prod(llr) > 0` stops reporting the sign parity.
    Sites: every comparison with 0 inside the soft decoders / LLR utilities whose other side is a prod-reduction of a raw
    (only reshaped / sliced / abs'd) LLR parameter.  sign(llr).prod() is exact and accepted."""
    n = 0
    files = sorted({f for f, _, _ in DECODER_SITES} | {"kaira/models/fec/utils.py", "kaira/models/binary/soft_bit_thresholding.py"})
    for file in files:
        mi = repo.module(file)
        for fi in list(mi.functions.values()) + [m for ci_ in mi.classes.values() for m in ci_.methods.values()]:
            params = set(fi.params) - {"self", "args", "kwargs"}
            alias = set(params)
            for st in stmts_of(fi.body):
                if isinstance(st, ast.Assign) and len(st.targets) == 1 and isinstance(st.targets[0], ast.Name):
                    v = st.value
                    while (isinstance(v, ast.Call) and isinstance(v.func, ast.Attribute) and v.func.attr in RAW_VIEW) or isinstance(v, ast.Subscript):
                        v = v.func.value if isinstance(v, ast.Call) else v.value
                    if isinstance(v, ast.Name) and v.id in alias:
                        alias.add(st.targets[0].id)
            for c in ast.walk(fi.node):
                if not (isinstance(c, ast.Compare) and len(c.ops) == 1 and isinstance(c.ops[0], (ast.Lt, ast.Gt, ast.LtE, ast.GtE))):
                    continue
                sides = [c.left, c.comparators[0]]
                if not any(isinstance(s_, ast.Constant) and s_.value in (0, 0.0) and not isinstance(s_.value, bool) for s_ in sides):
                    continue
                other = next(s_ for s_ in sides if not (isinstance(s_, ast.Constant) and s_.value in (0, 0.0)))
                if not (isinstance(other, ast.Call) and ((isinstance(other.func, ast.Attribute) and other.func.attr == "prod") or call_name(other) == "torch.prod")):
                    continue
                recv = other.args[0] if call_name(other) == "torch.prod" and other.args else other.func.value
                v = recv
                while (isinstance(v, ast.Call) and isinstance(v.func, ast.Attribute) and v.func.attr in RAW_VIEW) or isinstance(v, ast.Subscript):
                    v = v.func.value if isinstance(v, ast.Call) else v.value
                n += 1
                if isinstance(v, ast.Name) and v.id in alias:
                    rep.violation("LLR-RANGE", fi, f"decision from a product of LLRs: {unparse(c)}", f"`{unparse(recv)}` holds raw LLRs: the product of a block's n values has magnitude |LLR|^n and underflows float32 to +-0 for |LLR| = 1e-3 and n >= 16 (inside the magnitudes the convention must hold for), so the comparison no longer reports the parity of the signs and a consistent word is 'corrected'", node=c)
                elif any(isinstance(x, ast.Call) and (call_name(x) or "").split(".")[-1] in ("sign", "sgn") for x in ast.walk(recv)):
                    rep.ok("LLR-RANGE", fi, f"parity from a product of signs: {unparse(c)}", "product of +-1 values is exact", node=c)
                else:
                    rep.undecided("LLR-RANGE", fi, f"decision from a product: {unparse(c)}", "operand of the product is neither the raw LLR input nor its sign", node=c)
    return n


def tabulate_demodulators(repo: Repo, rep: Report, rule: str, which: str) -> int:
    """Thorough tier: in addition to the structural / polarity verdicts, the hard or the soft branch of every table-driven
    demodulator is tabulated at the constellation points of its paired modulator's evaluated tables (own arithmetic)."""
    n = 0
    for ci in registered(repo, "register_demodulator"):
        fi = ci.find_method("forward")
        if fi is None or fi.cls is not ci:
            continue
        mc = ci.module.classes.get(ci.name.replace("Demodulator", "Modulator"))
        if mc is None or (mc.find_method("_create_constellation") is None and ci.name != "QPSKDemodulator" and not (ci.name == "Pi4QPSKDemodulator" and which == "soft")):
            continue
        st_, d_ = (hard_nearest_tabulated if which == "hard" else soft_sign_tabulated)(repo, ci, fi)
        if st_ is None:
            continue  # outside the evaluator: the structural verdict stands alone
        rep.add(rule, fi, f"{ci.name}: {which} branch tabulated (thorough tier)", st_, d_, node=fi.node)
        n += 1
    return n


def rule_mode_tests(repo: Repo, rep: Report) -> int:
    """MODE-TEST: the thresholders select their LLR / probability handling by comparing the stored `input_type` with a
    member of a str-mixin Enum.  The constructors store the argument unconverted and document the plain-string forms
    ('prob', 'llr'); a string equals the member but is not the same object, so the comparison must be by value (`==`,
    `!=`, `in`) - an identity test (`is`, `is not`) silently skips the LLR handling for the string form."""
    mod = repo.module(THR)
    str_enums = {nm for nm, ci_ in mod.classes.items() if {"str", "Enum"} <= {unparse(b).split(".")[-1] for b in ci_.node.bases}}
    n = 0
    for ci_ in mod.classes.values():
        init = ci_.methods.get("__init__")
        stored_raw = set()
        if init is not None:
            params = {a.arg for a in init.node.args.args + init.node.args.kwonlyargs}
            for st in ast.walk(init.node):
                if isinstance(st, ast.Assign) and len(st.targets) == 1 and (attr_chain(st.targets[0]) or "").startswith("self.") and isinstance(st.value, ast.Name) and st.value.id in params:
                    stored_raw.add(attr_chain(st.targets[0]))
                    stored_raw.add(st.value.id)
        for fi in ci_.methods.values():
            for cmp_ in ast.walk(fi.node):
                if not isinstance(cmp_, ast.Compare) or len(cmp_.ops) != 1:
                    continue
                sides = [cmp_.left, cmp_.comparators[0]]
                mem = [x for x in sides if isinstance(x, ast.Attribute) and isinstance(x.value, ast.Name) and x.value.id in str_enums]
                oth = [x for x in sides if x not in mem]
                if len(mem) != 1 or not oth:
                    continue
                n += 1
                if (attr_chain(oth[0]) or (oth[0].id if isinstance(oth[0], ast.Name) else None)) not in stored_raw:
                    continue  # converted on the way in (or another value): identity and equality agree on Enum members
                if isinstance(cmp_.ops[0], (ast.Is, ast.IsNot)):
                    rep.violation("MODE-TEST", fi, f"identity test of the stored input type against {unparse(mem[0])}", f"`{unparse(cmp_)}`: {mem[0].value.id} is a str-Enum and the constructor stores the argument unconverted; the documented string form ({mem[0].attr.lower()!r}-style) equals the member but is not the same object, so this branch is not taken for it - in LLR mode the LLRs are then thresholded as if they were P(bit = 1)", node=cmp_)
                else:
                    rep.ok("MODE-TEST", fi, f"{ci_.name}.{fi.name}: stored input type compared with {unparse(mem[0])} by value", "a plain string and the Enum member select the same branch", node=cmp_, nontrivial=False)
    rep.floor("mode tests against str-Enum members", n, 10)
    return n


def run(repo: Repo, rep: Report, tier: str) -> None:
    rule_llr_range(repo, rep)
    rule_mode_tests(repo, rep)
    if tier == "thorough":
        tabulate_demodulators(repo, rep, "POLARITY-PRODUCER", "soft")
    n_prod = producers(repo, rep)
    n_cons = consumers(repo, rep)
    n_sites = decoder_sites(repo, rep)
    from .c11 import rule_bp_polar_answers

    rule_bp_polar_answers(repo, rep, rule="POLARITY-CONSUMER")
    from ..speciallint import lint_logistic_overflow

    thr_fis = [f for ci_ in repo.module(THR).classes.values() for f in ci_.methods.values()] + list(repo.module(THR).functions.values())
    rep.floor("functions of the thresholding module scanned for overflowing logistic quotients", len(thr_fis), 20)
    lint_logistic_overflow(rep, thr_fis, "LLR-RANGE", THR)
    rep.floor("soft-demodulator returns decided (producers)", n_prod, 9)
    rep.floor("thresholder / utility consumer returns", n_cons, 10)
    rep.floor("decoder decision sites", n_sites, 9)
    rep.decided_clauses += [
        "producers: LLR decreasing in dist to bit-0 subset, increasing in dist to bit-1 subset (closed form: increasing in the amplitude that carries bit 0)",
        "LLR-to-probability conversions are not formed as exp(t) / (c + exp(t)) with unclamped t (NaN within the stated LLR range)",
        "consumers: decided bit / P(1) decreasing in the LLR (thresholders in LLR mode, repetition/ensemble delegation, sign_to_bin, llr_to_bits, decoder decision sites)",
    ]
    rep.undecided_clauses += ["numerical LLR values", "tie behaviour at LLR = 0"]
