"""C17 - pipeline models run their stages in declared order, independent of thread timing.

Kit J: loop-shape recognisers for the sequential containers, a stage-provenance interpreter
for the fixed compositions (declared order / exactly once / argument forwarding are read off
the returned term), an order-taint rule for containers filled in completion order, and
first-match-returns for the branching model.
"""
from __future__ import annotations

import ast
from typing import Dict, List, Optional

from ..astutil import ancestors, attr_chain, call_name, match, returns_of, set_parents, stmts_of, walk_no_nested
from ..core import OK, UNDECIDED, VIOLATION, AnalysisError, FuncInfo, Repo, Report, unparse
from ..provenance import NONE, Provenance, single

EXPLANATION = (
    "Order/typestate analysis of the pipeline models. SEQ-LOOP: forward() of SequentialModel, ConfigurableModel, CompositeConstraint and "
    "apply_constraint_chain must be exactly `r = input; for s in <declared list>: r = s(r, *args, **kwargs); return r` (no break/continue/skip, result threaded, arguments "
    "forwarded). STAGE-LIST: DeepJSCCModel/ChannelCodeModel hand super().__init__ the list [encoder, constraint, channel, decoder] / [encoder, modulator, constraint, channel, "
    "demodulator, decoder] by parameter identity. PROVENANCE: an abstract interpreter whose values are stage terms computes through which components the returned "
    "value has passed in MultipleAccessChannelModel, WynerZivModel and FeedbackChannelModel; the term must equal the declared composition (each stage once, in order, superposition "
    "before one constraint and one channel use; exactly max_iterations rounds with no early exit). ORDER-TAINT: in ParallelModel.forward a container filled inside a loop "
    "over as_completed()/wait() is completion-ordered; what is returned and what is given to the aggregator must be rebuilt by iterating the declared step list; one submission "
    "per declared step. FIRST-MATCH: BranchingModel.forward iterates the branch dict in insertion order and returns inside the first true condition, default after the loop. "
    "All of this is read from the syntax tree: it holds for every schedule and every input because neither occurs in the argument."
)

SEQ = "kaira/models/generic/sequential.py"
BASE = "kaira/models/base.py"
PAR = "kaira/models/generic/parallel.py"
BR = "kaira/models/generic/branching.py"
DJ = "kaira/models/deepjscc.py"
CC = "kaira/models/channel_code.py"
FB = "kaira/models/feedback_channel.py"
MAC = "kaira/models/multiple_access_channel.py"
WZ = "kaira/models/wyner_ziv.py"
COMP = "kaira/constraints/composite.py"
CUT = "kaira/constraints/utils.py"


# ---------------------------------------------------------------------------
# SEQ-LOOP
# ---------------------------------------------------------------------------

def seq_loop(rep: Report, fi: FuncInfo, list_expr_ok, forward_args: bool, what: str) -> None:
    body = fi.body
    # pass-local state must be local: an attribute of the instance that one pass both writes and reads is shared by
    # every pass running through the same instance (ParallelModel runs its branches in threads)
    stores = {}
    for n_ in ast.walk(fi.node):
        tg = []
        if isinstance(n_, ast.Assign):
            tg = [t for t0 in n_.targets for t in (t0.elts if isinstance(t0, (ast.Tuple, ast.List)) else [t0])]
        elif isinstance(n_, (ast.AugAssign, ast.AnnAssign)):
            tg = [n_.target]
        for t in tg:
            ch = attr_chain(t)
            if ch and ch.startswith("self.") and ch.count(".") == 1:
                stores.setdefault(ch, n_)
    for ch, st_ in stores.items():
        reads = [n_ for n_ in ast.walk(fi.node) if isinstance(n_, ast.Attribute) and isinstance(n_.ctx, ast.Load) and attr_chain(n_) == ch]
        if reads or isinstance(st_, ast.AugAssign):
            rep.violation("SEQ-REENTRANT", fi, f"{what}: {unparse(st_)}", f"the pass keeps its progress in `{ch}`, which every pass through the same instance shares: two overlapping passes (a pipeline used by two ParallelModel branches) skip or repeat stages depending on thread timing", node=st_)
            return
    loops = [s for s in stmts_of(body) if isinstance(s, (ast.For, ast.While))]
    if len(loops) != 1 or not isinstance(loops[0], ast.For) or loops[0] not in body:
        rep.undecided("SEQ-LOOP", fi, what, f"expected exactly one top-level for-loop, found {len(loops)}")
        return
    lp: ast.For = loops[0]
    # no control statement may skip or cut the loop
    bad = [s for s in stmts_of(lp.body) if isinstance(s, (ast.Break, ast.Continue, ast.Return, ast.If, ast.Try, ast.While, ast.For))]
    if bad:
        rep.violation("SEQ-LOOP", fi, f"{what}: loop body contains `{unparse(bad[0]).splitlines()[0]}`", "a stage can be skipped, repeated or the pipeline cut short: every declared stage must be applied exactly once", node=bad[0])
        return
    if lp.orelse:
        rep.undecided("SEQ-LOOP", fi, what, "for-else")
        return
    if not list_expr_ok(lp.iter):
        # enumerate/reversed/slices change the order or the set of stages
        rep.violation("SEQ-LOOP", fi, f"{what}: for {unparse(lp.target)} in {unparse(lp.iter)}", "the loop does not iterate the declared stage list itself, in order", node=lp)
        return
    if not isinstance(lp.target, ast.Name):
        rep.undecided("SEQ-LOOP", fi, what, "loop target is not a simple name")
        return
    sname = lp.target.id
    assigns = [s for s in lp.body if isinstance(s, ast.Assign)]
    others = [s for s in lp.body if not isinstance(s, (ast.Assign, ast.Expr, ast.Pass))]
    calls_in_body = [n for s in lp.body for n in ast.walk(s) if isinstance(n, ast.Call) and isinstance(n.func, ast.Name) and n.func.id == sname]
    if len(calls_in_body) != 1:
        rep.violation("SEQ-LOOP", fi, f"{what}: loop body calls the stage {len(calls_in_body)} time(s)", "each stage must be called exactly once per iteration", node=lp)
        return
    call = calls_in_body[0]
    st = next(s for s in lp.body if any(n is call for n in ast.walk(s)))
    if not (isinstance(st, ast.Assign) and st.value is call and len(st.targets) == 1 and isinstance(st.targets[0], ast.Name)):
        rep.violation("SEQ-LOOP", fi, f"{what}: {unparse(st)}", "the stage's result is not threaded into the next stage (`r = stage(r, ...)`)", node=st)
        return
    acc = st.targets[0].id
    first = call.args[0] if call.args else None
    if not (isinstance(first, ast.Name) and first.id == acc):
        rep.violation("SEQ-LOOP", fi, f"{what}: {unparse(st)}", f"the stage is not applied to the running result `{acc}`", node=st)
        return
    if forward_args:
        star = [a for a in call.args if isinstance(a, ast.Starred)]
        dstar = [k for k in call.keywords if k.arg is None]
        pa = fi.node.args
        ok = bool(star) and bool(dstar) and pa.vararg is not None and pa.kwarg is not None and isinstance(star[0].value, ast.Name) and star[0].value.id == pa.vararg.arg and isinstance(dstar[0].value, ast.Name) and dstar[0].value.id == pa.kwarg.arg
        if not ok:
            rep.violation("SEQ-LOOP", fi, f"{what}: {unparse(st)}", "extra positional/keyword arguments are not forwarded to every stage", node=st)
            return
        if len(call.args) != 2 or any(k.arg is not None for k in call.keywords):
            rep.violation("SEQ-LOOP", fi, f"{what}: {unparse(st)}", "the stage receives arguments other than (result, *args, **kwargs)", node=st)
            return
    # initial value and return
    idx = body.index(lp)
    pre = [s for s in body[:idx] if isinstance(s, ast.Assign) and any(isinstance(t, ast.Name) and t.id == acc for t in s.targets)]
    params = [p for p in fi.params if p not in ("self",)]
    inp = None
    if pre:
        v = pre[-1].value
        inp = v.id if isinstance(v, ast.Name) else None
    elif acc in params:
        inp = acc
    data_param = next((p for p in params if p not in ("args", "kwargs", "constraints")), None)
    if fi.name == "apply_constraint_chain":
        data_param = "input_tensor"
    if inp != data_param:
        rep.violation("SEQ-LOOP", fi, f"{what}: running result starts from `{unparse(pre[-1].value) if pre else acc}`", f"the first stage must receive the model input `{data_param}`", node=pre[-1] if pre else lp)
        return
    post = [s for s in body[idx + 1 :] if not (isinstance(s, ast.Expr) and isinstance(s.value, ast.Constant))]
    if not (len(post) == 1 and isinstance(post[0], ast.Return) and isinstance(post[0].value, ast.Name) and post[0].value.id == acc):
        rep.violation("SEQ-LOOP", fi, f"{what}: after the loop: {'; '.join(unparse(s) for s in post)[:120]}", "the model must return the last stage's result unchanged", node=post[0] if post else lp)
        return
    mid = [s for s in body[:idx] if s not in pre and not (isinstance(s, ast.Expr) and isinstance(s.value, ast.Constant))]
    # a write-only bookkeeping attribute (never read by the pass, no call on the right) does not touch the pipeline
    mid = [s for s in mid if not (isinstance(s, ast.Assign) and s in stores.values() and not any(isinstance(n_, ast.Call) for n_ in ast.walk(s.value)))]
    if mid:
        rep.undecided("SEQ-LOOP", fi, what, f"unexpected statement before the loop: {unparse(mid[0])[:80]}")
        return
    rep.ok("SEQ-LOOP", fi, f"{what}: for {sname} in {unparse(lp.iter)}: {unparse(st)}; return {acc}", "every declared stage once, in list order, result threaded" + (", *args/**kwargs forwarded" if forward_args else ""), node=lp)


def rule_seq(repo: Repo, rep: Report) -> int:
    n = 0
    for file, qual, attr, fwd in ((SEQ, "SequentialModel.forward", "self.steps", True), (BASE, "ConfigurableModel.forward", "self.steps", True), (COMP, "CompositeConstraint.forward", "self.constraints", True)):
        fi = repo.func(file, qual)
        seq_loop(rep, fi, lambda e, a=attr: attr_chain(e) == a, fwd, f"{qual.split('.')[0]} applies {attr}")
        n += 1
    fi = repo.func(CUT, "apply_constraint_chain")
    seq_loop(rep, fi, lambda e: isinstance(e, ast.Name) and e.id == "constraints", False, "apply_constraint_chain applies its list")
    n += 1
    # the list the loop reads is the list the constructor / add_step / remove_step write
    ci = repo.cls(SEQ, "SequentialModel")
    init = repo.method(ci, "__init__")
    asg = [s for s in stmts_of(init.body) if isinstance(s, ast.Assign) and any(attr_chain(t) == "self.steps" for t in s.targets)]
    for s in asg:
        # every alternative of the stored value must be a fresh list with the caller's stages in the caller's order: the
        # class edits self.steps in place (add_step appends, remove_step pops), so storing the caller's own list object
        # lets two pipelines declared from the same list (or the caller) change each other's stages
        arms = [s.value]
        while any(isinstance(a_, ast.IfExp) for a_ in arms):
            arms = [b_ for a_ in arms for b_ in ((a_.body, a_.orelse) if isinstance(a_, ast.IfExp) else (a_,))]
        copies = ("list(steps)", "[*steps]", "steps.copy()", "steps[:]", "list(steps or [])", "list(steps or ())", "[]", "list()", "copy.copy(steps)", "[step for step in steps]", "[s for s in steps]")
        ok = all(any(match(a_, c_) is not None for c_ in copies) for a_ in arms)
        aliased = [a_ for a_ in arms if isinstance(a_, ast.Name) and a_.id == "steps"]
        vt = unparse(s.value)
        wrong = bool(aliased) or any(k in vt for k in ("reversed(", "sorted(", "[::-1]", "set(", "shuffle")) or (isinstance(s.value, ast.Subscript) and isinstance(s.value.slice, ast.Slice) and unparse(s.value) != "steps[:]")
        rep.shape(ok, wrong, "SEQ-LIST", init, s, "stage list = a fresh list of the caller's sequence, same order", "the stored stage list is not a private copy of the caller's sequence in its order (the caller's own list object is kept, or the order is changed): add_step / remove_step edit it in place, so pipelines declared from one list object change each other's stages", node=s)
        n += 1
    rep.floor("SequentialModel.__init__ stage-list assignments", len(asg), 1)
    cb = repo.cls(BASE, "ConfigurableModel")
    add = repo.method(cb, "add_step")
    ok = any(match(n_, "self.steps.append(step)") is not None for n_ in ast.walk(add.node))
    wrong = any(isinstance(n_, ast.Call) and attr_chain(n_.func) == "self.steps.insert" for n_ in ast.walk(add.node))
    guard = _append_guard(add, "self.steps.append")
    if ok and not wrong and guard is not None:
        # the append is there but only runs under a condition: every declared stage must be appended, each declaration once
        dup = any(isinstance(c_, ast.Compare) and any(isinstance(o_, (ast.In, ast.NotIn, ast.Is, ast.IsNot, ast.Eq, ast.NotEq)) for o_ in c_.ops) and "self.steps" in unparse(c_) for c_ in ast.walk(guard.test))
        if dup:
            rep.violation("SEQ-LIST", add, f"add_step appends only if {unparse(guard.test)[:70]}", "a stage that is declared a second time (the same object / an equal stage already in the list) is silently dropped: the pipeline no longer runs the declared sequence, each declared entry once, and later remove_step indices refer to a shorter list than the declared one", node=guard)
        else:
            rep.undecided("SEQ-LIST", add, f"add_step appends only if {unparse(guard.test)[:70]}", "conditional append", node=guard)
    else:
        rep.shape(ok, wrong, "SEQ-LIST", add, "add_step appends to self.steps", "new stage goes to the end of the declared order", "add_step does not append the new stage at the end of self.steps")
    rem = repo.method(cb, "remove_step")
    ok = any(match(n_, "self.steps.pop(index)") is not None for n_ in ast.walk(rem.node)) or any(match(n_, "del self.steps[index]") is not None for n_ in ast.walk(rem.node))
    pops = [n_ for n_ in ast.walk(rem.node) if isinstance(n_, ast.Call) and attr_chain(n_.func) == "self.steps.pop"]
    wrong = any(not (p_.args and unparse(p_.args[0]) == "index") for p_ in pops) or any(isinstance(n_, ast.Call) and attr_chain(n_.func) == "self.steps.remove" for n_ in ast.walk(rem.node))
    rep.shape(ok, wrong, "SEQ-LIST", rem, "remove_step pops self.steps[index]", "exactly the indexed stage is removed", "remove_step does not remove exactly self.steps[index] (list.remove deletes the FIRST equal stage: when a stage object occurs more than once another occurrence disappears and the declared order changes)")
    return n + 2


# ---------------------------------------------------------------------------
# STAGE-LIST
# ---------------------------------------------------------------------------

def rule_stage_lists(repo: Repo, rep: Report, only=None, rule: str = "STAGE-LIST") -> int:
    n = 0
    for file, cname, want in ((DJ, "DeepJSCCModel", ["encoder", "constraint", "channel", "decoder"]), (CC, "ChannelCodeModel", ["encoder", "modulator", "constraint", "channel", "demodulator", "decoder"])):
        if only is not None and cname not in only:
            continue
        ci = repo.cls(file, cname)
        init = repo.method(ci, "__init__")
        if not ci.is_subclass_of("SequentialModel"):
            rep.violation(rule, init, f"{cname} bases: {ci.base_names}", "the model no longer inherits the sequential forward()")
            continue
        if "forward" in ci.methods:
            ov = ci.methods["forward"]
            reads_steps = any(isinstance(x, ast.Attribute) and attr_chain(x) == "self.steps" for x in ast.walk(ov.node))
            delegates = any(isinstance(c, ast.Call) and unparse(c.func) in ("super().forward", "SequentialModel.forward") for c in ast.walk(ov.node))
            if not reads_steps and not delegates:
                rep.violation(rule, ov, f"{cname}.forward overrides the sequential loop without reading self.steps", "the override calls fixed components and never looks at the stage list that add_step / remove_step edit: a stage added after construction never runs and a removed one still does (the pipeline is no longer the declared list)", node=ov.node)
            else:
                rep.undecided(rule, ov, f"{cname}.forward overrides the sequential loop", "an overriding forward is not analysed by this rule")
            continue
        from ..astutil import Inliner

        inl = Inliner(init)
        sup = [c for c in ast.walk(init.node) if isinstance(c, ast.Call) and match(c.func, "super().__init__") is not None]
        if len(sup) != 1 or not sup[0].args:
            rep.undecided(rule, init, f"{cname}: super().__init__ call", "not found or without positional stage list")
            continue
        lst = inl.inline(sup[0].args[0])
        if not isinstance(lst, (ast.List, ast.Tuple)):
            rep.undecided(rule, init, f"{cname}: stage list {unparse(lst)}", "not a list display")
            continue
        got = [e.id if isinstance(e, ast.Name) else unparse(e) for e in lst.elts]
        params = set(init.params)
        n += 1
        if got == want and all(g in params for g in got):
            rep.ok(rule, init, f"{cname} stages = [{', '.join(got)}]", "declared order, by parameter identity", node=sup[0])
        else:
            rep.violation(rule, init, f"{cname} stages = [{', '.join(got)}]", f"the declared pipeline is [{', '.join(want)}]", node=sup[0])
        # the mutable list must not be reassigned afterwards
        later = [s for s in stmts_of(init.body) if isinstance(s, (ast.Assign, ast.AugAssign)) and any(attr_chain(t) == "self.steps" for t in (s.targets if isinstance(s, ast.Assign) else [s.target]))]
        for s in later:
            rep.violation(rule, init, s, "the stage list handed to the sequential base class is overwritten", node=s)
        # attributes published under the stage names must be the same objects
        for nm in want:
            a = [s for s in stmts_of(init.body) if isinstance(s, ast.Assign) and any(attr_chain(t) == f"self.{nm}" for t in s.targets)]
            for s in a:
                rep.shape(isinstance(s.value, ast.Name) and s.value.id == nm, isinstance(s.value, ast.Name) and s.value.id in want and s.value.id != nm, rule, init, s, "published attribute is the stage itself", f"self.{nm} is not the `{nm}` stage that runs in the pipeline", node=s)
    return n


# ---------------------------------------------------------------------------
# PROVENANCE
# ---------------------------------------------------------------------------

def stage_resolver(stage_attrs: Dict[str, str], list_attrs: Dict[str, str]):
    """stage_attrs: 'self.encoder' -> 'enc'; list_attrs: 'self.encoders' -> 'enc' (elements are stages)."""

    def resolve(node: ast.Call, env, interp: Provenance) -> Optional[str]:
        ch = attr_chain(node.func)
        if ch in stage_attrs:
            return stage_attrs[ch]
        if isinstance(node.func, ast.Name):
            v = env.get(node.func.id)
            if v:
                tags = set()
                for t in v:
                    base = t.split("[")[0]
                    if base in list_attrs:
                        tags.add(list_attrs[base])
                    elif t in stage_attrs:
                        tags.add(stage_attrs[t])
                    elif t.startswith("each(") and t[5:-1] in list_attrs:
                        tags.add(list_attrs[t[5:-1]])
                    else:
                        tags.add(None)
                if len(tags) == 1 and None not in tags:
                    return tags.pop()
        if isinstance(node.func, ast.Subscript):
            b = attr_chain(node.func.value)
            if b in list_attrs:
                return list_attrs[b]
        return None

    return resolve


def atoms_config(atoms: Dict[str, bool]):
    from .c15 import tv_eval

    def cfg(test, env):
        return tv_eval(test, atoms)

    return cfg


def judge_terms(rep: Report, fi: FuncInfo, what: str, got, want: set, node=None, interp: Optional[Provenance] = None) -> None:
    got = set(got or ())
    if interp is not None and interp.overflow or "?" in got:
        rep.undecided("PROVENANCE", fi, what, f"term too large / unknown: {sorted(got)[:3]}", node=node)
        return
    import re as _re

    vocab = {m_ for t_ in want for m_ in _re.findall(r"([A-Za-z_\u03c6][\w.]*)\(", t_)}
    alien = sorted({m_ for t_ in got for m_ in _re.findall(r"([A-Za-z_\u03c6][\w.]*)\(", t_)} - vocab)
    if got == want:
        rep.ok("PROVENANCE", fi, f"{what} = {' | '.join(sorted(got))}", "stages applied once each, in the declared order", node=node)
    elif alien:
        # the term contains applications the analysis could not identify with a declared stage (a stage fetched through a
        # variable, a loop join): no verdict rather than a composition mismatch
        rep.undecided("PROVENANCE", fi, what, f"the returned term applies {alien}, which the analysis cannot identify with a declared stage: {sorted(got)[:2]}", node=node)
    else:
        rep.violation("PROVENANCE", fi, f"{what} = {' | '.join(sorted(got)) or '(no stage applied)'}", f"declared composition: {' | '.join(sorted(want))}", node=node)


def rule_mac(repo: Repo, rep: Report) -> int:
    fi = repo.func(MAC, "MultipleAccessChannelModel.forward")
    res = stage_resolver({"self.power_constraint": "pc", "self.channel": "ch"}, {"self.encoders": "enc", "self.decoders": "dec"})
    sup = "sum[dim=0](stack(list(enc(x[i],*,**))))"
    rx = f"ch(pc({sup}),*,**)"
    n = 0
    for joint, want in ((True, {f"dec({rx},*,**)"}), (False, {f"cat[dim=1](list(dec({rx},*,**)))"})):
        interp = Provenance(fi, repo, res, config=atoms_config({"is_joint_decoder": joint, "len(self.decoders) == 1": joint}))
        env = {"x": single("x"), "args": NONE, "kwargs": NONE}
        interp.run(env)
        got = set()
        for v, r, _ in interp.returns:
            got |= set(v or ())
        judge_terms(rep, fi, f"returned value ({'joint' if joint else 'separate'} decoders)", got, want, node=fi.node, interp=interp)
        n += 1
        # multiplicities: constraint and channel are called outside any loop, exactly once each
        for tag, name in (("pc", "power constraint"), ("ch", "channel")):
            calls = [(t, nd, d) for (t, nd, d) in interp.stage_calls if t == tag]
            ok = len(calls) == 1 and calls[0][2] == 0
            rep.check(ok, "PROVENANCE", fi, f"{name} calls: {len(calls)} (loop depth {[c[2] for c in calls]})", f"one {name} use for the superimposed signal", f"the {name} must be used exactly once, outside the per-user loops", node=calls[0][1] if calls else fi.node)
            n += 1
        enc_calls = [(t, nd, d) for (t, nd, d) in interp.stage_calls if t == "enc"]
        ok = len(enc_calls) == 1 and enc_calls[0][2] == 1
        rep.check(ok, "PROVENANCE", fi, f"encoder call sites: {len(enc_calls)} in loops of depth {[c[2] for c in enc_calls]}", "one encoder call per user inside the user loop", "encoders must be called once per user", node=enc_calls[0][1] if enc_calls else fi.node)
        n += 1
    # the user loop covers all users
    loops = [s for s in stmts_of(fi.body) if isinstance(s, ast.For) and any(isinstance(c, ast.Call) and "encoder" in unparse(c.func) for c in ast.walk(s))]
    for lp in loops[:1]:
        ok = match(lp.iter, "range(self.num_users)") is not None or match(lp.iter, "range(len(x))") is not None
        wrong = isinstance(lp.iter, ast.Call) and call_name(lp.iter) == "range" and (len(lp.iter.args) != 1 or isinstance(lp.iter.args[0], (ast.BinOp, ast.Constant)))
        rep.shape(ok, wrong, "PROVENANCE", fi, f"user loop: for {unparse(lp.target)} in {unparse(lp.iter)}", "all users are encoded", "the encoding loop does not range over all users", node=lp)
        bad = [s for s in stmts_of(lp.body) if isinstance(s, (ast.Break, ast.Continue))]
        rep.check(not bad, "PROVENANCE", fi, "user loop has no break/continue", "no user is skipped", "a user can be skipped", node=bad[0] if bad else lp)
        n += 2
    rep.floor("MAC user loops", len(loops), 1)
    return n


def rule_wz(repo: Repo, rep: Report) -> int:
    fi = repo.func(WZ, "WynerZivModel.forward")
    res = stage_resolver({"self.encoder": "enc", "self.quantizer": "q", "self.syndrome_generator": "syn", "self.constraint": "pc", "self.channel": "ch", "self.decoder": "dec", "self.correlation_model": "corr"}, {})
    n = 0
    for present in (True, False):
        for given in (True, False):
            atoms = {"self.quantizer is not None": present, "self.syndrome_generator is not None": present, "self.constraint is not None": present, "side_info is None": not given, "self.correlation_model is None": False}
            interp = Provenance(fi, repo, res, config=atoms_config(atoms))
            env = {"source": single("source"), "side_info": single("side_info") if given else single("None"), "args": NONE, "kwargs": NONE}
            interp.run(env)
            got = set()
            for v, r, _ in interp.returns:
                got |= set(v or ())
            tx = "pc(syn(q(enc(source,*,**),*,**),*,**))" if present else "enc(source,*,**)"
            si = "side_info" if given else "corr(source)"
            want = {f"dec(ch({tx},*,**),{si},*,**)"}
            judge_terms(rep, fi, f"returned value (optional stages {'present' if present else 'absent'}, side info {'given' if given else 'generated'})", got, want, node=fi.node, interp=interp)
            n += 1
    return n


def feedback_trace_evaluated(repo: Repo):
    """FeedbackChannelModel.forward evaluated with recording stand-ins for its six stages (own interpreter; every call is
    logged with the tags of its arguments) for 1, 2 and 3 rounds, with positional and keyword extras forwarded, and with a
    processor that returns a state / returns None: the logged call sequence must be, round by round, [processor(previous
    feedback) only when a previous round exists], encoder(input[, state]), forward channel, decoder, feedback
    generator(decoded, input), feedback channel - nothing before, between or after - and the returned record must hold the
    per-round values.  Returns (status, detail) or (None, reason)."""
    from ..constfold import PySeq, Unfoldable
    from ..frag import FragRaise, FragReturn, run_fragment

    fi = repo.func(FB, "FeedbackChannelModel.forward")
    ci = fi.cls
    funcs = {f"self.{nm}": m.node for nm, m in ci.methods.items() if nm not in ("forward", "__init__")} if ci is not None else {}
    stages = ("encoder", "forward_channel", "decoder", "feedback_generator", "feedback_channel", "feedback_processor")
    data_param = next((p_ for p_ in fi.params if p_ not in ("self", "args", "kwargs")), "input_data")
    runs = 0
    for k in (1, 2, 3):
        for extras, kwextras in (([], {}), (["a1"], {"snr": "s9"})):
            for proc_none in (False, True):
                trace = []

                def mk(tag, trace=trace, proc_none=proc_none):
                    def f(*a, **kw):
                        trace.append((tag, tuple(a), tuple(sorted(kw.items()))))
                        n_ = sum(1 for t in trace if t[0] == tag)
                        return None if (tag == "feedback_processor" and proc_none) else f"{tag}#{n_}"

                    return f

                ctors = {f"self.{s_}": mk(s_) for s_ in stages}
                attrs = {"self.max_iterations": k}
                attrs.update({f"self.{s_}": f"<{s_}>" for s_ in stages})
                try:
                    run_fragment(fi.body, {data_param: "x", "args": PySeq(list(extras)), "kwargs": dict(kwextras)}, attrs, ctors=ctors, funcs=funcs, materialise=True, max_steps=200000, attrs_live=True)
                    return None, "no value returned"
                except FragReturn as ret:
                    got = ret.value
                except FragRaise:
                    return VIOLATION, f"{k} round(s): forward raises with every stage configured"
                except (Unfoldable, TypeError, ValueError, KeyError, IndexError) as exc:
                    return None, f"not evaluable ({exc})"
                want, fb = [], None
                kwt = tuple(sorted(kwextras.items()))
                for i in range(k):
                    state = None
                    if i > 0:
                        want.append(("feedback_processor", (fb, *extras), kwt))
                        state = None if proc_none else f"feedback_processor#{i}"
                    want.append(("encoder", ("x", *extras), tuple(sorted(dict(kwextras, **({"state": state} if state is not None else {})).items()))))
                    want.append(("forward_channel", (f"encoder#{i + 1}", *extras), kwt))
                    want.append(("decoder", (f"forward_channel#{i + 1}", *extras), kwt))
                    want.append(("feedback_generator", (f"decoder#{i + 1}", "x", *extras), kwt))
                    want.append(("feedback_channel", (f"feedback_generator#{i + 1}", *extras), kwt))
                    fb = f"feedback_channel#{i + 1}"
                if trace != want:
                    j = next((t for t in range(min(len(trace), len(want))) if trace[t] != want[t]), min(len(trace), len(want)))
                    got_c = f"{trace[j][0]}{trace[j][1]}" if j < len(trace) else "(nothing more)"
                    want_c = f"{want[j][0]}{want[j][1]}" if j < len(want) else "(nothing more)"
                    return VIOLATION, f"{k} round(s){', processor returning None' if proc_none else ''}: call {j + 1} of the run is {got_c} where the declared schedule has {want_c}; the whole run calls {[t[0] for t in trace]} (declared: per round encoder, forward channel, decoder, feedback generator, feedback channel, and the feedback processor only between two rounds - {k - 1} time(s) for {k} round(s))"
                if not isinstance(got, dict) or got.get("final_output") != f"decoder#{k}" or list(got.get("feedback_history") or []) != [f"feedback_channel#{i + 1}" for i in range(k)]:
                    return VIOLATION, f"{k} round(s): the returned record is {str(got)[:200]}; final_output must be the last round's decoder output and feedback_history the {k} feedback-channel outputs in order"
                its = got.get("iterations")
                if not (isinstance(its, list) and len(its) == k and all(isinstance(r_, dict) and r_.get("encoded") == f"encoder#{i + 1}" and r_.get("received") == f"forward_channel#{i + 1}" and r_.get("decoded") == f"decoder#{i + 1}" and r_.get("feedback") == f"feedback_channel#{i + 1}" for i, r_ in enumerate(its))):
                    return VIOLATION, f"{k} round(s): the per-round records are {str(its)[:200]}: round i must hold that round's encoded / received / decoded / feedback values"
                runs += 1
    return OK, f"{runs} runs (1-3 rounds; with and without forwarded extras; processor returning a state / None): the logged stage calls and their arguments equal the declared schedule call by call, and the returned record holds each round's values"


def rule_feedback(repo: Repo, rep: Report) -> int:
    fi = repo.func(FB, "FeedbackChannelModel.forward")
    tst_, td_ = feedback_trace_evaluated(repo)
    if tst_ is not None:
        rep.add("PROVENANCE", fi, "forward evaluated with recording stand-ins for the six stages (1-3 rounds)", tst_, td_, node=fi.node)
        # a data-dependent exit can agree with the schedule on the stand-in values: every loop of the function stays free of
        # break / continue / return / raise
        exits = [x_ for l_ in ast.walk(fi.node) if isinstance(l_, (ast.For, ast.While)) for b_ in l_.body for x_ in ast.walk(b_) if isinstance(x_, (ast.Break, ast.Return, ast.Continue, ast.Raise))]
        rep.check(not exits, "ROUNDS", fi, "iteration loop has no break/continue/return", "no early exit: every round runs all five stages", f"round can be cut short by `{unparse(exits[0]) if exits else ''}`", node=exits[0] if exits else fi.node)
        return 14  # the obligations of the structural reading below (rounds, exits, two round kinds x term and five call counts) are all decided by the logged runs
    res = stage_resolver({"self.encoder": "enc", "self.forward_channel": "fch", "self.decoder": "dec", "self.feedback_generator": "fbgen", "self.feedback_channel": "fbch", "self.feedback_processor": "proc"}, {})
    n = 0
    loops = [s for s in fi.body if isinstance(s, ast.For)]
    if len(loops) != 1:
        rep.undecided("PROVENANCE", fi, "iteration loop", f"{len(loops)} top-level loops")
        return 0
    lp = loops[0]
    ok = match(lp.iter, "range(self.max_iterations)") is not None
    wrong = isinstance(lp.iter, ast.Call) and call_name(lp.iter) == "range" and (len(lp.iter.args) != 1 or isinstance(lp.iter.args[0], (ast.BinOp, ast.Constant)))
    rep.shape(ok, wrong, "ROUNDS", fi, f"for {unparse(lp.target)} in {unparse(lp.iter)}", "exactly max_iterations rounds", "the number of rounds is not range(self.max_iterations)", node=lp)
    bad = [s for s in stmts_of(lp.body) if isinstance(s, (ast.Break, ast.Return, ast.Continue, ast.Raise))]
    rep.check(not bad, "ROUNDS", fi, "iteration loop has no break/continue/return", "no early exit: every round runs all five stages", f"round can be cut short by `{unparse(bad[0]) if bad else ''}`", node=bad[0] if bad else lp)
    n += 2
    ivar = unparse(lp.target)
    # the local that carries the processed feedback into the encoder: whatever name receives the processor's result
    state_names = {t_.id for s_ in ast.walk(lp) if isinstance(s_, ast.Assign) and any(isinstance(c_, ast.Call) and attr_chain(c_.func) == "self.feedback_processor" for c_ in ast.walk(s_.value)) for t_ in s_.targets if isinstance(t_, ast.Name)} or {"encoder_state"}
    for first in (True, False):
        atoms = {f"{ivar} > 0": not first, f"{ivar} == 0": first, f"{ivar} >= 1": not first, f"{ivar} < 1": first}
        for sn_ in state_names:
            atoms[f"{sn_} is not None"] = not first
            atoms[f"{sn_} is None"] = first
        interp = Provenance(fi, repo, res, config=atoms_config(atoms))
        env = {"input_data": single("in"), "args": NONE, "kwargs": NONE}
        interp.run(env)
        info = [li for li in getattr(interp, "loop_info", []) if li["node"] is lp]
        if not info or info[-1]["end_env"] is None:
            rep.undecided("PROVENANCE", fi, "iteration body", "loop body not analysed")
            continue
        end = info[-1]["end_env"]
        if first:
            enc = "enc(in,*,**)"
        else:
            enc = None
        # the round's results, whatever the locals are called: the value whose outermost stage is the decoder / the feedback channel
        def by_outer(tag):
            out_ = set()
            for k_, v_ in end.items():
                if isinstance(v_, (set, frozenset)) and v_ and all(isinstance(t_, str) and t_.startswith(tag + "(") for t_ in v_):
                    out_ |= set(v_)
            return out_

        dec_terms = set(end.get("decoded") or ()) or by_outer("dec")
        fb_terms = set(end.get("feedback") or ()) or by_outer("fbch")
        carried = {t_.id for s_ in ast.walk(lp) if isinstance(s_, ast.Assign) and isinstance(s_.value, ast.Call) and attr_chain(s_.value.func) == "self.feedback_channel" for t_ in s_.targets if isinstance(t_, ast.Name)} or {"feedback"}
        fbsrc = {f"φ({nm_})" for nm_ in carried} | {"None"}
        want_dec = set()
        want_fb = set()
        if first:
            want_dec = {"dec(fch(enc(in,*,**),*,**),*,**)"}
        else:
            for f0 in fbsrc:
                want_dec.add(f"dec(fch(enc(in,state=proc({f0},*,**),*,**),*,**),*,**)")
        for d in want_dec:
            want_fb.add(f"fbch(fbgen({d},in,*,**),*,**)")
        # the previous feedback is either φ(feedback) or (abstractly) the initial None
        got_ok = dec_terms and dec_terms <= want_dec and fb_terms and fb_terms <= want_fb
        what = f"round {'0' if first else 'i>0'}: decoded = {' | '.join(sorted(dec_terms))}; feedback = {' | '.join(sorted(fb_terms))}"
        if interp.overflow or "?" in dec_terms | fb_terms:
            rep.undecided("PROVENANCE", fi, what, "term overflow")
        elif got_ok:
            rep.ok("PROVENANCE", fi, what, "encoder -> forward channel -> decoder -> feedback generator -> feedback channel, processor first when i > 0", node=lp)
        else:
            rep.violation("PROVENANCE", fi, what, f"declared round: decoded = {' | '.join(sorted(want_dec))}; feedback = {' | '.join(sorted(want_fb))}", node=lp)
        n += 1
        for tag in ("enc", "fch", "dec", "fbgen", "fbch"):
            calls = [c for c in interp.stage_calls if c[0] == tag]
            rep.check(len(calls) == 1 and calls[0][2] == 1, "PROVENANCE", fi, f"round {'0' if first else 'i>0'}: `{tag}` called {len(calls)} time(s) per round", "exactly once per round", f"stage `{tag}` must run exactly once per round", node=calls[0][1] if calls else lp)
            n += 1
    return n


# ---------------------------------------------------------------------------
# ORDER-TAINT (ParallelModel)
# ---------------------------------------------------------------------------

COMPLETION_ITERS = ("as_completed", "wait", "imap_unordered")


def rule_parallel(repo: Repo, rep: Report) -> int:
    fi = repo.func(PAR, "ParallelModel.forward")
    set_parents(fi.node)
    n = 0
    # completion-ordered containers: written (subscript store / append) inside a loop over as_completed(...)
    tainted: Dict[str, ast.AST] = {}
    comp_loops = []
    for lp in [s for s in stmts_of(fi.body) if isinstance(s, ast.For)]:
        if any(isinstance(c, ast.Call) and (call_name(c) or "").split(".")[-1] in COMPLETION_ITERS for c in ast.walk(lp.iter)):
            comp_loops.append(lp)
            for s in stmts_of(lp.body):
                if isinstance(s, ast.Assign):
                    for t in s.targets:
                        if isinstance(t, ast.Subscript) and isinstance(t.value, ast.Name):
                            tainted[t.value.id] = s
                if isinstance(s, ast.Expr) and isinstance(s.value, ast.Call) and isinstance(s.value.func, ast.Attribute) and s.value.func.attr in ("append", "extend", "insert", "add") and isinstance(s.value.func.value, ast.Name):
                    tainted[s.value.func.value.id] = s
    # re-ordering: an assignment `c = <comprehension/loop over self.step_configs>` cleans c
    def iterates_declared(node: ast.AST) -> bool:
        for g in ast.walk(node):
            if isinstance(g, ast.comprehension) and attr_chain(g.iter) == "self.step_configs":
                return True
        return False

    # forward scan (source order) of the assignments after the completion loops: a name is
    # *completion-ordered* at a line if its latest definition before that line is tainted
    last_loop_end = max([lp.end_lineno for lp in comp_loops], default=0)
    defs: List[tuple] = []  # (lineno, name, tainted?, stmt)
    for nm, st in tainted.items():
        defs.append((st.lineno, nm, True, st))

    def state_at(name: str, lineno: int):
        best = None
        for (ln, nm, tn, st) in defs:
            if nm == name and ln < lineno and (best is None or ln >= best[0]):
                best = (ln, tn, st)
        return best

    def uses_tainted(expr: ast.AST, lineno: int) -> Optional[str]:
        if iterates_declared(expr):
            return None
        for x in ast.walk(expr):
            if isinstance(x, ast.Name):
                stt = state_at(x.id, lineno)
                if stt is None or not stt[1]:
                    continue
                par = getattr(x, "_parent", None)
                if isinstance(par, ast.Subscript) and par.value is x:
                    continue  # keyed access does not depend on order
                return x.id
        return None

    later = sorted([s for s in stmts_of(fi.body) if isinstance(s, ast.Assign) and len(s.targets) == 1 and isinstance(s.targets[0], ast.Name) and s.lineno > last_loop_end], key=lambda s: s.lineno)
    for s in later:
        nm = s.targets[0].id
        src = uses_tainted(s.value, s.lineno)
        defs.append((s.lineno, nm, src is not None, s))

    def order_tainted_use(expr: ast.AST, lineno: int) -> Optional[str]:
        return uses_tainted(expr, lineno)

    derived = {nm: st for (ln, nm, tn, st) in defs if tn}

    sinks = []
    for c in ast.walk(fi.node):
        if isinstance(c, ast.Call) and attr_chain(c.func) == "self.aggregator":
            sinks.append(("aggregator input", c, c.args[0] if c.args else None))
    for r in returns_of(fi.node):
        if r.value is not None and not (isinstance(r.value, ast.Call) and attr_chain(r.value.func) == "self.aggregator") and not isinstance(r.value, ast.Dict):
            sinks.append(("returned mapping", r, r.value))
    for what, node, expr in sinks:
        if expr is None:
            continue
        bad = order_tainted_use(expr, node.lineno)
        n += 1
        if bad:
            rep.violation("ORDER-TAINT", fi, f"{what}: {unparse(expr)}", f"`{bad}` is filled inside a loop over as_completed(): its order is the completion order of the threads, not the declared branch order", trace=[f"filled at: {unparse(derived[bad])}"], node=node)
        else:
            rep.ok("ORDER-TAINT", fi, f"{what}: {unparse(expr)}", "rebuilt by iterating self.step_configs (declared order) / keyed access only", node=node)
    rep.floor("ParallelModel order sinks (aggregator, return)", n, 2)
    # one submission per declared step, keyed by the step's own name
    subs = [c for c in ast.walk(fi.node) if isinstance(c, ast.Call) and isinstance(c.func, ast.Attribute) and c.func.attr == "submit"]
    if len(subs) != 1:
        rep.undecided("ORDER-TAINT", fi, "executor.submit", f"{len(subs)} submit sites")
    else:
        sub = subs[0]
        comp = next((a for a in ancestors(sub) if isinstance(a, (ast.DictComp, ast.ListComp, ast.For))), None)
        it = None
        if isinstance(comp, (ast.DictComp, ast.ListComp)):
            it = comp.generators[0].iter if len(comp.generators) == 1 and not comp.generators[0].ifs else None
        elif isinstance(comp, ast.For):
            it = comp.iter
        rep.check(it is not None and attr_chain(it) == "self.step_configs", "ORDER-TAINT", fi, f"one submission per declared step: {unparse(comp)[:120] if comp is not None else unparse(sub)}", "every declared step is submitted once (no filter)", "submissions do not range over all of self.step_configs", node=sub)
        n += 1
        if isinstance(comp, ast.DictComp):
            tgt = comp.generators[0].target
            ok = isinstance(tgt, ast.Tuple) and len(tgt.elts) == 2 and isinstance(comp.value, ast.Name) and isinstance(tgt.elts[0], ast.Name) and comp.value.id == tgt.elts[0].id and isinstance(sub.args[0], ast.Name) and isinstance(tgt.elts[1], ast.Name) and sub.args[0].id == tgt.elts[1].id
            rep.check(ok, "ORDER-TAINT", fi, f"future -> name map: {unparse(comp.key)[:60]}: {unparse(comp.value)}", "each future is keyed by its own step's name and runs that step's callable", "a future is not associated with its own step's name/callable", node=comp)
            n += 1
        # the submitted call receives the input and the forwarded arguments
        star = any(isinstance(a, ast.Starred) for a in sub.args)
        dstar = any(k.arg is None for k in sub.keywords)
        ok = len(sub.args) >= 2 and isinstance(sub.args[1], ast.Name) and sub.args[1].id == "input_data" and star and dstar
        rep.check(ok, "ORDER-TAINT", fi, f"submitted call: {unparse(sub)}", "every branch receives the same input and the forwarded arguments", "branches do not all receive (input_data, *args, **kwargs)", node=sub)
        n += 1
    # results stored under the step's own name
    for lp in comp_loops:
        stores = [s for s in stmts_of(lp.body) if isinstance(s, ast.Assign) and isinstance(s.targets[0], ast.Subscript) and isinstance(s.value, ast.Call) and isinstance(s.value.func, ast.Attribute) and s.value.func.attr == "result"]
        for s in stores:
            key = s.targets[0].slice
            fut = s.value.func.value
            # key must be future_to_step[future]
            from ..astutil import Inliner

            k_inl = Inliner(fi, allow_loop_defs=True).inline(key)
            m = match(k_inl, "_M[_F]")
            ok = m is not None and isinstance(fut, ast.Name) and isinstance(m["_F"], ast.Name) and m["_F"].id == fut.id
            rep.check(ok, "ORDER-TAINT", fi, f"result stored as {unparse(s)}", "a branch's result is stored under that branch's own name", "a result may be stored under another branch's name", node=s)
            n += 1
    ci = repo.cls(PAR, "ParallelModel")
    add = repo.method(ci, "add_step")
    ok = any(match(x, "self.step_configs.append((name, step))") is not None for x in ast.walk(add.node))
    wrong = any(isinstance(x, ast.Call) and attr_chain(x.func) == "self.step_configs.insert" for x in ast.walk(add.node))
    guard = _append_guard(add, "self.step_configs.append")
    if ok and not wrong and guard is not None:
        dup = any(isinstance(c_, ast.Compare) and any(isinstance(o_, (ast.In, ast.NotIn, ast.Is, ast.IsNot, ast.Eq, ast.NotEq)) for o_ in c_.ops) and ("self.step_configs" in unparse(c_) or "step" in {x_.id for x_ in ast.walk(c_) if isinstance(x_, ast.Name)}) for c_ in ast.walk(guard.test))
        if dup:
            rep.violation("SEQ-LIST", add, f"add_step appends only if {unparse(guard.test)[:70]}", "a branch declared with a stage that is already present is silently dropped: the parallel model no longer runs every declared branch", node=guard)
        else:
            rep.undecided("SEQ-LIST", add, f"add_step appends only if {unparse(guard.test)[:70]}", "conditional append", node=guard)
    else:
        rep.shape(ok, wrong, "SEQ-LIST", add, "add_step appends (name, step) to self.step_configs", "declared order = insertion order", "add_step does not append (name, step) at the end")
    return n + 1


def _append_guard(fi: FuncInfo, chain: str):
    """the innermost `if` whose body (not a raising guard's fall-through) holds the append call, None when the append runs on
    every path that does not raise"""
    set_parents(fi.node)
    for c_ in ast.walk(fi.node):
        if isinstance(c_, ast.Call) and attr_chain(c_.func) == chain:
            for a_ in ancestors(c_):
                if a_ is fi.node:
                    break
                if isinstance(a_, (ast.If, ast.While, ast.For)):
                    if isinstance(a_, ast.If):
                        # `if cond: raise ... else: append` is a validation, not a condition on the append
                        other = a_.orelse if any(c_ is x for s_ in a_.body for x in ast.walk(s_)) else a_.body
                        if other and all(isinstance(s_, ast.Raise) for s_ in other):
                            continue
                        return a_
                    return None
    return None


# ---------------------------------------------------------------------------
# FIRST-MATCH (BranchingModel)
# ---------------------------------------------------------------------------

def rule_branching(repo: Repo, rep: Report) -> int:
    fi = repo.func(BR, "BranchingModel.forward")
    ci = repo.cls(BR, "BranchingModel")
    set_parents(fi.node)
    loops = [s for s in fi.body if isinstance(s, ast.For)]
    if len(loops) != 1:
        rep.undecided("FIRST-MATCH", fi, "branch loop", f"{len(loops)} top-level loops")
        return 0
    lp = loops[0]
    n = 0
    ok = match(lp.iter, "self.branches.items()") is not None
    it_txt = unparse(lp.iter)
    ok = ok or it_txt in ("list(self.branches.items())", "tuple(self.branches.items())")
    wrong = any(k in it_txt for k in ("reversed(", "sorted(", "[::-1]", "set("))
    rep.shape(ok, wrong, "FIRST-MATCH", fi, f"for {unparse(lp.target)} in {unparse(lp.iter)}", "conditions are evaluated in registration (dict insertion) order", "branches are not visited in registration order", node=lp)
    n += 1
    tgt = lp.target
    names = [unparse(e) for e in ast.walk(tgt) if isinstance(e, ast.Name)]
    cond_name = names[1] if len(names) >= 3 else None
    model_name = names[2] if len(names) >= 3 else None
    # the return sits inside `if <condition result>` and calls this branch's model on x
    ifs = [s for s in lp.body if isinstance(s, ast.If)]
    ret_ifs = [s for s in ifs if any(isinstance(r, ast.Return) for r in s.body)]
    if len(ret_ifs) != 1:
        rep.violation("FIRST-MATCH", fi, f"loop body has {len(ret_ifs)} returning condition(s)", "the first branch whose condition holds must run and its output be returned immediately", node=lp)
        return n + 1
    ri = ret_ifs[0]
    from ..astutil import Inliner

    # condition_result derives from condition(x) by bool()/item() only
    cond_defs = [s for s in stmts_of(lp.body) if isinstance(s, ast.Assign) and isinstance(s.targets[0], ast.Name) and s.targets[0].id in {x.id for x in ast.walk(ri.test) if isinstance(x, ast.Name)}]
    roots = set()
    for s in cond_defs:
        for c in ast.walk(s.value):
            if isinstance(c, ast.Call) and isinstance(c.func, ast.Name) and c.func.id == cond_name:
                roots.add(unparse(c))
    negated = isinstance(ri.test, ast.UnaryOp) and isinstance(ri.test.op, ast.Not)
    ok = (roots == {f"{cond_name}(x)"} or match(ri.test, f"{cond_name}(x)") is not None) and not negated
    wrong_sel = negated
    if not ok and not negated:
        # the test may reach the condition through truthiness-preserving wrappers: bool(..), .item(), named temporaries
        # and helper methods of the class whose every return is bool(<its argument>[.item()])
        def truthy_helper(name: str) -> bool:
            h = ci.find_method(name) if ci is not None else None
            if h is None:
                return False
            ps = [p_ for p_ in h.params if p_ not in ("self", "cls")]
            rets_ = [r_ for r_ in ast.walk(h.node) if isinstance(r_, ast.Return)]
            return len(ps) == 1 and bool(rets_) and all(r_.value is not None and (match(r_.value, f"bool({ps[0]})") is not None or match(r_.value, f"bool({ps[0]}.item())") is not None) for r_ in rets_)

        def unwrap(e: ast.AST, depth: int = 0):
            """-> ('cond', arg) | ('neg', ..) | None"""
            if depth > 6:
                return None
            if isinstance(e, ast.Call) and isinstance(e.func, ast.Name) and e.func.id == cond_name:
                return ("cond", e)
            if isinstance(e, ast.Call) and isinstance(e.func, ast.Name) and e.func.id == "bool" and len(e.args) == 1:
                return unwrap(e.args[0], depth + 1)
            if isinstance(e, ast.Call) and isinstance(e.func, ast.Attribute) and e.func.attr == "item" and not e.args:
                return unwrap(e.func.value, depth + 1)
            if isinstance(e, ast.Call) and isinstance(e.func, ast.Attribute) and attr_chain(e.func.value) in ("self", "cls", type(None)) and len(e.args) == 1 and truthy_helper(e.func.attr):
                return unwrap(e.args[0], depth + 1)
            if isinstance(e, ast.UnaryOp) and isinstance(e.op, ast.Not):
                r_ = unwrap(e.operand, depth + 1)
                return ("neg", r_) if r_ else None
            if isinstance(e, ast.Name):
                ds = [s_.value for s_ in cond_defs if s_.targets[0].id == e.id]
                rs = [unwrap(d_, depth + 1) for d_ in ds]
                if rs and all(r_ is not None and r_[0] == "cond" for r_ in rs):
                    return rs[0]
            return None

        u = unwrap(ri.test)
        if u is not None and u[0] == "cond":
            call = u[1]
            if len(call.args) >= 1 and isinstance(call.args[0], ast.Name) and call.args[0].id == "x":
                ok = True
            else:
                wrong_sel = True
        elif u is not None and u[0] == "neg":
            wrong_sel = True
    rep.shape(ok, wrong_sel, "FIRST-MATCH", fi, f"branch taken when: {unparse(ri.test)} <- {sorted(roots)}", "taken iff this branch's own condition holds on the input", "the branch is not selected by its own condition evaluated on the input", node=ri)
    n += 1
    calls = [c for c in ast.walk(ri) if isinstance(c, ast.Call) and isinstance(c.func, ast.Name) and c.func.id == model_name]
    okc = len(calls) == 1 and calls[0].args and isinstance(calls[0].args[0], ast.Name) and calls[0].args[0].id == "x" and any(isinstance(a, ast.Starred) for a in calls[0].args) and any(k.arg is None for k in calls[0].keywords)
    rep.check(bool(okc), "FIRST-MATCH", fi, f"selected branch runs: {unparse(calls[0]) if calls else '(no call)'}", "exactly this branch's model, on the input, arguments forwarded", "the selected branch's model is not run exactly once on (x, *args, **kwargs)", node=ri)
    n += 1
    other = [c for s in lp.body if s is not ri for c in ast.walk(s) if isinstance(c, ast.Call) and isinstance(c.func, ast.Name) and c.func.id == model_name]
    rep.check(not other, "FIRST-MATCH", fi, "no branch model is run outside its condition", "non-selected branches do not run", "a branch model is invoked although its condition was not established", node=other[0] if other else lp)
    n += 1
    skips = [s for s in stmts_of(lp.body) if isinstance(s, (ast.Break, ast.Continue))]
    rep.check(not skips, "FIRST-MATCH", fi, "branch loop has no break/continue", "every earlier condition is examined before a later one", "a branch can be skipped", node=skips[0] if skips else lp)
    n += 1
    # default after the loop, else raise
    post = fi.body[fi.body.index(lp) + 1 :]
    dflt = [s for s in post if isinstance(s, ast.If) and "default_branch" in unparse(s.test)]
    okd = len(dflt) == 1 and any(isinstance(c, ast.Call) and attr_chain(c.func) == "self.default_branch" for c in ast.walk(dflt[0])) and any(isinstance(r, ast.Return) for r in dflt[0].body)
    rep.check(okd, "FIRST-MATCH", fi, f"after the loop: {unparse(dflt[0].test) if dflt else '(no default handling)'}", "default branch runs only when no condition held", "the default branch is not the fall-through after all conditions failed", node=dflt[0] if dflt else lp)
    n += 1
    last = post[-1] if post else None
    rep.check(isinstance(last, ast.Raise), "FIRST-MATCH", fi, f"no match and no default: {unparse(last)[:80] if last is not None else ''}", "an error, not a silent value", "no error is raised when nothing matches", node=last or lp)
    n += 1
    add = repo.func(BR, "BranchingModel.add_branch")
    ok = any(isinstance(s, ast.Assign) and match(s, "self.branches[name] = (condition, model)") is not None for s in stmts_of(add.body))
    rep.check(ok, "FIRST-MATCH", add, "add_branch stores (condition, model) under name", "registration order = dict insertion order", "add_branch does not register (condition, model) under its name")
    return n + 1


def rule_alias_update(repo: Repo, rep: Report) -> int:
    """ALIAS: in the composite forwards a value handed from stage to stage is never updated in place through a second
    name.  `acc = outputs[0]` binds `acc` to the first stage output itself (no copy); `acc += other` then writes into that
    tensor: the stage output (for a pass-through stage: the caller's input) is modified, and when two outputs share
    storage the later addends are read after they were overwritten - the value handed on is not the declared combination.
    Decided per augmented assignment on a plain name: every binding of the name in the function must be a fresh value
    (a call or an arithmetic expression), not a bare name / subscript / attribute of a value that comes from a stage call,
    a list of stage outputs, or a parameter."""
    n = 0
    for file, qual in ((MAC, "MultipleAccessChannelModel.forward"), (WZ, "WynerZivModel.forward"), (FB, "FeedbackChannelModel.forward"), (SEQ, "SequentialModel.forward"), (PAR, "ParallelModel.forward")):
        fi = repo.func(file, qual)
        params = {a.arg for a in fi.node.args.args + fi.node.args.kwonlyargs} - {"self"}
        scalar_calls = {"len", "int", "float", "range", "min", "max", "sum", "round", "abs", "enumerate", "bool", "str"}
        tensorish = set(params)
        for st in ast.walk(fi.node):
            if isinstance(st, ast.Assign) and isinstance(st.value, ast.Call) and (call_name(st.value) or "").split(".")[-1] not in scalar_calls:
                for t in st.targets:
                    tensorish |= {e.id for e in ast.walk(t) if isinstance(e, ast.Name)}
            if isinstance(st, ast.Call) and isinstance(st.func, ast.Attribute) and st.func.attr in ("append", "extend", "insert") and isinstance(st.func.value, ast.Name) and st.args and isinstance(st.args[-1], ast.Call):
                tensorish.add(st.func.value.id)
            if isinstance(st, (ast.For, ast.comprehension)) and isinstance(st.iter, (ast.Name, ast.Subscript)):
                base = st.iter
                while isinstance(base, ast.Subscript):
                    base = base.value
                if isinstance(base, ast.Name) and base.id in tensorish:
                    tensorish |= {e.id for e in ast.walk(st.target) if isinstance(e, ast.Name)}
        binds: Dict[str, List[ast.AST]] = {}
        for st in ast.walk(fi.node):
            if isinstance(st, ast.Assign):
                for t in st.targets:
                    if isinstance(t, ast.Name):
                        binds.setdefault(t.id, []).append(st)
        for st in ast.walk(fi.node):
            if not (isinstance(st, ast.AugAssign) and isinstance(st.target, ast.Name)):
                continue
            if isinstance(st.value, ast.Constant) and isinstance(st.value.value, (int, float)) and isinstance(st.op, (ast.Add, ast.Sub)):
                continue  # counter idiom (`k += 1`): numbers are immutable, nothing is shared
            n += 1
            bad = None
            for b in binds.get(st.target.id, []):
                v = b.value
                base = v
                while isinstance(base, (ast.Subscript, ast.Attribute)):
                    base = base.value
                if isinstance(v, (ast.Name, ast.Subscript, ast.Attribute)) and isinstance(base, ast.Name) and base.id in tensorish and not (isinstance(v, ast.Attribute) and v.attr in ("shape", "ndim", "device", "dtype")):
                    bad = b
                    break
            if st.target.id in params and not binds.get(st.target.id):
                bad = st
            if bad is not None:
                rep.violation("ALIAS", fi, f"in-place update of `{st.target.id}`, a second name for a value that is handed between stages", f"`{unparse(bad)[:80]}` binds `{st.target.id}` to the value itself (no copy) and `{unparse(st)[:80]}` then writes into it: the stage output (for a pass-through stage the caller's input) is modified, and outputs that share storage are read after they were overwritten - the value handed on is not the declared combination of the stage outputs", node=st)
            else:
                rep.ok("ALIAS", fi, f"{qual}: `{unparse(st)[:60]}` updates a value created in this function", "no stage output is written through a second name", node=st, nontrivial=False)
    return n


def rule_stage_truthiness(repo: Repo, rep: Report) -> int:
    """TRUTHY: a composite decides whether an optional stage is present by testing the stage object itself
    (`if self.aggregator:`).  That is "is not None" only while every stage object is truthy: torch modules define neither
    __bool__ nor __len__.  A __len__ / __bool__ on one of the library's own model base classes makes a model with no steps
    falsy - such a stage (e.g. a ParallelModel, which keeps its branches elsewhere, used as aggregator) is then silently
    skipped and the declared composition is not what runs.  Decided as a pair: truthiness tests on stage attributes in the
    composite forwards x __len__ / __bool__ definitions in kaira/models/base.py and kaira/models/generic/*."""
    sites = []
    for file, qual in ((MAC, "MultipleAccessChannelModel.forward"), (WZ, "WynerZivModel.forward"), (FB, "FeedbackChannelModel.forward"), (SEQ, "SequentialModel.forward"), (PAR, "ParallelModel.forward"), (BR, "BranchingModel.forward")):
        fi = repo.func(file, qual)
        for t in ast.walk(fi.node):
            tests = []
            if isinstance(t, (ast.If, ast.While, ast.IfExp)):
                tests = [t.test]
            elif isinstance(t, ast.BoolOp):
                tests = list(t.values)
            for e in tests:
                if isinstance(e, ast.UnaryOp) and isinstance(e.op, ast.Not):
                    e = e.operand
                ch = attr_chain(e) if isinstance(e, ast.Attribute) else None
                if ch and ch.startswith("self.") and ch.count(".") == 1 and not ch[5:].startswith("_") and ch[5:] not in ("training", "steps", "branches", "max_workers", "step_configs"):
                    # a collection of stages (ModuleList / list: indexed, iterated or measured in this function) is tested for emptiness, not for presence
                    coll = any((isinstance(u, ast.Subscript) and attr_chain(u.value) == ch) or (isinstance(u, (ast.For, ast.comprehension)) and any(attr_chain(y) == ch for y in ast.walk(u.iter) if isinstance(y, ast.Attribute))) or (isinstance(u, ast.Call) and call_name(u) == "len" and u.args and attr_chain(u.args[0]) == ch) for u in ast.walk(fi.node))
                    if not coll:
                        sites.append((fi, e, ch))
    falsy = []
    for mi in repo.modules.values():
        if mi.relpath == "kaira/models/base.py" or mi.relpath.startswith("kaira/models/generic/"):
            for ci in mi.classes.values():
                for nm in ("__len__", "__bool__"):
                    if nm in ci.methods:
                        falsy.append((ci, ci.methods[nm]))
    seen = set()
    n = 0
    for fi, e, ch in sites:
        if (fi.qualname, ch) in seen:
            continue
        seen.add((fi.qualname, ch))
        n += 1
        if falsy:
            ci, m = falsy[0]
            rep.violation("TRUTHY", fi, f"presence of the stage `{ch}` tested by truthiness", f"`{unparse(e)}` is used as a condition, and {ci.name}.{m.name} ({ci.file}) makes a model of that family falsy when it has no steps: such a stage is skipped although it was declared (use `is not None`, or keep models always truthy)", node=e)
        else:
            rep.ok("TRUTHY", fi, f"{fi.qualname}: `{ch}` tested by truthiness; no model base class defines __len__ / __bool__", "every stage object is truthy: the test means `is not None`", node=e, nontrivial=False)
    return n


def run(repo: Repo, rep: Report, tier: str) -> None:
    n = rule_seq(repo, rep)
    rule_alias_update(repo, rep)
    rule_stage_truthiness(repo, rep)
    n += rule_stage_lists(repo, rep)
    n += rule_mac(repo, rep)
    n += rule_wz(repo, rep)
    n += rule_feedback(repo, rep)
    n += rule_parallel(repo, rep)
    n += rule_branching(repo, rep)
    rep.floor("C17 rule instances", n, 50)
    rep.decided_clauses += [
        "sequential containers: every declared stage once, in order, result threaded, arguments forwarded",
        "DeepJSCC / channel-code stage lists in declared order by parameter identity",
        "MAC: all users encoded, superposition (sum over stacked user signals) before exactly one constraint and one channel use, then decoder(s)",
        "Wyner-Ziv: encoder -> quantizer? -> syndrome? -> constraint? -> channel -> decoder(res, side_info)",
        "feedback: exactly max_iterations rounds, five stages once per round in order, processor first when i > 0",
        "parallel: aggregation and returned mapping in declared (not completion) order for every schedule; each result under its own name",
        "branching: first true condition in registration order, else default, else error",
    ]
    rep.undecided_clauses += ["behaviour of user-supplied callables (stages, aggregators, conditions)", "thread-safety of the stages themselves"]
