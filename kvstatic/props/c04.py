"""C04 - encoding followed by the encoder's own message extraction is the identity (structure)."""
from __future__ import annotations

import ast
from typing import Dict, List, Optional

from ..astutil import Inliner, attr_chain, call_name, match, returns_of, stmts_of, statement_texts
from ..closedform import classify
from ..core import OK, UNDECIDED, VIOLATION, AnalysisError, FuncInfo, Repo, Report, unparse
from ..fecrules import ENC, LIN, SYS, UTL, block_matmul_rule, divisibility_raise, verified_return_rule
from ..speciallint import lint_literal_fallback, lint_value_keyed

EXPLANATION = (
    "Structural necessary conditions for 'inverse(encode(m)) = m for every message, generator form, information set and layout'. VERIFIED-RETURN: every return of "
    "compute_right_pseudo_inverse is exact (identity-prefix selection under its own column test; GF(2) elimination result) or verified as G.R = I on the object returned - a rounded "
    "real pseudo-inverse, a shape-keyed constant and a last-line fallback are violations. SYSTEMATIC-INVERSE: systematic encoders register the exact right inverse that selects their "
    "information positions. INVERSE-FORM: inverse_encode multiplies each block by the registered generator_right_inverse mod 2 (block size code_length, bad lengths rejected) and "
    "returns the syndrome of the same input; extract_message delegates to inverse_encode; project_word indexes the information set per block. BLOCKWISE: apply_blockwise asserts "
    "divisibility, views the input as (*lead, L // b, b) and flattens the result back to (*lead, -1); every inverse_encode override (Hamming, Reed-Muller) keeps the leading "
    "dimensions and the block structure ((-1, n) view, (*lead, -1) result) and validates the length. The round trip as a value identity for arbitrary G is not decided."
)


def right_inverse_evaluated(repo: Repo, fi: FuncInfo):
    """Run compute_right_pseudo_inverse (helpers inlined, own arithmetic) on the sample generators of C01: G X = I over
    GF(2) with 0/1 entries; a generator without full row rank must be rejected."""
    from ..constfold import Unfoldable
    from ..frag import FragRaise, FragReturn, run_fragment
    from .c01 import NULL_SPACE_SAMPLES, aliasing_swaps

    funcs = {nm: f.node for nm, f in fi.module.functions.items() if nm != fi.name}
    for f_ in [fi] + [fi.module.functions[nm] for nm in ("_gf2_row_reduce",) if nm in fi.module.functions]:
        sw = aliasing_swaps(f_)
        if sw:
            return VIOLATION, f"`{unparse(sw[0])}` in {f_.name}: the right-hand sides are views, both rows end up equal instead of exchanged; the transformation becomes singular and G X != I", sw[0]
    from .. import gf2

    full_rank = [G for G in NULL_SPACE_SAMPLES if gf2.rank(gf2.rows_to_masks(G)) == len(G)]
    for G in full_rank:
        k, n = len(G), len(G[0])
        try:
            run_fragment(fi.body, {"matrix": [list(r) for r in G]}, {}, max_steps=400000, materialise=True, funcs=funcs)
            return UNDECIDED, "no value returned", None
        except FragReturn as r:
            X = r.value
        except FragRaise:
            return VIOLATION, f"the full-rank generator {G} is rejected", None
        except (Unfoldable, TypeError, IndexError) as exc:
            return UNDECIDED, f"not evaluable ({exc})", None
        if not (isinstance(X, list) and len(X) == n and all(isinstance(r_, list) and len(r_) == k for r_ in X)):
            return UNDECIDED, f"result is not an {n} x {k} matrix", None
        if any(x not in (0, 1, 0.0, 1.0) for r_ in X for x in r_):
            return VIOLATION, f"for G = {G} the right inverse has entries outside {{0, 1}} ({[x for r_ in X for x in r_ if x not in (0, 1)][:3]}): the elimination is not carried out over GF(2); the entries grow with k and leave the range float32 represents exactly, after which `% 2` returns wrong message bits", None
        prod = [[sum(G[i][t] * int(X[t][j]) for t in range(n)) % 2 for j in range(k)] for i in range(k)]
        if prod != [[int(i == j) for j in range(k)] for i in range(k)]:
            return VIOLATION, f"for G = {G} the returned X does not satisfy G X = I over GF(2) (G X = {prod}): inverse_encode returns wrong message bits for valid codewords", None
    try:
        run_fragment(fi.body, {"matrix": [[1, 1, 0], [1, 1, 0]]}, {}, max_steps=100000, materialise=True, funcs=funcs)
        return VIOLATION, "a generator without full row rank is not rejected (no right inverse exists)", None
    except FragRaise:
        pass
    except FragReturn:
        return VIOLATION, "a generator without full row rank is answered with a matrix instead of being rejected (no right inverse exists)", None
    except (Unfoldable, TypeError, IndexError) as exc:
        return UNDECIDED, f"rank-deficient sample not evaluable ({exc})", None
    return OK, f"G X = I over GF(2) with 0/1 entries on {len(full_rank)} full-rank sample generators; a rank-deficient generator is rejected", None


def rule_right_inverse(repo: Repo, rep: Report) -> int:
    fi = repo.func(LIN, "compute_right_pseudo_inverse")
    est, edetail, enode = right_inverse_evaluated(repo, fi)
    if est in (OK, VIOLATION):
        rep.add("VERIFIED-RETURN", fi, "compute_right_pseudo_inverse evaluated on sample generator matrices", est, edetail, node=enode or fi.node)
        lint_literal_fallback(rep, fi, "G2")
        lint_value_keyed(rep, fi, rule="G1", allowed_literals={0, 1, -1, 2})
        return 3
    n = verified_return_rule(rep, "VERIFIED-RETURN", fi, "matrix", "rinv", {"_gf2_row_reduce"})
    lint_literal_fallback(rep, fi, "G2")
    lint_value_keyed(rep, fi, rule="G1", allowed_literals={0, 1, -1, 2})
    n += 2
    body = set(statement_texts(fi))
    if "_gf2_row_reduce" in fi.module.functions:
        need = ["right_inv[pivot_col, :] = transform[row_idx, :].to(matrix.dtype)", "reduced, transform, pivots = _gf2_row_reduce(matrix)"]
        for t in need:
            rep.expect(t in body, "VERIFIED-RETURN", fi, f"right inverse from the elimination: `{t}`", "X[p_i, :] = T[i, :] with T.G = R in reduced row echelon form gives G.X = I", "the right inverse is not assembled from the GF(2) elimination as X[pivot_i] = T[i]")
            n += 1
        rk = [s for s in stmts_of(fi.body) if isinstance(s, ast.If) and any(isinstance(x, ast.Raise) for x in s.body) and "pivots" in unparse(s.test)]
        rep.expect(len(rk) == 1 and unparse(rk[0].test) == "len(pivots) < k", "VERIFIED-RETURN", fi, f"rank check: {unparse(rk[0].test) if rk else '(none)'}", "a generator without full row rank is rejected (no right inverse exists)", "rank-deficient generators are not rejected")
        n += 1
    # identity-prefix shortcut: tested column by column
    loops = [s for s in fi.body if isinstance(s, ast.For)]
    ok = False
    for lp in loops:
        tests = [unparse(s.test) for s in stmts_of(lp.body) if isinstance(s, ast.If)]
        if unparse(lp.iter) == "range(k)" and "col[i] != 1 or col.sum() != 1" in tests and any(unparse(s) == "col = matrix[:, i]" for s in stmts_of(lp.body)):
            ok = True
    wrong_pred = False
    pred_detail = ""
    if not ok:
        # evaluate the statements that define `is_systematic` on sample matrices with the checker's own arithmetic:
        # the flag must be True exactly when the leading k x k block is the identity
        from ..constfold import Unfoldable
        from ..frag import FragRaise, FragReturn, run_fragment

        guard = next((s_ for s_ in fi.body if isinstance(s_, ast.If) and unparse(s_.test) == "is_systematic"), None)
        if guard is not None:
            prefix = fi.body[: fi.body.index(guard)]
            prefix = [s_ for s_ in prefix if not (isinstance(s_, ast.Expr) and isinstance(s_.value, ast.Constant))]
            samples = [
                ([[1, 0, 1, 1], [0, 1, 0, 1]], True), ([[0, 1, 1, 1], [1, 0, 0, 1]], False), ([[1, 1, 0, 1], [0, 1, 1, 0]], False),
                ([[1, 0, 0, 1, 1], [0, 1, 0, 1, 0], [0, 0, 1, 0, 1]], True), ([[0, 1, 0, 1, 1], [0, 0, 1, 1, 0], [1, 0, 0, 0, 1]], False),
                ([[1, 0, 0, 1, 1], [0, 0, 1, 1, 0], [0, 1, 0, 0, 1]], False), ([[1, 0, 1], [1, 0, 1]], False), ([[2, 0, 1], [0, 1, 1]], False),
            ]
            try:
                for mat, want in samples:
                    env_ = run_fragment(prefix, {"matrix": mat})
                    got = env_.get("is_systematic")
                    if isinstance(got, list) or got is None:
                        raise Unfoldable("flag is not a scalar")
                    if bool(got) != want:
                        wrong_pred = True
                        pred_detail = f"for the generator {mat} the identity-prefix flag is {bool(got)} (expected {want}): the shortcut [I; 0] is returned for a leading block that is not the identity, so G.R != I and the extracted message is a permutation / mixture of the message bits"
                        break
                else:
                    ok = True
            except (Unfoldable, FragRaise, FragReturn, IndexError, TypeError, KeyError):
                pass
    rep.shape(ok, wrong_pred, "VERIFIED-RETURN", fi, "identity-prefix test: the shortcut is taken iff the first k columns are exactly the identity" + (f" - {pred_detail}" if pred_detail else ""), "the shortcut is taken only if the first k columns are exactly the identity", "the identity-prefix shortcut is not guarded by a column-by-column identity test")
    return n + 1


def rm_inverse_evaluated(repo: Repo):
    """ReedMullerCodeEncoder.inverse_encode evaluated as a whole (own arithmetic; the module's constants and helpers
    available) on RM(1,3) - every codeword alone and with each single bit flipped - and on RM(2,4) (2048 codewords, so that
    a search organised in slabs of up to 1024 messages has more than one slab) for messages from the upper half of the
    enumeration with one bit flipped, as a single word and as a batch: d = 4, so one error lies within the unique-decoding
    radius and the first result must be the transmitted message, in the layout of the input.
    Returns (status, detail) or (None, reason)."""
    import itertools

    from ..constfold import Unfoldable
    from ..frag import FragRaise, FragReturn, run_fragment

    ci = repo.cls(f"{ENC}/reed_muller_code.py", "ReedMullerCodeEncoder")
    fi = repo.method(ci, "inverse_encode")
    consts = {st_.targets[0].id: st_.value for st_ in fi.module.tree.body if isinstance(st_, ast.Assign) and len(st_.targets) == 1 and isinstance(st_.targets[0], ast.Name)}
    funcs = {nm: f.node for nm, f in ci.module.functions.items()}
    funcs.update({f"self.{nm}": m.node for nm, m in ci.methods.items() if nm.startswith("_") and not nm.startswith("__")})

    def gen(r, m):
        v = [[(j >> (m - 1 - i)) & 1 for j in range(2**m)] for i in range(m)]
        rows = []
        for order in range(r, 0, -1):
            for idx in itertools.combinations(range(m), order):
                rows.append([int(all(v[i][j] for i in idx)) for j in range(2**m)])
        rows.append([1] * 2**m)
        return rows

    def enc(msg, G):
        return [sum(msg[i] * G[i][j] for i in range(len(G))) % 2 for j in range(len(G[0]))]

    def call(G, d, x):
        attrs = {"self.code_length": len(G[0]), "self.code_dimension": len(G), "self.generator_matrix": [[float(v) for v in r] for r in G], "self.minimum_distance": d, "self.device": "cpu"}
        try:
            run_fragment(fi.body, dict(consts, x=x, args=[], kwargs={}), attrs, funcs=funcs, materialise=True, max_steps=40000000, attrs_live=True)
        except FragReturn as ret:
            return ret.value
        raise Unfoldable("no value returned")

    def flip(w, j):
        return [float(b ^ (1 if t == j else 0)) for t, b in enumerate(w)]

    words = 0
    try:
        G = gen(1, 3)
        for msg in itertools.product([0, 1], repeat=4):
            cw = enc(list(msg), G)
            batch = [[float(b) for b in cw]] + [flip(cw, j) for j in range(8)]
            out = call(G, 4, batch)
            dec = out[0] if isinstance(out, (list, tuple)) and len(out) == 2 else None
            if not (isinstance(dec, list) and len(dec) == 9 and all(isinstance(r, list) and len(r) == 4 for r in dec)):
                return None, "the first result is not a (9, 4) matrix for a (9, 8) input"
            for t, r in enumerate(dec):
                words += 1
                if [int(v) for v in r] != list(msg):
                    return VIOLATION, f"RM(1,3), message {list(msg)}, " + ("codeword itself" if t == 0 else f"bit {t - 1} flipped (1 error, t = 1)") + f": inverse_encode returns {[int(v) for v in r]}"
        G = gen(2, 4)
        k = len(G)
        for idx_, pos in ((1500, 3), (2047, 0), (1029, 15), (700, 8)):
            msg = [(idx_ >> (k - 1 - i)) & 1 for i in range(k)]
            cw = enc(msg, G)
            out = call(G, 4, flip(cw, pos))
            dec = out[0] if isinstance(out, (list, tuple)) and len(out) == 2 else None
            if not (isinstance(dec, list) and len(dec) == k and all(not isinstance(v, list) for v in dec)):
                return None, "the first result is not a vector of k symbols for a single received word"
            words += 1
            if [int(v) for v in dec] != msg:
                return VIOLATION, f"RM(2,4) (2048 codewords, d = 4, t = 1): message number {idx_} of the enumeration, sent alone with bit {pos} flipped, is decoded to {[int(v) for v in dec]} instead of {msg}: the result is not the nearest codeword"
        m1 = [(1500 >> (k - 1 - i)) & 1 for i in range(k)]
        m2 = [(3 >> (k - 1 - i)) & 1 for i in range(k)]
        out = call(G, 4, [flip(enc(m1, G), 5), flip(enc(m2, G), 9)])
        dec = out[0]
        words += 2
        if not (isinstance(dec, list) and len(dec) == 2 and [[int(v) for v in r] for r in dec] == [m1, m2]):
            return VIOLATION, f"RM(2,4): a batch of two words with one error each is decoded to {dec} instead of {[m1, m2]}"
    except (Unfoldable, FragRaise, TypeError, IndexError, ValueError, KeyError) as exc:
        return None, str(exc) or type(exc).__name__
    return OK, f"{words} received words (RM(1,3): all codewords with 0 / 1 error; RM(2,4): messages from both halves of the enumeration with 1 error, alone and in a batch): the transmitted message every time"


def rm_inverse_cached(repo: Repo):
    if not hasattr(repo, "_kv_rminv_cache"):
        repo._kv_rminv_cache = rm_inverse_evaluated(repo)
    return repo._kv_rminv_cache


def inverse_encode_evaluated(repo: Repo):
    """LinearBlockCodeEncoder.inverse_encode evaluated as a whole (class helpers and apply_blockwise followed, own
    arithmetic) for three codes - one of them with a parity-check matrix that has a linearly dependent extra row - on
    1-D, 2-D and 3-D inputs holding one or two blocks, code words and words with errors: the first result must hold k
    symbols per block and, for every block that is a code word, its message (x R mod 2 with the registered right inverse R);
    the second must be x H^T mod 2 with ALL rows of H; a last dimension that is not a multiple of n must raise.  Returns (status, detail) or (None, reason)."""
    from ..constfold import PySeq, Unfoldable
    from ..frag import FragRaise, FragReturn, coverage_scope, run_fragment

    ci = repo.cls(LIN, "LinearBlockCodeEncoder")
    fi = repo.method(ci, "inverse_encode")
    funcs = {f"self.{nm}": m.node for nm, m in ci.methods.items() if nm not in ("forward", "__init__", "inverse_encode")}
    funcs.update({nm: f.node for nm, f in repo.func(UTL, "apply_blockwise").module.functions.items()})
    funcs.update({nm: f.node for nm, f in ci.module.functions.items()})
    codes = (
        ([[1, 0, 1, 1, 0], [0, 1, 0, 1, 1]], [[1, 0], [0, 1], [0, 0], [0, 0], [0, 0]], [[1, 0, 1, 0, 0], [1, 1, 0, 1, 0], [0, 1, 0, 0, 1], [0, 1, 1, 1, 0]]),
        ([[1, 1, 1]], [[0], [0], [1]], [[1, 1, 0], [0, 1, 1]]),
        ([[1, 1, 0, 1], [0, 1, 1, 1], [1, 1, 1, 0]], [[0, 0, 0], [1, 1, 1], [1, 1, 0], [0, 1, 1]], [[1, 0, 1, 1]]),
    )

    def rows(z):
        return [z] if not z or not isinstance(z[0], list) else [r_ for t in z for r_ in rows(t)]

    def shape(z):
        return (len(z),) + shape(z[0]) if isinstance(z, list) and z else ((0,) if isinstance(z, list) else ())

    cases = 0
    scope = coverage_scope()
    scope.__enter__()
    try:
        for G, R, H in codes:
            k, n = len(G), len(G[0])
            assert [[sum(G[i][t] * R[t][j] for t in range(n)) % 2 for j in range(k)] for i in range(k)] == [[int(i == j) for j in range(k)] for i in range(k)]
            attrs0 = {"self.generator_right_inverse": R, "self._generator_right_inverse": R, "self.check_matrix": H, "self._check_matrix": H, "self.generator_matrix": G, "self.code_length": n, "self._length": n, "self.code_dimension": k, "self._dimension": k, "self.redundancy": n - k, "self._redundancy": n - k, "self.parity_bits": n - k}
            words = [[(sum(G[i][t] for i in range(k) if (m_ >> i) & 1) + (1 if t == e_ else 0)) % 2 for t in range(n)] for m_, e_ in ((1, -1), ((1 << k) - 1, -1), (1, 0), (0, n - 1), ((1 << k) - 1, 1))]
            inputs = [words[0] + words[2], [words[1], words[3]], [[words[4] + words[0]], [words[2] + words[1]]], list(words[3])]
            for x in inputs:
                try:
                    run_fragment(fi.body, {"x": [list(r_) if isinstance(r_, list) else r_ for r_ in x], "args": [], "kwargs": {}}, dict(attrs0), funcs=funcs, materialise=True, max_steps=400000, attrs_live=True)
                    return None, "no value returned"
                except FragReturn as ret:
                    got = ret.value
                except FragRaise:
                    return VIOLATION, f"n = {n}: a valid input of shape {shape(x)} is rejected"
                except (Unfoldable, TypeError, IndexError, ValueError, KeyError) as exc:
                    return None, f"not evaluable ({exc})"
                if not (isinstance(got, (PySeq, list, tuple)) and len(got) == 2 and all(isinstance(g_, list) for g_ in got)):
                    return None, "the result is not a pair of blocks"
                dec, syn = got[0], got[1]
                want_d = [[sum(row[j * n + t] * R[t][c] for t in range(n)) % 2 for j in range(len(row) // n) for c in range(k)] for row in rows(x)]
                want_s = [[sum(row[j * n + t] * H[c][t] for t in range(n)) % 2 for j in range(len(row) // n) for c in range(len(H))] for row in rows(x)]
                nh = len(H)
                clean = [[not any(ws[j * nh:(j + 1) * nh]) for j in range(len(ws) // nh)] for ws in want_s]  # blocks that are code words: only there the message is prescribed
                gd = rows(dec)
                same = len(gd) == len(want_d) and all(len(g_) == len(w_) and all(g_[j * k:(j + 1) * k] == w_[j * k:(j + 1) * k] for j in range(len(w_) // k) if c_[j]) for g_, w_, c_ in zip(gd, want_d, clean))
                if not same or shape(dec)[:-1] != shape(x)[:-1]:
                    return VIOLATION, f"G = {G}, H with {len(H)} rows, input of shape {shape(x)}: the decoded part is {rows(dec)[0]} (shape {shape(dec)}); x R mod 2, block by block, is {want_d[0]} - k = {k} message symbols per block (encode followed by inverse_encode does not return the message)"
                if rows(syn) != want_s or shape(syn)[:-1] != shape(x)[:-1]:
                    return VIOLATION, f"G = {G}, H with {len(H)} rows, input of shape {shape(x)}: the syndrome part is {rows(syn)[0]} (shape {shape(syn)}); x H^T mod 2, block by block, is {want_s[0]}"
                cases += 1
            try:
                run_fragment(fi.body, {"x": [0] * (n + 1), "args": [], "kwargs": {}}, dict(attrs0), funcs=funcs, materialise=True, max_steps=100000, attrs_live=True)
                return VIOLATION, "a last dimension that is not a multiple of n is not rejected"
            except FragRaise:
                pass
            except FragReturn:
                return VIOLATION, f"an input of length {n + 1} (not a multiple of n = {n}) is answered instead of rejected"
            except (Unfoldable, TypeError, IndexError, ValueError, KeyError, AssertionError) as exc:
                return None, f"invalid length not evaluable ({exc})"
    finally:
        scope.__exit__()
    gap = scope.note([fi.node] + [m.node for nm, m in ci.methods.items() if nm == "calculate_syndrome"])
    if gap:
        return None, gap
    return OK, f"{cases} inputs (1-D / 2-D / 3-D, one and two blocks, code words and words with one error) for three codes, one with a dependent parity-check row: (x R mod 2, x H^T mod 2) block by block; invalid length rejected"


def extract_message_evaluated(ex: FuncInfo):
    """An unlisted spelling of BaseBlockCodeEncoder.extract_message evaluated (own arithmetic) with a recording stand-in
    for `self.inverse_encode`: for code parameters (n, k) from the catalogue and random ones, 1..4 blocks, 1-D and
    batched words, the result must be exactly the message part the encoder's own inverse returned (b * k symbols per
    row) and inverse_encode must be called once with the word.  Returns (status, detail) or (None, reason)."""
    from ..constfold import PyTuple, Unfoldable
    from ..frag import FragRaise, FragReturn, run_fragment

    cases = 0
    for n_, k_ in ((7, 4), (15, 11), (31, 21), (31, 17), (22, 15), (23, 13), (26, 15), (63, 45), (8, 4)):
        for b_ in (1, 2, 3, 4):
            for batched in (False, True):
                word = [float((i * 7 + 3) % 2) for i in range(b_ * n_)]
                msg = [float(100 + i) for i in range(b_ * k_)]
                x = [list(word), list(word)] if batched else list(word)
                dec = [list(msg), list(msg)] if batched else list(msg)
                calls = []

                def inv(*a, _dec=dec, **kw):
                    calls.append(a)
                    return PyTuple([_dec, [0.0] * (b_ * (n_ - k_))])

                attrs = {"self.code_length": n_, "self._length": n_, "self.code_dimension": k_, "self._dimension": k_, "self.code_rate": k_ / n_, "self.redundancy": n_ - k_, "self._redundancy": n_ - k_}
                try:
                    run_fragment(ex.body, {"codeword": x, "args": [], "kwargs": {}}, attrs, ctors={"self.inverse_encode": inv}, materialise=True, max_steps=50000)
                    return None, "no value returned"
                except FragReturn as ret:
                    got = ret.value
                except FragRaise:
                    return VIOLATION, f"(n, k) = ({n_}, {k_}), {b_} block(s): a valid word is rejected"
                except (Unfoldable, TypeError, IndexError, ValueError, KeyError) as exc:
                    return None, f"not evaluable ({exc})"
                if len(calls) != 1:
                    return None, f"inverse_encode called {len(calls)} times"
                if got != dec:
                    shape_ = (len(got), len(got[0])) if isinstance(got, list) and got and isinstance(got[0], list) else (len(got) if isinstance(got, list) else got)
                    return VIOLATION, f"(n, k) = ({n_}, {k_}), {b_} block(s){', batch of 2' if batched else ''}: extract_message returns a value of shape {shape_} where the encoder's own inverse returned {b_ * k_} message symbols per row (b * k = {b_} * {k_}): the message is not what inverse_encode decoded"
                cases += 1
    return OK, f"{cases} (n, k, blocks, layout) cases: the message part of the encoder's own inverse, unchanged"


def rule_inverse_form(repo: Repo, rep: Report) -> int:
    ci = repo.cls(LIN, "LinearBlockCodeEncoder")
    inv = repo.method(ci, "inverse_encode")
    est_, ed_ = inverse_encode_evaluated(repo)
    if est_ is not None:
        rep.add("INVERSE-FORM", inv, "inverse_encode evaluated as a whole: (x R mod 2, x H^T mod 2) block by block", est_, ed_, node=inv.node)
    else:
        block_matmul_rule(rep, "INVERSE-FORM", inv, "decode_fn", "self.generator_right_inverse", False, {"self.code_length", "self._length"}, {"self.code_dimension", "self._dimension"}, "inverse: m = x.R mod 2")
        rets = returns_of(inv.node)
        syn = [s for s in stmts_of(inv.body) if isinstance(s, ast.Assign) and unparse(s.targets[0]) == "syndrome"]
        ok = len(rets) == 1 and unparse(rets[0].value) == "(decoded, syndrome)" and len(syn) == 1 and unparse(syn[0].value) == "self.calculate_syndrome(x)"
        rep.expect(ok, "INVERSE-FORM", inv, f"returns {unparse(rets[0].value) if rets else '?'} with syndrome = {unparse(syn[0].value) if syn else '?'}", "the decoded message together with the syndrome of the same word", "inverse_encode does not return (message, syndrome of the input)")
    init = repo.method(ci, "__init__")
    regs = {c.args[0].value: unparse(c.args[1]) for c in ast.walk(init.node) if isinstance(c, ast.Call) and attr_chain(c.func) == "self.register_buffer" and len(c.args) >= 2 and isinstance(c.args[0], ast.Constant)}
    a = [s for s in stmts_of(init.body) if isinstance(s, ast.Assign) and attr_chain(s.targets[0]) == "self._generator_right_inverse"]
    ok = regs.get("generator_right_inverse") == "self._generator_right_inverse" and len(a) == 1 and unparse(a[0].value) == "compute_right_pseudo_inverse(generator_matrix)"
    rep.expect(ok, "INVERSE-FORM", init, f"generator_right_inverse = {unparse(a[0].value) if a else '?'}", "right inverse of the very generator that is published", "the registered right inverse is not computed from the published generator")
    # systematic exact inverse
    si = repo.func(SYS, "SystematicLinearBlockCodeEncoder.__init__")
    body = statement_texts(si)
    ok = "right_inverse[self._information_set, torch.arange(k)] = 1" in body and 'self.register_buffer("generator_right_inverse", right_inverse)'.replace('"', "'") in [b.replace('"', "'") for b in body] and any(b.startswith("right_inverse = torch.zeros((n, k)") for b in body)
    rep.expect(ok, "SYSTEMATIC-INVERSE", si, "R = 0_{n x k}; R[information_set[j], j] = 1; registered as generator_right_inverse", "selecting the information positions is an exact right inverse for every information set (G has the identity there)", "systematic encoders do not register the selection matrix of their information set as right inverse")
    # order: after super().__init__ (which registers the generic one)
    sup = [i for i, s in enumerate(si.body) if "super().__init__" in unparse(s)]
    reg = [i for i, s in enumerate(si.body) if unparse(s).replace('"', "'") == "self.register_buffer('generator_right_inverse', right_inverse)"]
    rep.expect(bool(sup and reg and reg[0] > sup[0]), "SYSTEMATIC-INVERSE", si, "the exact inverse is registered after the parent constructor", "it replaces the generic helper's result (last registration wins)", "the exact right inverse is overwritten by the parent constructor")
    # extract_message / project_word
    ex = repo.func(f"{ENC}/base.py", "BaseBlockCodeEncoder.extract_message")
    calls = [c for c in ast.walk(ex.node) if isinstance(c, ast.Call) and attr_chain(c.func) == "self.inverse_encode"]
    ok = len(calls) == 1 and unparse(calls[0].args[0]) == "codeword" and any(unparse(r.value) == "result[0]" for r in returns_of(ex.node))
    xst_, xd_ = (None, "") if ok else extract_message_evaluated(ex)
    if xst_ is not None:
        rep.add("INVERSE-FORM", ex, "extract_message evaluated with a recording inverse_encode over (n, k, blocks)", xst_, xd_, node=ex.node)
    else:
        rep.expect(ok, "INVERSE-FORM", ex, "extract_message = inverse_encode(codeword)[0]", "message extraction is the encoder's own inverse", "extract_message no longer returns the message part of inverse_encode" + (f" ({xd_})" if xd_ else ""))
    pw = repo.func(SYS, "SystematicLinearBlockCodeEncoder.project_word")
    bc = [c for c in ast.walk(pw.node) if isinstance(c, ast.Call) and call_name(c) == "apply_blockwise"]
    cl = pw.nested("projection_fn")
    ok = len(bc) == 1 and unparse(bc[0].args[1]) in ("self._length", "self.code_length") and cl is not None and [unparse(r.value) for r in returns_of(cl.node)] == ["reshaped_x[..., self.information_set]"]
    if ok:
        rep.ok("INVERSE-FORM", pw, "project_word: per block of n symbols take block[..., information_set]", "projection onto the information positions, blockwise")
    else:
        st_, d_ = project_word_evaluated(repo, pw)
        rep.add("INVERSE-FORM", pw, "project_word evaluated on multi-block inputs", st_, d_ if st_ != UNDECIDED else f"project_word is not the listed blockwise selection and {d_}", node=pw.node)
    return 12


def project_word_evaluated(repo: Repo, pw: FuncInfo):
    """Run project_word (apply_blockwise inlined, own arithmetic) on inputs with 1, 2 and 3 blocks per row, 1-D / 2-D /
    3-D, for two information sets: block j of every row must contribute x[j*n + information_set]; a length that is not a
    multiple of n must be rejected."""
    from ..constfold import Unfoldable
    from ..frag import FragRaise, FragReturn, run_fragment

    funcs = {"apply_blockwise": repo.func(UTL, "apply_blockwise").node}
    for n_, info in ((5, [1, 3]), (7, [6, 0, 2])):
        k_ = len(info)
        for blocks in (1, 2, 3):
            for lead in ((), (2,), (2, 2)):
                def mk(shape, base=[0]):
                    if len(shape) == 1:
                        base[0] += 100
                        return [base[0] + t for t in range(shape[0])]
                    return [mk(shape[1:]) for _ in range(shape[0])]
                x = mk(list(lead) + [blocks * n_])
                try:
                    run_fragment(pw.body, {"x": x}, {"self._length": n_, "self._dimension": k_, "self.information_set": list(info), "self.code_length": n_, "self.code_dimension": k_}, funcs=funcs, max_steps=40000)
                    return UNDECIDED, "no value returned"
                except FragReturn as r:
                    got = r.value
                except FragRaise:
                    return VIOLATION, f"a valid input of shape {tuple(lead) + (blocks * n_,)} is rejected"
                except (Unfoldable, TypeError, IndexError) as exc:
                    return UNDECIDED, f"not evaluable ({exc})"

                def rows(z):
                    return [z] if z and not isinstance(z[0], list) else [r_ for t in z for r_ in rows(t)]
                want_rows = [[row[j * n_ + p_] for j in range(blocks) for p_ in info] for row in rows(x)]
                if not isinstance(got, list) or rows(got) != want_rows:
                    return VIOLATION, f"for n = {n_}, information set {info} and {blocks} block(s) per row the projection returns {rows(got)[0] if isinstance(got, list) and got else got} where the information symbols of the blocks are {want_rows[0]} (symbols are read from the wrong positions from the second block on)"
    try:
        run_fragment(pw.body, {"x": [1, 2, 3, 4, 5, 6]}, {"self._length": 5, "self._dimension": 2, "self.information_set": [1, 3], "self.code_length": 5, "self.code_dimension": 2}, funcs=funcs, max_steps=20000)
        return VIOLATION, "a length that is not a multiple of n is not rejected"
    except FragRaise:
        pass
    except FragReturn:
        return VIOLATION, "a length that is not a multiple of n is answered instead of rejected"
    except (Unfoldable, TypeError, IndexError) as exc:
        return UNDECIDED, f"not evaluable ({exc})"
    return OK, "blockwise selection of the information positions for 1..3 blocks per row, 1-D/2-D/3-D inputs, two information sets; invalid length rejected"


#: the per-word operations of an encoder: each accepts inputs whose last dimension holds several blocks
WORD_API = ("forward", "inverse_encode", "calculate_syndrome", "extract_message", "project_word")


def rule_api_blockwise(repo: Repo, rep: Report) -> int:
    """Every definition (base class or override) of a per-word operation of a block-code encoder treats the last axis as a
    run of blocks: it goes through `apply_blockwise`, reshapes to rows of n (or k) symbols itself, or hands over to another
    per-word operation / the parent's.  A definition that indexes the last axis of its input directly with an index set
    (`x[..., self.information_set]`) reads one block and is wrong for (..., b*n) inputs."""
    n = 0
    classes = [repo.cls(LIN, "LinearBlockCodeEncoder")] + [c for c in repo.subclasses("LinearBlockCodeEncoder") if c.file.startswith(ENC + "/")]
    for ci in classes:
        for m in WORD_API:
            fi = ci.methods.get(m)
            if fi is None:
                continue
            params = [p_ for p_ in fi.params if p_ != "self"]
            if not params:
                continue
            x = params[0]
            n += 1
            txt = unparse(fi.node)
            blockwise = "apply_blockwise(" in txt
            delegates = any(isinstance(c_, ast.Call) and ((attr_chain(c_.func) or "").startswith("self.") and (attr_chain(c_.func) or "")[5:] in WORD_API and (attr_chain(c_.func) or "")[5:] != m or unparse(c_.func).startswith("super().")) and any(isinstance(a_, ast.Name) and a_.id == x for a_ in ast.walk(c_)) for c_ in ast.walk(fi.node))
            rows = any(isinstance(c_, ast.Call) and isinstance(c_.func, ast.Attribute) and c_.func.attr in ("reshape", "view") and isinstance(c_.func.value, ast.Name) and c_.func.value.id == x and c_.args and unparse(c_.args[0]) == "-1" for c_ in ast.walk(fi.node))
            stub = all(isinstance(s_, (ast.Raise, ast.Pass)) or (isinstance(s_, ast.Expr) and isinstance(s_.value, ast.Constant)) for s_ in fi.body)
            direct = [sub for sub in ast.walk(fi.node) if isinstance(sub, ast.Subscript) and isinstance(sub.value, ast.Name) and sub.value.id == x and isinstance(sub.slice, ast.Tuple) and sub.slice.elts and isinstance(sub.slice.elts[0], ast.Constant) and sub.slice.elts[0].value is Ellipsis and not isinstance(sub.slice.elts[-1], (ast.Slice, ast.Constant))]
            construct = f"{ci.name}.{m}({x}): blocks along the last axis"
            if blockwise or rows or stub:
                rep.ok("BLOCKWISE", fi, construct, "handled block by block (apply_blockwise / rows of one word)", nontrivial=False)
            elif direct and not delegates:
                rep.violation("BLOCKWISE", fi, f"{construct}: {unparse(direct[0])}", f"`{unparse(direct[0])}` indexes the last axis of the input as if it held a single word: for an input of b concatenated blocks only the positions of the first block are read (the result has k instead of b*k symbols, and a length that is not a multiple of n is accepted)", node=direct[0])
            elif delegates:
                rep.ok("BLOCKWISE", fi, construct, "hands its input to another per-word operation", nontrivial=False)
            else:
                rep.undecided("BLOCKWISE", fi, construct, "neither apply_blockwise, nor rows of one word, nor a delegation", node=fi.node)
    return n


def rule_blockwise(repo: Repo, rep: Report) -> int:
    fi = repo.func(UTL, "apply_blockwise")
    body = [unparse(s) for s in fi.body]
    n = 0
    ok_a = any(b.startswith("assert L % block_size == 0") for b in body) or any(isinstance(s, ast.If) and unparse(s.test) == "L % block_size != 0" and any(isinstance(x, ast.Raise) for x in s.body) for s in fi.body)
    rep.expect(ok_a, "BLOCKWISE", fi, "divisibility: assert L % block_size == 0", "a length that is not a multiple of the block size stops with an error", "apply_blockwise no longer rejects non-divisible lengths")
    inl = Inliner(fi)
    views = [a_ for a_ in ast.walk(fi.node) if isinstance(a_, ast.Assign) and isinstance(a_.targets[0], ast.Name) and isinstance(a_.value, ast.Call) and isinstance(a_.value.func, ast.Attribute) and a_.value.func.attr in ("view", "reshape") and unparse(a_.value.func.value) == "x"]
    vname = views[0].targets[0].id if len(views) == 1 else None
    vtxt = unparse(inl.inline(views[0].value)).replace("reshape", "view") if len(views) == 1 else ""
    good_view = "*leading_dims, L = x.shape" in body and vtxt in ("x.view(*leading_dims, L // block_size, block_size)", "x.view(*(*leading_dims, L // block_size, block_size))", "x.view((*leading_dims, L // block_size, block_size))")
    wrong_view = vtxt in ("x.view(*leading_dims, block_size, L // block_size)", "x.view(*(*leading_dims, block_size, L // block_size))") or ("transpose" in vtxt or "permute" in vtxt)
    rep.shape(good_view, wrong_view, "BLOCKWISE", fi, f"x viewed as (*lead, L // b, b): {vtxt}", "consecutive runs of b symbols form the blocks; leading dimensions untouched", "the block view is not (*lead, L // b, b): blocks are not runs of b consecutive symbols")
    calls = [c_ for c_ in ast.walk(fi.node) if isinstance(c_, ast.Call) and isinstance(c_.func, ast.Name) and c_.func.id == "fn"]
    ok_c = len(calls) == 1 and len(calls[0].args) == 1 and isinstance(calls[0].args[0], ast.Name) and calls[0].args[0].id == vname and not calls[0].keywords
    rep.shape(ok_c, len(calls) == 1 and len(calls[0].args) == 1 and unparse(calls[0].args[0]) == "x", "BLOCKWISE", fi, f"block function applied: {unparse(calls[0]) if calls else '(no call)'}", "the block function is applied once to the blocked view", "fn is not applied exactly to the blocked view")
    rets = [unparse(r.value) for r in returns_of(fi.node)]
    flat = ("result.view(*leading_dims, -1)", "result.reshape(*leading_dims, -1)")
    ok_r = any(r_ in flat for r_ in rets)
    tup_loop = any(unparse(s).startswith("processed_results.append(res_part.view(*leading_dims, -1))") or unparse(s).startswith("processed_results.append(res_part.reshape(*leading_dims, -1))") for s in stmts_of(fi.body))
    tup_gen = any(match(r.value, "tuple((_P.view(*leading_dims, -1) for _P in result))") is not None or match(r.value, "tuple((_P.reshape(*leading_dims, -1) for _P in result))") is not None or match(r.value, "tuple([_P.view(*leading_dims, -1) for _P in result])") is not None for r in returns_of(fi.node))
    rep.expect(ok_r and (tup_loop or tup_gen), "BLOCKWISE", fi, f"flatten back: {rets}", "blocks are concatenated again along the last axis, leading dimensions restored (also for tuple results)", "the result is not flattened back to (*lead, -1)")
    n += 4
    # inverse_encode overrides keep the block structure
    ham = repo.func(f"{ENC}/hamming_code.py", "HammingCodeEncoder.inverse_encode")
    hb = [unparse(s) for s in stmts_of(ham.body)]
    ok = "y_reshaped = y.reshape(-1, self.code_length).clone()" in hb and "decoded = decoded.reshape(*original_dims, -1)" in hb and "original_dims = y.size()[:-1]" in hb and "syndrome = self.calculate_syndrome(y)" in hb and "decoded = y_reshaped[..., self.information_set]" in hb
    if not ok and "decoded = decoded.reshape(*original_dims, self.code_dimension)" in hb:
        rep.violation("BLOCKWISE", ham, "decoded = decoded.reshape(*original_dims, self.code_dimension)", "the decoded bits of a multi-block input ((..., b*n) with b > 1) cannot be reshaped to (..., k): several blocks per row are not supported although the encoder produces them")
    else:
        rep.expect(ok, "BLOCKWISE", ham, "Hamming inverse: rows of n symbols, corrected copy, information positions, result (*lead, -1)", "every block is decoded on its own copy; leading dimensions and block order are kept; length validated by calculate_syndrome", "the Hamming inverse does not keep the (-1, n) / (*lead, -1) block structure")
    n += 1
    rm = repo.func(f"{ENC}/reed_muller_code.py", "ReedMullerCodeEncoder.inverse_encode")
    rb = [unparse(s) for s in stmts_of(rm.body)]
    ok = "y2d = x.reshape(-1, self.code_length)" in rb and any(unparse(r.value) == "(decoded.reshape(*leading_dims, -1), syndrome.reshape(*leading_dims, -1))" for r in returns_of(rm.node)) and divisibility_raise(rm, {"self.code_length"}) is not None
    if not ok and any("x.dim() == 1" in b for b in rb):
        rep.violation("BLOCKWISE", rm, "if x.dim() == 1: ... else: y2d = x", "only a vector or a 2-D batch of single blocks is handled: other layouts are broadcast against the codebook and answered with wrong values instead of being decoded blockwise or rejected")
    else:
        rep.expect(ok, "BLOCKWISE", rm, "Reed-Muller inverse: rows of n symbols, nearest codeword per row, result (*lead, -1), length validated", "every block decoded separately for any leading dimensions", "the Reed-Muller inverse does not keep the (-1, n) / (*lead, -1) block structure")
    n += 1
    from ..speciallint import lint_chunk_local_index

    if lint_chunk_local_index(rep, rm, "INVERSE-FORM") == 0:
        rep.ok("INVERSE-FORM", rm, "no chunked nearest-codeword search", "indices refer to the whole codebook", nontrivial=False)
    # nearest-codeword search: evaluated as a whole first, the listed shape as the fallback (also C02)
    st_, d_ = rm_inverse_cached(repo)
    if st_ is not None:
        rep.add("INVERSE-FORM", rm, "Reed-Muller inverse_encode evaluated on RM(1,3) and RM(2,4) (codewords and words with one error)", st_, d_, node=rm.node)
        return n + 1
    need = ["cws = msgs @ self.generator_matrix % 2", "dists = diff.sum(dim=2)", "best = dists.argmin(dim=0)", "decoded = msgs[best]", "pred_cw = cws[best]"]
    for t in need:
        rep.expect(t in rb, "INVERSE-FORM", rm, f"RM nearest-codeword step `{t}`", "exhaustive minimum Hamming distance over the encoder's own codebook; message and codeword taken at the same index", "the nearest-codeword search changed")
        n += 1
    m = [b for b in rb if b.startswith("msgs = torch.tensor(list(itertools.product([0, 1], repeat=self.code_dimension))")]
    rep.expect(len(m) == 1, "INVERSE-FORM", rm, "all 2^k messages enumerated", "complete codebook", "the codebook is not the full set of 2^k messages")
    return n + 1


def run(repo: Repo, rep: Report, tier: str) -> None:
    if tier == "thorough":
        from .c01 import thorough_evaluations

        thorough_evaluations(repo, rep)
    n = rule_right_inverse(repo, rep)
    n += rule_inverse_form(repo, rep)
    n += rule_blockwise(repo, rep)
    n += rule_api_blockwise(repo, rep)
    # the generator of an LDPC code comes from the GF(2) elimination helper: its rank / pivots decide whether the encoded
    # words are codewords of H at all (same rule as C01)
    from .c01 import rule_row_reduction

    n += rule_row_reduction(repo, rep)
    # the encoder side of the systematic round trip: message bit j at information_set[j], for every index list
    from .c01 import rule_systematic_forward

    sci = repo.cls(SYS, "SystematicLinearBlockCodeEncoder")
    n += rule_systematic_forward(rep, repo.method(sci, "forward"))
    # the published generator / check matrix (syndrome of a clean codeword, Hamming's syndrome correction) follow the same
    # layout: identity at information_set[i], parities on the ascending remaining positions (same rule as C01)
    from .c01 import rule_systematic_matrix

    n += rule_systematic_matrix(repo, rep)
    # "... and an all-zero syndrome": the published check matrix of the cyclic / BCH encoders annihilates what the
    # systematic encoder produces, for every information set (same layout rule as C01)
    from .c01 import rule_check_layout

    for f_, q_ in ((f"{ENC}/cyclic_code.py", "CyclicCodeEncoder._compute_check_matrix"), (f"{ENC}/bch_code.py", "BCHCodeEncoder._compute_check_matrix")):
        try:
            n += rule_check_layout(rep, repo.func(f_, q_))
        except AnalysisError:
            rep.note(f"{q_} not present on this tree")
    # the check matrix of the generic encoders is the exact GF(2) null space of G (rule shared with C01)
    from .c01 import rule_null_space

    n += rule_null_space(repo, rep)
    # memoised decoding helpers shared between encoder objects must be keyed by the code they belong to
    from .c20 import rule_cache_key

    enc_classes = [ci_ for mi_ in repo.modules.values() if mi_.relpath.startswith(ENC + "/") for ci_ in mi_.classes.values()]
    n += rule_cache_key(repo, rep, enc_classes)
    from .c01 import rule_buffer_persistence

    n += rule_buffer_persistence(repo, rep, names=("generator_matrix", "generator_right_inverse"), effect="inverse_encode applies the right inverse of another code's generator and no longer undoes the encoder", floor=3)
    rep.floor("C04 rule instances", n, 28)
    rep.decided_clauses += [
        "right inverse: exact or verified on the returned object; systematic encoders use the selection matrix of their information set",
        "inverse_encode = blockwise x.R mod 2 with the syndrome of the same input; extract_message and project_word delegate / index per block",
        "block reshaping (*lead, L//b, b) <-> (*lead, -1) with divisibility rejection, also in the Hamming and Reed-Muller overrides",
        "systematic encoders scatter message bit j to information_set[j] and parity to parity_set, with no branch keyed on the index values",
    ]
    rep.undecided_clauses += ["round trip as a value identity for arbitrary user generators"]
