"""C18 - GF(2)[x] and GF(2^m) arithmetic: table validation + closed-form structure.

Decided (DESIGN.md C18): (1) every tabulated modulus has degree m and x has multiplicative
order 2^m - 1 modulo it (checker's own bitmask arithmetic on the literals found in the
source); the designated primitive element is a unit for every tabulated m;
(2) the operators that carry the field/ring laws have their closed forms; no value-keyed
special case beyond the identities 0/1.  Not decided: the ring laws of the shift-xor loops
as value identities.
"""
from __future__ import annotations

import ast
from typing import Dict, List, Optional

from .. import gf2
from ..astutil import Inliner, assignments, attr_chain, call_name, const_value, match, returns_of, set_parents, stmts_of, walk_no_nested
from ..closedform import check_expr, classify, canon
from ..constfold import Folder, Unfoldable
from ..core import OK, UNDECIDED, VIOLATION, AnalysisError, Repo, Report, unparse
from ..speciallint import lint_value_keyed

EXPLANATION = (
    "Static analysis of kaira/models/fec/algebra.py. Rule F-MODULUS extracts every integer literal that can reach "
    "`self.modulus = BinaryPolynomial(table[m])` and decides with the checker's own GF(2)[x] arithmetic that it has degree m and that "
    "x has order 2^m-1 modulo it (m = 1..16). Rule PRIMITIVE-ELEMENT decides that the designated primitive element is x reduced "
    "modulo the field polynomial (a literal 2 reduced by an integer `% size` is 0 in GF(2)). Rules CLOSED-FORM compare the expressions that "
    "carry the laws (XOR addition, product modulo the field modulus, Fermat inverse a^(2^m-2), m-1 squarings for trace/conjugates, Euclid step, "
    "lcm = a*b/gcd, shift-xor multiply/divide steps, minimal-polynomial acceptance test) with reasoned reference shapes after inlining "
    "temporaries: an identical skeleton with a different operator/constant is a violation, an unknown skeleton is 'undecided'. Rule G1 rejects "
    "value-keyed special cases other than the identities 0 and 1. The behaviour (ring/field laws as value identities) is NOT decided."
)

ALG = "kaira/models/fec/algebra.py"


def _dict_literals_reaching(fi, name: str) -> List[ast.Dict]:
    out = []
    for st in stmts_of(fi.body):
        if isinstance(st, ast.Assign) and any(isinstance(t, ast.Name) and t.id == name for t in st.targets):
            if isinstance(st.value, ast.Dict):
                out.append(st.value)
            else:
                raise AnalysisError(f"{fi.where()}: `{name}` is not assigned a dict literal: {unparse(st)}")
    return out


def rule_modulus_table(repo: Repo, rep: Report) -> None:
    fi = repo.func(ALG, "FiniteBifield.__init__")
    table: Dict[int, int] = {}
    sites = 0
    for st in stmts_of(fi.body):
        if isinstance(st, ast.Assign) and any(attr_chain(t) == "self.modulus" for t in st.targets):
            sites += 1
            m = match(st.value, "BinaryPolynomial(_T[_K])")
            if m is None or not isinstance(m["_T"], ast.Name):
                lit = None
                mm = match(st.value, "BinaryPolynomial(_V)")
                if mm is not None:
                    try:
                        lit = const_value(mm["_V"])
                    except ValueError:
                        lit = None
                if lit is None:
                    rep.undecided("F-MODULUS", fi, st, "modulus is not taken from a literal table indexed by m")
                    continue
                rep.undecided("F-MODULUS", fi, st, "modulus literal without its m")
                continue
            if not (isinstance(m["_K"], ast.Name) and m["_K"].id == "m") and attr_chain(m["_K"]) != "self.m":
                rep.violation("F-MODULUS", fi, st, f"table is indexed by `{unparse(m['_K'])}`, not by the field degree m")
                continue
            for d in _dict_literals_reaching(fi, m["_T"].id):
                for k, v in zip(d.keys, d.values):
                    try:
                        kk, vv = const_value(k), const_value(v)
                    except ValueError:
                        rep.undecided("F-MODULUS", fi, f"{unparse(k)}: {unparse(v)}", "non-literal table entry")
                        continue
                    if kk in table and table[kk] != vv:
                        rep.violation("F-MODULUS", fi, f"{kk}: {bin(vv)}", f"two different moduli tabulated for m={kk}")
                    table[kk] = vv
    if sites == 0:
        raise AnalysisError("anchor vanished: no assignment to self.modulus in FiniteBifield.__init__")
    for m_, p in sorted(table.items()):
        construct = f"modulus[m={m_}] = {bin(p)}"
        if not isinstance(m_, int) or not isinstance(p, int):
            rep.undecided("F-MODULUS", fi, construct, "non-integer entry")
            continue
        if gf2.pdeg(p) != m_:
            rep.violation("F-MODULUS", fi, construct, f"degree {gf2.pdeg(p)} != m={m_}: the field would not have 2^{m_} elements")
        elif not gf2.is_primitive(p, m_):
            irr = gf2.is_irreducible(p)
            rep.violation("F-MODULUS", fi, construct, f"not primitive: {'irreducible' if irr else 'reducible'}, order of x is {gf2.order_of_x(p)} instead of {(1 << m_) - 1}")
        else:
            rep.ok("F-MODULUS", fi, construct, f"degree {m_}, x has order {(1 << m_) - 1}")
    rep._modulus_table = dict(table)  # type: ignore[attr-defined]
    missing = [m_ for m_ in range(1, 17) if m_ not in table]
    rep.check(not missing, "F-MODULUS-COVER", fi, "table keys cover m = 1..16", "all sixteen degrees tabulated", f"no modulus tabulated for m in {missing}")
    rep.floor("tabulated moduli", len(table), 16)

    # the size of the field must be 2**m (elements are reduced with it)
    ok = False
    for st in stmts_of(fi.body):
        if isinstance(st, (ast.Assign, ast.AnnAssign)):
            tg = st.targets[0] if isinstance(st, ast.Assign) else st.target
            if attr_chain(tg) == "self.size" and st.value is not None:
                s, _, _ = classify(st.value, ["2 ** m", "1 << m"])
                rep.add("CLOSED-FORM", fi, f"self.size = {unparse(st.value)}", s, "field size 2^m", node=st)
                ok = True
    if not ok:
        raise AnalysisError("anchor vanished: self.size in FiniteBifield.__init__")


def rule_primitive_element(repo: Repo, rep: Report) -> None:
    fi = repo.func(ALG, "FiniteBifield.primitive_element")
    call = repo.func(ALG, "FiniteBifield.__call__")
    # does __call__ reduce the integer with `% self.size`?
    int_mod = any(match(n, "_V % self.size") is not None for n in ast.walk(call.node))
    rets = returns_of(fi.node)
    if not rets:
        raise AnalysisError("primitive_element has no return")
    inl = Inliner(fi)
    for r in rets:
        e = inl.inline(r.value)
        m = match(e, "self(_E)")
        if m is None:
            rep.undecided("PRIMITIVE-ELEMENT", fi, r, "not of the form self(<element>)")
            continue
        arg = m["_E"]
        if match(arg, "(BinaryPolynomial(2) % self.modulus).value") is not None:
            rep.ok("PRIMITIVE-ELEMENT", fi, r, "x reduced modulo the field polynomial: a unit for every m (x mod (x+1) = 1)")
            continue
        try:
            v = const_value(arg)
        except ValueError:
            rep.undecided("PRIMITIVE-ELEMENT", fi, r, "element is neither a literal nor x mod modulus")
            continue
        if v != 2:
            rep.violation("PRIMITIVE-ELEMENT", fi, r, f"designated element {v} is not x (0b10); the tabulated moduli are validated for x only")
        elif int_mod:
            rep.violation("PRIMITIVE-ELEMENT", fi, r, "literal 0b10 is reduced by the integer `% self.size` in __call__: for m = 1 this is element 0, which has no multiplicative order")
        else:
            rep.ok("PRIMITIVE-ELEMENT", fi, r, "x")


def _single_return(repo, rep, qual, rule="CLOSED-FORM"):
    fi = repo.func(ALG, qual)
    rets = returns_of(fi.node)
    return fi, rets


def rule_closed_forms(repo: Repo, rep: Report) -> None:
    # --- element addition: XOR of the values
    fi = repo.func(ALG, "FiniteBifieldElement.__add__")
    last = [r for r in returns_of(fi.node) if match(r.value, "NotImplemented") is None]
    for r in last:
        check_expr(rep, "CLOSED-FORM", fi, r.value, ["FiniteBifieldElement(self.field, self.value ^ other.value)", "self.field(self.value ^ other.value)"], "GF(2^m) addition is XOR")
    rep.floor("__add__ returns", len(last), 1)

    # --- element multiplication: (a*b) mod field.modulus, with only 0/1 shortcuts
    fi = repo.func(ALG, "FiniteBifieldElement.__mul__")
    n_general = 0
    for r in returns_of(fi.node):
        e = Inliner(fi).inline(r.value)
        if match(e, "NotImplemented") is not None:
            continue
        if match(e, "self.field(0)") is not None or match(e, "other") is not None or match(e, "self") is not None:
            # shortcut returns: must be guarded by the matching identity test
            set_parents(fi.node)
            from ..astutil import ancestors

            guard = next((a for a in ancestors(r) if isinstance(a, ast.If)), None)
            gtxt = unparse(guard.test) if guard is not None else ""
            want = {"self.field(0)": ["self.value == 0 or other.value == 0", "other.value == 0 or self.value == 0"], "other": ["self.value == 1"], "self": ["other.value == 1"]}[unparse(e)]
            rep.shape(gtxt in want, False, "CLOSED-FORM", fi, f"shortcut `return {unparse(e)}` under `{gtxt}`", "identity shortcut (0 annihilates, 1 is neutral)", f"shortcut result `{unparse(e)}` is not justified by its guard (accepted: {want})", node=r)
            continue
        n_general += 1
        mm = match(e, "FiniteBifieldElement(self.field, ((BinaryPolynomial(self.value) * BinaryPolynomial(other.value)) % _M).value)") or match(e, "self.field(((BinaryPolynomial(self.value) * BinaryPolynomial(other.value)) % _M).value)")
        if mm is not None and unparse(mm["_M"]) != "self.field.modulus":
            rep.violation("CLOSED-FORM", fi, f"GF(2^m) product: {unparse(e)}", f"the product is reduced modulo `{unparse(mm['_M'])}`, not modulo the field's validated modulus `self.field.modulus`", node=r)
            continue
        check_expr(
            rep,
            "CLOSED-FORM",
            fi,
            r.value,
            [
                "FiniteBifieldElement(self.field, ((BinaryPolynomial(self.value) * BinaryPolynomial(other.value)) % self.field.modulus).value)",
                "self.field(((BinaryPolynomial(self.value) * BinaryPolynomial(other.value)) % self.field.modulus).value)",
            ],
            "GF(2^m) product = polynomial product modulo the field modulus",
        )
    rep.floor("__mul__ general returns", n_general, 1)

    # --- inverse: Fermat a^(2^m - 2)
    fi = repo.func(ALG, "FiniteBifieldElement.inverse")
    n = 0
    for r in returns_of(fi.node):
        e = Inliner(fi).inline(r.value)
        if match(e, "self") is not None:
            continue  # guarded by value == 1 (checked by G1: identities only)
        n += 1
        check_expr(rep, "CLOSED-FORM", fi, r.value, ["self ** (self.field.size - 2)", "self ** (2 ** self.field.m - 2)", "pow(self, self.field.size - 2)"], "inverse = a^(2^m-2) (Fermat)")
    rep.floor("inverse general returns", n, 1)
    raises_zero = any(isinstance(s, ast.If) and match(s.test, "self.value == 0") is not None and any(isinstance(x, ast.Raise) for x in s.body) for s in stmts_of(fi.body))
    rep.shape(raises_zero, False, "CLOSED-FORM", fi, "inverse of zero raises", "zero has no inverse: ValueError", "inverse() no longer rejects the zero element")

    # --- trace / conjugates: m-1 squarings
    conj_done = False
    trace_done = False
    for qual, what in (("FiniteBifieldElement.trace", "trace = sum of a^(2^i), i<m"), ("FiniteBifieldElement.conjugates", "conjugates a^(2^i), i<m")):
        fi = repo.func(ALG, qual)
        if qual.endswith("trace"):
            tst, tdetail = trace_tabulated(fi)
            if tst in (OK, VIOLATION):
                rep.add("KERNEL", fi, "FiniteBifieldElement.trace tabulated over GF(4), GF(8), GF(16), GF(64)", tst, tdetail, node=fi.node)
                trace_done = True
                continue
        loops = [s for s in stmts_of(fi.body) if isinstance(s, ast.For)]
        if qual.endswith("conjugates") and not (len(loops) == 1 and classify(loops[0].iter, ["range(1, self.field.m)", "range(self.field.m - 1)"])[0] == OK and any(match(x, "_E = _E * _E") is not None for x in loops[0].body if isinstance(x, ast.Assign))):
            cst, cdetail = conjugates_tabulated(repo, fi)
            if cst in (OK, VIOLATION):
                rep.add("KERNEL", fi, "FiniteBifieldElement.conjugates tabulated over GF(4), GF(8), GF(16), GF(64)", cst, cdetail, node=fi.node)
                conj_done = True
                continue
        if len(loops) != 1:
            rep.undecided("CLOSED-FORM", fi, "squaring loop", f"{len(loops)} for-loops (expected one)")
            continue
        lp = loops[0]
        s, d, _ = classify(lp.iter, ["range(1, self.field.m)", "range(self.field.m - 1)"])
        rep.add("CLOSED-FORM", fi, f"{what}: for _ in {unparse(lp.iter)}", s, d or "m-1 squarings", node=lp)
        sq = [x for x in lp.body if isinstance(x, ast.Assign) and match(x, "_E = _E * _E") is not None]
        bad_sq = [x for x in lp.body if isinstance(x, ast.Assign) and isinstance(x.value, ast.BinOp) and match(x, "_E = _E * _E") is None and isinstance(x.targets[0], ast.Name) and x.targets[0].id in {n_.id for n_ in ast.walk(x.value) if isinstance(n_, ast.Name)}]
        if sq:
            rep.ok("CLOSED-FORM", fi, f"{what}: {unparse(sq[0])}", "Frobenius step is squaring")
        elif bad_sq:
            rep.violation("CLOSED-FORM", fi, f"{what}: {unparse(bad_sq[0])}", "the Frobenius step must be `e = e * e` (squaring)")
        else:
            rep.undecided("CLOSED-FORM", fi, f"{what}: loop body", "no squaring step recognised")
    fi = repo.func(ALG, "FiniteBifieldElement.trace")
    acc = [] if trace_done else [x for x in stmts_of(fi.body) if isinstance(x, ast.AugAssign)]
    for x in acc:
        s, d, _ = classify(x, ["result = result ^ element.value"])
        rep.add("CLOSED-FORM", fi, f"trace accumulation: {unparse(x)}", s, d, node=x)
    for r in ([] if trace_done else returns_of(fi.node)):
        s, d, _ = classify(r.value, ["result & 1", "result"], int_context=True)
        rep.add("CLOSED-FORM", fi, f"trace value: {unparse(r.value)}", s, d, node=r)
    # conjugates: stop only on returning to the start, append otherwise
    fi = repo.func(ALG, "FiniteBifieldElement.conjugates")
    brk = [s for s in stmts_of(fi.body) if isinstance(s, ast.If) and any(isinstance(b, ast.Break) for b in s.body)]
    for b in ([] if conj_done else brk):
        s, d, _ = classify(b.test, ["element.value == self.value", "element == self"])
        rep.add("CLOSED-FORM", fi, f"conjugate cycle closes: if {unparse(b.test)}: break", s, d, node=b)

    # --- FiniteBifieldElement.minimal_polynomial, tabulated for every element (decides unlisted spellings of its search)
    fi = repo.func(ALG, "FiniteBifieldElement.minimal_polynomial")
    mst, mdetail = minpoly_tabulated(fi)
    rep.add("KERNEL", fi, "FiniteBifieldElement.minimal_polynomial tabulated over every element of GF(4), GF(8), GF(16), GF(64)", mst, mdetail, node=fi.node)

    # --- FiniteBifield.get_minimal_polynomials: the table of all minimal polynomials, however it is assembled
    fi = repo.func(ALG, "FiniteBifield.get_minimal_polynomials")
    tst, tdetail = minpoly_table_evaluated(fi)
    rep.add("KERNEL", fi, "get_minimal_polynomials tabulated for GF(4), GF(8), GF(16), GF(64): entry i = minimal polynomial of element i", tst, tdetail, node=fi.node)

    # --- BinaryPolynomial.gcd: Euclid
    fi = repo.func(ALG, "BinaryPolynomial.gcd")
    wl = [s for s in stmts_of(fi.body) if isinstance(s, ast.While)]
    gst, gdetail = gcd_tabulated(fi)
    if gst in (OK, VIOLATION):
        # the gcd is a pure function of two words: tabulated with the checker's own polynomial model (supersedes the shape rule)
        rep.add("KERNEL", fi, "BinaryPolynomial.gcd tabulated against the Euclidean gcd in GF(2)[x]", gst, gdetail, node=fi.node)
    elif len(wl) != 1:
        rep.undecided("CLOSED-FORM", fi, "Euclid loop", f"{len(wl)} while-loops")
    else:
        w = wl[0]
        s, d, _ = classify(w.test, ["b.value != 0", "b.value", "b.value > 0"])
        rep.add("CLOSED-FORM", fi, f"Euclid loop test: while {unparse(w.test)}", s, d, node=w)
        steps = [x for x in w.body if isinstance(x, ast.Assign)]
        if len(steps) == 1:
            s, d, _ = classify(steps[0], ["(a, b) = (b, a % b)"])
            rep.add("CLOSED-FORM", fi, f"Euclid step: {unparse(steps[0])}", s, d, node=steps[0])
        else:
            rep.undecided("CLOSED-FORM", fi, "Euclid step", "loop body is not a single simultaneous assignment")
        after = [r for r in returns_of(fi.node) if r.lineno > w.lineno]
        for r in after:
            s, d, _ = classify(r.value, ["a"])
            rep.add("CLOSED-FORM", fi, f"Euclid result: return {unparse(r.value)}", s, d, node=r)

    # --- lcm = a*b / gcd
    fi = repo.func(ALG, "BinaryPolynomial.lcm")
    finals = [r for r in returns_of(fi.node) if match(Inliner(fi).inline(r.value), "BinaryPolynomial(0)") is None and match(r.value, "self") is None]
    lst, ldetail = lcm_tabulated(fi)
    if lst in (OK, VIOLATION):
        rep.add("KERNEL", fi, "BinaryPolynomial.lcm tabulated against a*b / gcd(a,b) in GF(2)[x]", lst, ldetail, node=fi.node)
        finals = []
    for r in finals:
        check_expr(rep, "CLOSED-FORM", fi, r.value, ["(self * other).div(self.gcd(other))", "(other * self).div(self.gcd(other))", "(self * other).div(other.gcd(self))"], "lcm = a*b / gcd(a,b)")
    rep.floor("lcm general returns / tabulation", len(finals) + (1 if lst in (OK, VIOLATION) else 0), 1)

    # --- shift-xor multiply
    fi = repo.func(ALG, "BinaryPolynomial.__mul__")
    wl = [s for s in stmts_of(fi.body) if isinstance(s, ast.While)]
    if len(wl) != 1:
        rep.undecided("CLOSED-FORM", fi, "carry-less multiply loop", f"{len(wl)} while-loops")
    else:
        w = wl[0]
        forms = {
            "accumulate": (["result = result ^ a"], "XOR-accumulate the shifted multiplicand"),
            "shift": (["a = a << 1"], "multiply by x"),
            "next": (["b = b >> 1"], "next coefficient"),
        }
        got = {}
        for x in stmts_of(w.body):
            if isinstance(x, (ast.AugAssign, ast.Assign)):
                cx = canon(x, True)
                tname = unparse(cx.targets[0]) if isinstance(cx, ast.Assign) else None
                key = {"result": "accumulate", "a": "shift", "b": "next"}.get(tname)
                if key is None:
                    continue
                s, d, _ = classify(x, forms[key][0], int_context=True)
                # x * 2 == x << 1, x // 2 == x >> 1 are accepted equivalents
                if s != OK:
                    s2, _, _ = classify(x, {"shift": ["a = a * 2"], "next": ["b = b // 2"], "accumulate": ["result = a ^ result"]}[key], int_context=True)
                    if s2 == OK:
                        s, d = OK, "equivalent integer form"
                rep.add("CLOSED-FORM", fi, f"carry-less multiply {key}: {unparse(x)}", s, d or forms[key][1], node=x)
                got[key] = True
            if isinstance(x, ast.If) and any(isinstance(y, (ast.AugAssign, ast.Assign)) for y in x.body):
                s, d, _ = classify(x.test, ["b & 1", "b & 1 == 1", "(b & 1) != 0"], int_context=True)
                rep.add("CLOSED-FORM", fi, f"carry-less multiply coefficient test: if {unparse(x.test)}", s, d, node=x)
                got["test"] = True
        for key in ("accumulate", "shift", "next", "test"):
            if key not in got:
                rep.undecided("CLOSED-FORM", fi, f"carry-less multiply {key}", "step not found in the loop")

    # --- shift-xor division (mod and div)
    for qual, kind in (("BinaryPolynomial.__mod__", "mod"), ("BinaryPolynomial.div", "div")):
        fi = repo.func(ALG, qual)
        wl = [s for s in stmts_of(fi.body) if isinstance(s, ast.While)]
        if len(wl) != 1:
            rep.undecided("CLOSED-FORM", fi, "long division loop", f"{len(wl)} while-loops")
            continue
        w = wl[0]
        inl = Inliner(fi, allow_loop_defs=True)
        # exit test: remainder degree < divisor degree
        brks = [s for s in stmts_of(w.body) if isinstance(s, ast.If) and any(isinstance(b, ast.Break) for b in s.body)]
        if len(brks) != 1:
            rep.undecided("CLOSED-FORM", fi, "division loop exit", f"{len(brks)} break tests")
        else:
            t = inl.inline(brks[0].test)
            dv = "modulus" if kind == "mod" else "divisor"
            s, d, _ = classify(t, [f"BinaryPolynomial(remainder).degree < {dv}.degree", f"remainder.bit_length() - 1 < {dv}.degree"], int_context=True)
            rep.add("CLOSED-FORM", fi, f"division stops when deg r < deg b: if {unparse(t)}: break", s, d, node=brks[0])
        xors = [x for x in stmts_of(w.body) if isinstance(x, ast.AugAssign) and isinstance(x.target, ast.Name) and x.target.id == "remainder"]
        for x in xors:
            e = inl.inline(ast.BinOp(left=ast.Name("remainder", ast.Load()), op=x.op, right=x.value))
            dv = "modulus" if kind == "mod" else "divisor"
            s, d, _ = classify(e, [f"remainder ^ ({dv}.value << (BinaryPolynomial(remainder).degree - {dv}.degree))"], int_context=True)
            rep.add("CLOSED-FORM", fi, f"division step: remainder = {unparse(e)}", s, d, node=x)
        if not xors:
            rep.undecided("CLOSED-FORM", fi, "division step", "no `remainder ^= ...` found")
        if kind == "div":
            qs = [x for x in stmts_of(w.body) if isinstance(x, ast.AugAssign) and isinstance(x.target, ast.Name) and x.target.id == "quotient"]
            for x in qs:
                e = inl.inline(ast.BinOp(left=ast.Name("quotient", ast.Load()), op=x.op, right=x.value))
                forms = [f"quotient {op} (1 << (BinaryPolynomial(remainder).degree - divisor.degree))" for op in ("|", "^", "+")]
                s, d, _ = classify(e, forms, int_context=True)
                rep.add("CLOSED-FORM", fi, f"quotient bit: quotient = {unparse(e)}", s, d, node=x)
            if not qs:
                rep.undecided("CLOSED-FORM", fi, "quotient bit", "no `quotient |= ...` found")
            for r in [r for r in returns_of(fi.node) if r.lineno > w.lineno]:
                s, d, _ = classify(r.value, ["BinaryPolynomial(quotient)"])
                rep.add("CLOSED-FORM", fi, f"division result: return {unparse(r.value)}", s, d, node=r)
        else:
            for r in [r for r in returns_of(fi.node) if r.lineno > w.lineno]:
                s, d, _ = classify(r.value, ["BinaryPolynomial(remainder)"])
                rep.add("CLOSED-FORM", fi, f"remainder result: return {unparse(r.value)}", s, d, node=r)

    # --- degree
    fi = repo.func(ALG, "BinaryPolynomial.degree")
    for r in returns_of(fi.node):
        s, d, _ = classify(r.value, ["self.value.bit_length() - 1", "-1"])
        rep.add("CLOSED-FORM", fi, f"degree: return {unparse(r.value)}", s, d, node=r)

    # --- evaluate: power accumulation with field addition / XOR
    fi = repo.func(ALG, "BinaryPolynomial.evaluate")
    wl = [s for s in stmts_of(fi.body) if isinstance(s, ast.While)]
    est_, ed_ = evaluate_tabulated(fi)
    if est_ in (OK, VIOLATION):
        # a pure function of a word and a field element: tabulated with the checker's own field model (supersedes the shape rule)
        rep.add("KERNEL", fi, "BinaryPolynomial.evaluate tabulated over GF(4), GF(8), GF(16) and at the integers 0 and 1", est_, ed_, node=fi.node)
        wl = []
    else:
        rep.floor("evaluate loops", len(wl), 2)
    for w in wl:
        for x in stmts_of(w.body):
            if isinstance(x, (ast.Assign, ast.AugAssign)):
                t = unparse(x.targets[0] if isinstance(x, ast.Assign) else x.target)
                if t == "result":
                    s, d, _ = classify(x, ["result = result + power", "result = result ^ power"])
                elif t == "power":
                    s, d, _ = classify(x, ["power = power * x"])
                elif t == "value":
                    s, d, _ = classify(x, ["value = value >> 1"], int_context=True)
                else:
                    continue
                rep.add("CLOSED-FORM", fi, f"evaluate: {unparse(x)}", s, d, node=x)
            if isinstance(x, ast.If):
                s, d, _ = classify(x.test, ["value & 1"], int_context=True)
                rep.add("CLOSED-FORM", fi, f"evaluate coefficient test: if {unparse(x.test)}", s, d, node=x)

    # --- __pow__: square and multiply
    fi = repo.func(ALG, "FiniteBifieldElement.__pow__")
    wl = [s for s in stmts_of(fi.body) if isinstance(s, ast.While)]
    if len(wl) != 1:
        rep.undecided("CLOSED-FORM", fi, "square-and-multiply loop", f"{len(wl)} while-loops")
    else:
        for x in stmts_of(wl[0].body):
            if isinstance(x, (ast.Assign, ast.AugAssign)):
                t = unparse(x.targets[0] if isinstance(x, ast.Assign) else x.target)
                if t == "result":
                    s, d, _ = classify(x, ["result = result * base"])
                elif t == "base":
                    s, d, _ = classify(x, ["base = base * base"])
                elif t == "exponent":
                    s, d, _ = classify(x, ["exponent = exponent >> 1"], int_context=True)
                    if s != OK and classify(x, ["exponent = exponent // 2"], int_context=True)[0] == OK:
                        s, d = OK, "equivalent integer form"
                else:
                    continue
                rep.add("CLOSED-FORM", fi, f"square-and-multiply: {unparse(x)}", s, d, node=x)
            if isinstance(x, ast.If):
                s, d, _ = classify(x.test, ["exponent & 1"], int_context=True)
                rep.add("CLOSED-FORM", fi, f"square-and-multiply bit test: if {unparse(x.test)}", s, d, node=x)
        in_loop_ids = {id(x) for x in stmts_of(wl[0].body)}
        init = [x for x in stmts_of(fi.body) if isinstance(x, ast.Assign) and unparse(x.targets[0]) == "result" and id(x) not in in_loop_ids]
        for x in init:
            s, d, _ = classify(x.value, ["FiniteBifieldElement(self.field, 1)", "self.field(1)", "self.field.one"])
            rep.add("CLOSED-FORM", fi, f"square-and-multiply start: {unparse(x)}", s, d, node=x)

    # --- minimal polynomial: monic degree len(conjugates), accepted only if it vanishes on all conjugates
    fi = repo.func(ALG, "FiniteBifieldElement.minimal_polynomial")
    inl = Inliner(fi)
    d_asg = [x for x in stmts_of(fi.body) if isinstance(x, ast.Assign) and unparse(x.targets[0]) == "d"]
    for x in d_asg:
        s, dd, _ = classify(inl.inline(x.value), ["len(self.conjugates())"])
        rep.add("CLOSED-FORM", fi, f"minimal polynomial degree: d = {unparse(inl.inline(x.value))}", s, dd or "degree = size of the conjugacy class", node=x)
    rep.floor("minimal_polynomial degree definitions", len(d_asg), 1)
    lead = [x for x in stmts_of(fi.body) if isinstance(x, ast.Assign) and unparse(x.targets[0]) == "p_value" and not isinstance(x.value, ast.BinOp) or (isinstance(x, ast.Assign) and unparse(x.targets[0]) == "p_value")]
    for x in lead:
        s, dd, _ = classify(x.value, ["1 << d", "2 ** d"], int_context=True)
        rep.add("CLOSED-FORM", fi, f"monic leading term: {unparse(x)}", s, dd, node=x)
    # acceptance: `return p` only under `if all_zero` where all_zero is cleared on a non-zero evaluation over *conjugates*
    set_parents(fi.node)
    from ..astutil import ancestors

    acc_rets = [r for r in returns_of(fi.node) if match(r.value, "p") is not None]
    for r in acc_rets:
        guard = next((a for a in ancestors(r) if isinstance(a, ast.If)), None)
        good = guard is not None and unparse(guard.test) == "all_zero"
        weakened = guard is not None and isinstance(guard.test, ast.BoolOp) and isinstance(guard.test.op, ast.Or) and any(unparse(v_) == "all_zero" for v_ in guard.test.values)
        # for/else form: `for conj in conjugates: ... if val != 0: break` / `else: return p`
        forelse = next((a for a in ancestors(r) if isinstance(a, ast.For) and any(r is y for b_ in a.orelse for y in ast.walk(b_))), None)
        if guard is None and forelse is not None:
            brk = [b_ for b_ in ast.walk(forelse) if isinstance(b_, ast.Break)]
            brk_ok = bool(brk) and all(any(isinstance(g_, ast.If) and isinstance(g_.test, ast.Compare) and isinstance(g_.test.ops[0], ast.NotEq) and unparse(g_.test.comparators[0]) in ("0", "self.field.zero", "field.zero") for g_ in ancestors(b_)) for b_ in brk) and "conjugate" in unparse(forelse.iter)
            good = brk_ok
        rep.shape(good, (guard is None and forelse is None) or weakened, "CLOSED-FORM", fi, f"acceptance: return p under `{unparse(guard.test) if guard else 'no guard'}`", "candidate returned only if it vanished on every conjugate", "candidate polynomial is returned without the vanishing test")
    rep.floor("minimal_polynomial acceptance returns", len(acc_rets), 1)
    clear = [x for x in stmts_of(fi.body) if isinstance(x, ast.If) and any(isinstance(y, ast.Assign) and unparse(y) == "all_zero = False" for y in x.body)]
    for x in clear:
        s, dd, _ = classify(x.test, ["val != 0"])
        rep.add("CLOSED-FORM", fi, f"rejection test: if {unparse(x.test)}: all_zero = False", s, dd, node=x)
    loops = [x for x in stmts_of(fi.body) if isinstance(x, ast.For) and unparse(x.target) == "conj"]
    for x in loops:
        s, dd, _ = classify(x.iter, ["conjugates"])
        rep.add("CLOSED-FORM", fi, f"roots tested: for conj in {unparse(x.iter)}", s, dd, node=x)
    rep.floor("minimal_polynomial root loops", len(loops), 1)
    outer = [x for x in stmts_of(fi.body) if isinstance(x, ast.For) and unparse(x.target) == "mask"]
    for x in outer:
        s, dd, _ = classify(x.iter, ["range(1 << d)", "range(2 ** d)"], int_context=True)
        if s != OK:
            s, dd, _ = classify(Inliner(fi).inline(x.iter), ["range(1 << d)", "range(2 ** d)", "range(1 << len(self.conjugates()))", "range(1 << len(conjugates))"], int_context=True)
        rep.add("CLOSED-FORM", fi, f"candidate enumeration: for mask in {unparse(x.iter)}", s, dd or "all monic polynomials of degree d, ascending", node=x)


class _PolyModel(ast.NodeTransformer):
    """Rewrite a BinaryPolynomial method body into integer arithmetic on the `.value` words."""

    def __init__(self, operands):
        self.operands = set(operands)

    def visit_Call(self, node):
        self.generic_visit(node)
        nm = call_name(node) or ""
        if nm == "isinstance" and len(node.args) == 2 and unparse(node.args[1]) in ("BinaryPolynomial", "FiniteBifieldElement"):
            return ast.copy_location(ast.Constant(True), node)
        if nm == "BinaryPolynomial" and len(node.args) == 1:
            return node.args[0]
        if nm == "BinaryPolynomial" and not node.args:
            return ast.copy_location(ast.Constant(0), node)
        return node

    def visit_Attribute(self, node):
        self.generic_visit(node)
        if node.attr == "degree":
            base = node.value
            if isinstance(base, ast.Name) and base.id in self.operands:
                base = ast.Attribute(value=base, attr="value", ctx=ast.Load())
            # degree(v) = bit_length(v) - 1 (and -1 for the zero word)
            return ast.copy_location(ast.BinOp(left=ast.Call(func=ast.Attribute(value=base, attr="bit_length", ctx=ast.Load()), args=[], keywords=[]), op=ast.Sub(), right=ast.Constant(1)), node)
        return node

    def visit_Return(self, node):
        self.generic_visit(node)
        if isinstance(node.value, ast.Name) and node.value.id in self.operands:
            node.value = ast.Attribute(value=node.value, attr="value", ctx=ast.Load())
        return node

    def visit_Compare(self, node):
        self.generic_visit(node)
        if isinstance(node.left, ast.Name) and node.left.id in self.operands and len(node.comparators) == 1 and isinstance(node.comparators[0], ast.Name) and node.comparators[0].id in self.operands:
            node.left = ast.Attribute(value=node.left, attr="value", ctx=ast.Load())
            node.comparators = [ast.Attribute(value=node.comparators[0], attr="value", ctx=ast.Load())]
        return node


def conjugates_tabulated(repo: Repo, fi: FuncInfo):
    """An unlisted spelling of conjugates() is run for every element (zero included) of GF(4), GF(8) and GF(16) with own
    model objects for field and elements (tables as `_init_log_exp_tables` builds them) and compared with the orbit of the
    element under squaring."""
    from ..frag import FragRaise, FragReturn, run_fragment

    tb = repo.func(ALG, "FiniteBifield._init_log_exp_tables")
    n = 0
    for m, mod in ((2, 0b111), (3, 0b1011), (4, 0b10011), (6, 0b1000011)):
        size = 1 << m
        try:
            env = run_fragment(tb.body, {}, {"self.m": m, "self.size": size, "self.modulus": gf2.BP(mod), "self.modulus.value": mod, "self._exp_table": [0] * size, "self._log_table": [0] * size}, max_steps=20000)
            at = env["__attrs__"]
            field = gf2.FieldModel(m, mod, at.get("self._exp_table"), at.get("self._log_table"))
        except (Unfoldable, FragRaise, FragReturn, TypeError) as exc:
            return UNDECIDED, f"log/antilog tables not evaluable ({exc})"
        for v in range(size):
            try:
                run_fragment(fi.body, {"self": gf2.FieldElem(field, v)}, {}, max_steps=20000)
                return UNDECIDED, "no value returned"
            except FragReturn as r:
                got = r.value
            except FragRaise:
                return VIOLATION, f"conjugates() of the element {v:#b} of GF(2^{m}) raises"
            except (Unfoldable, TypeError, IndexError) as exc:
                return UNDECIDED, f"not evaluable ({exc})"
            want, e = [v], gf2.pmulmod(v, v, mod)
            while e != v and len(want) < m:
                want.append(e)
                e = gf2.pmulmod(e, e, mod)
            if not (isinstance(got, list) and all(isinstance(x, gf2.FieldElem) for x in got)):
                return UNDECIDED, f"result {got!r} is not a list of field elements"
            if [x.value for x in got] != want:
                return VIOLATION, f"conjugates of the element {v:#b} of GF(2^{m}) are returned as {[x.value for x in got]}; the orbit under squaring is {want} (the minimal polynomial built from them is not the least-degree one)"
            n += 1
    return OK, f"equals the orbit under squaring for all {n} elements (zero included)"


def trace_tabulated(fi: FuncInfo):
    """FiniteBifieldElement.trace run for EVERY element (zero included) of GF(4), GF(8), GF(16), GF(64) with the element
    modelled by gf2.FieldElem (product, conjugates() are the model's own): the result must be the low bit of
    a + a^2 + ... + a^(2^(m-1)) - all m terms, also where the orbit of the element under squaring is shorter than m."""
    from ..frag import FragRaise, FragReturn, run_fragment

    n = 0
    for m, mod in ((2, 0b111), (3, 0b1011), (4, 0b10011), (6, 0b1000011)):
        field = gf2.FieldModel(m, mod)
        for v in range(1 << m):
            try:
                run_fragment(fi.body, {"self": gf2.FieldElem(field, v)}, {}, max_steps=20000)
                return UNDECIDED, "no value returned"
            except FragReturn as r:
                got = r.value
            except FragRaise:
                return VIOLATION, f"trace() of the element {v:#b} of GF(2^{m}) raises"
            except (Unfoldable, TypeError, IndexError, ZeroDivisionError, ArithmeticError) as exc:
                return UNDECIDED, f"not evaluable ({exc})"
            acc, e = 0, v
            for _ in range(m):
                acc ^= e
                e = gf2.pmulmod(e, e, mod)
            if isinstance(got, gf2.FieldElem):
                got = got.value
            if isinstance(got, bool) or not isinstance(got, int):
                return UNDECIDED, f"value {got!r} is not an integer"
            if got != acc & 1:
                return VIOLATION, f"GF(2^{m}): trace of the element {v:#b} is returned as {got}; a + a^2 + ... + a^(2^(m-1)) (all {m} terms) is {acc & 1}"
            n += 1
    return OK, f"equals a + a^2 + ... + a^(2^(m-1)) for all {n} elements of GF(4), GF(8), GF(16), GF(64) (zero included)"


def minpoly_tabulated(fi: FuncInfo):
    """FiniteBifieldElement.minimal_polynomial run for EVERY element (zero included) of GF(4), GF(8), GF(16), GF(64), with
    field, elements and polynomials modelled by gf2 (conjugates() and evaluate() are the model's own): the result must be
    the product of (X + c) over the conjugates - X for the zero element."""
    from ..frag import FragRaise, FragReturn, run_fragment

    count = 0
    for m, mod in ((2, 0b111), (3, 0b1011), (4, 0b10011), (6, 0b1000011)):
        field = gf2.FieldModel(m, mod)
        for v in range(1 << m):
            el = gf2.FieldElem(field, v)
            try:
                run_fragment(fi.body, {"self": el}, {}, max_steps=400000, ctors={"BinaryPolynomial": gf2.BP})
                return UNDECIDED, "no value returned"
            except FragReturn as r:
                got = r.value
            except FragRaise:
                return VIOLATION, f"GF(2^{m}): minimal_polynomial() of the element {v:#b} raises; every element has a minimal polynomial ({'X for the zero element' if v == 0 else 'the product of (X + c) over its conjugates'})"
            except (Unfoldable, TypeError, IndexError, ArithmeticError, ZeroDivisionError) as exc:
                return UNDECIDED, f"not evaluable ({exc})"
            want = el.minimal_polynomial()
            if not isinstance(got, gf2.BP):
                return UNDECIDED, "result is not a polynomial object"
            if got.value != want.value:
                return VIOLATION, f"GF(2^{m}): minimal_polynomial() of the element {v:#b} is {got.value:#b}; the product of (X + c) over its conjugates is {want.value:#b}"
            count += 1
    return OK, f"equals the product of (X + c) over the conjugates for all {count} elements (zero included)"


def minpoly_table_evaluated(fi: FuncInfo):
    """Run FiniteBifield.get_minimal_polynomials with the field and its elements modelled by gf2.FieldModel / FieldElem (whose
    own minimal_polynomial() is the product of (X + c) over the conjugates): the table must have exactly the keys
    1..2^m - 1 and entry i must be the minimal polynomial of element i.  GF(64) has proper subfields GF(4) and GF(8)."""
    from ..frag import FragRaise, FragReturn, run_fragment

    count = 0
    for m, mod in ((2, 0b111), (3, 0b1011), (4, 0b10011), (6, 0b1000011)):
        field = gf2.FieldModel(m, mod)
        try:
            run_fragment(fi.body, {"self": field}, {}, max_steps=800000, ctors={"BinaryPolynomial": gf2.BP})
            return UNDECIDED, "no value returned"
        except FragReturn as r:
            tab = r.value
        except FragRaise:
            return VIOLATION, f"building the table of minimal polynomials of GF(2^{m}) raises"
        except (Unfoldable, TypeError, IndexError, ArithmeticError, ZeroDivisionError) as exc:
            return UNDECIDED, f"not evaluable ({exc})"
        if not isinstance(tab, dict):
            return UNDECIDED, "result is not a dictionary"
        if sorted(tab) != list(range(1, 1 << m)):
            return VIOLATION, f"GF(2^{m}): the table has the keys {sorted(tab)[:6]}... ({len(tab)} entries) instead of every non-zero element 1..{(1 << m) - 1}"
        for i in range(1, 1 << m):
            want = gf2.FieldElem(field, i).minimal_polynomial()
            got = tab[i]
            if not isinstance(got, gf2.BP):
                return UNDECIDED, f"entry {i} is not a polynomial object"
            if got.value != want.value:
                return VIOLATION, f"GF(2^{m}), element {i:#b}: the table holds {got.value:#b} (degree {got.degree}); its minimal polynomial is {want.value:#b} (degree {want.degree}): generator polynomials built as the lcm of table entries get a spurious factor / the wrong degree"
            count += 1
    return OK, f"all {count} entries equal the product of (X + c) over the conjugates of the element"


def gcd_tabulated(fi: FuncInfo):
    """Run BinaryPolynomial.gcd (own model class gf2.BP for the polynomial objects) on all pairs of words below 48 and
    on long words, and compare with gf2.pgcd."""
    from ..frag import FragRaise, FragReturn, run_fragment

    words = list(range(0, 48))
    big = [(1 << 33) | 0b1010, (1 << 40) | (1 << 17), (1 << 20) - 2, 0b1011 << 7, 0b10011 << 3, (0b1011 << 5) ^ (0b1011 << 2)]
    pairs = [(a, b) for a in words for b in words] + [(a, b) for a in big for b in big + [2, 4, 6, 12, 0b1011]] + [(b, a) for a in big for b in (2, 6, 0b1011 << 1)]
    for a, b in pairs:
        try:
            run_fragment(fi.body, {"self": gf2.BP(a), "other": gf2.BP(b)}, {}, max_steps=20000, ctors={"BinaryPolynomial": gf2.BP})
            return UNDECIDED, "no value returned"
        except FragReturn as r:
            got = r.value
        except FragRaise:
            return VIOLATION, f"gcd({bin(a)}, {bin(b)}) raises"
        except (Unfoldable, TypeError, ZeroDivisionError) as exc:
            return UNDECIDED, f"not evaluable ({exc})"
        want = gf2.pgcd(a, b)
        if not isinstance(got, gf2.BP):
            return UNDECIDED, f"result {got!r} is not a polynomial"
        if got.value != want:
            return VIOLATION, f"gcd({bin(a)}, {bin(b)}) is returned as {bin(got.value)}; the greatest common divisor in GF(2)[x] is {bin(want)} (the returned polynomial is not a combination s*a + t*b of the operands / does not carry their common factor)"
    return OK, f"equals the Euclidean gcd (own arithmetic) on {len(pairs)} operand pairs, common powers of x and equal operands included"


def evaluate_tabulated(fi: FuncInfo):
    """Run BinaryPolynomial.evaluate (polynomial and field elements modelled by gf2.BP / gf2.FieldElem) for the polynomials
    0 .. 63 and three longer ones at every element of GF(4), GF(8), GF(16) and at the integers 0 and 1; the value must be
    the sum of x^i over the set coefficients (computed with the checker's field arithmetic) - at 0 the constant
    coefficient, at 1 the parity of the number of terms."""
    from ..frag import FragRaise, FragReturn, run_fragment

    polys = list(range(64)) + [(1 << 15) | 1, 0b1000011, (1 << 9) | 0b10110]
    count = 0
    # helper methods of the class that the model object does not have (an extracted evaluation helper) are followed
    funcs = {f"self.{nm}": m.node for nm, m in (fi.cls.methods.items() if fi.cls else []) if nm != fi.name and not hasattr(gf2.BP, nm)}
    for m, mod in ((2, 0b111), (3, 0b1011), (4, 0b10011)):
        field = gf2.FieldModel(m, mod)
        xs = [gf2.FieldElem(field, v) for v in range(1 << m)] + [0, 1]
        for pv in polys:
            for x in xs:
                try:
                    run_fragment(fi.body, {"self": gf2.BP(pv), "x": x}, {}, max_steps=40000, ctors={"BinaryPolynomial": gf2.BP}, funcs=funcs)
                    return UNDECIDED, "no value returned"
                except FragReturn as r:
                    got = r.value
                except FragRaise:
                    return VIOLATION, f"evaluate of {pv:#b} at {x!r} raises"
                except (Unfoldable, TypeError, IndexError, ZeroDivisionError, ArithmeticError) as exc:
                    return UNDECIDED, f"not evaluable ({exc})"
                if isinstance(x, gf2.FieldElem):
                    acc = 0
                    for i in range(pv.bit_length()):
                        if (pv >> i) & 1:
                            acc ^= 1 if i == 0 else (0 if x.value == 0 else (x ** i).value)
                    if not isinstance(got, gf2.FieldElem):
                        return UNDECIDED, f"value {got!r} is not a field element"
                    if got.value != acc:
                        return VIOLATION, f"GF(2^{m}): the polynomial {pv:#b} evaluated at the element {x.value:#b} gives {got.value:#b}; the sum of x^i over its set coefficients is {acc:#b} (roots of generator and minimal polynomials are tested with this method)"
                else:
                    want = (pv & 1) if x == 0 else bin(pv).count("1") % 2
                    if isinstance(got, bool) or not isinstance(got, int):
                        return UNDECIDED, f"value {got!r} is not an integer"
                    if got != want:
                        return VIOLATION, f"the polynomial {pv:#b} evaluated at the integer {x} gives {got}; {'its constant coefficient' if x == 0 else 'the parity of its number of terms'} is {want}"
                count += 1
    return OK, f"equals the sum of x^i over the set coefficients on {count} (polynomial, point) pairs: every element of GF(4), GF(8), GF(16), and the integers 0, 1"


def lcm_tabulated(fi: FuncInfo):
    """Run BinaryPolynomial.lcm (own model class gf2.BP for the polynomial objects: product, remainder, quotient and gcd
    are the checker's) on all pairs of words below 40 and on long words; the result must be a * b / gcd(a, b)."""
    from ..frag import FragRaise, FragReturn, run_fragment

    words = list(range(0, 40))
    big = [(1 << 33) | 0b1010, (1 << 20) - 2, 0b1011 << 7, 0b10011 << 3, (0b1011 << 5) ^ (0b1011 << 2), 0b10011, 0b111]
    pairs = [(a, b) for a in words for b in words] + [(a, b) for a in big for b in big]
    for a, b in pairs:
        try:
            run_fragment(fi.body, {"self": gf2.BP(a), "other": gf2.BP(b)}, {}, max_steps=20000, ctors={"BinaryPolynomial": gf2.BP})
            return UNDECIDED, "no value returned"
        except FragReturn as r:
            got = r.value
        except FragRaise:
            return VIOLATION, f"lcm({bin(a)}, {bin(b)}) raises"
        except (Unfoldable, TypeError, ZeroDivisionError) as exc:
            return UNDECIDED, f"not evaluable ({exc})"
        want = 0 if (a == 0 or b == 0) else gf2.pdivmod(gf2.pmul(a, b), gf2.pgcd(a, b))[0]
        if not isinstance(got, gf2.BP):
            return UNDECIDED, f"result {got!r} is not a polynomial"
        if got.value != want:
            return VIOLATION, f"lcm({bin(a)}, {bin(b)}) is returned as {bin(got.value)}; the least common multiple in GF(2)[x] is {bin(want)} = a*b / gcd(a,b) (lcm * gcd != a * b: a factor of an operand is missing or repeated, so generator polynomials built as the lcm of minimal polynomials lose or duplicate roots)"
    return OK, f"equals a*b / gcd(a,b) (own arithmetic) on {len(pairs)} operand pairs, zero, equal and coprime operands included"


def rule_kernels(repo: Repo, rep: Report) -> None:
    """The GF(2)[x] product, remainder and quotient are pure functions of two integer words: their source is rewritten
    to integer arithmetic and tabulated with the checker's own evaluator against gf2.py - all pairs of words below 64
    and pairs of long words (degrees up to 70, equal operands, one operand zero)."""
    import copy

    from ..frag import FragRaise, FragReturn, run_fragment

    small = [(a, b) for a in range(0, 40) for b in range(0, 40)]
    big_words = [(1 << 33) | 0b1011, (1 << 40) | (1 << 17) | 1, (1 << 64) | (1 << 63) | 0b111, (1 << 70) - 1, (1 << 35) | (1 << 34) | (1 << 2)]
    big = [(a, b) for a in big_words for b in big_words + [0b1011, 0b10011, 3, 1]] + [(b, a) for a in big_words for b in (0b1011, 7, 1)]
    specs = [
        ("BinaryPolynomial.__mul__", "other", lambda a, b: gf2.pmul(a, b), "product"),
        ("BinaryPolynomial.__mod__", "modulus", lambda a, b: gf2.pmod(a, b) if b else None, "remainder"),
        ("BinaryPolynomial.div", "divisor", lambda a, b: gf2.pdivmod(a, b)[0] if b else None, "quotient"),
    ]
    for qual, oname, ref, what in specs:
        fi = repo.func(ALG, qual)
        body = [_PolyModel({"self", oname}).visit(copy.deepcopy(st)) for st in fi.body]
        body = [ast.fix_missing_locations(b) for b in body]
        # private helper methods of the class that work on plain words (an extracted bit-spreading / reduction step) are followed
        helper_funcs = {}
        if fi.cls is not None:
            for nm_, m_ in fi.cls.methods.items():
                if nm_.startswith("_") and not nm_.startswith("__"):
                    helper_funcs[f"self.{nm_}"] = m_.node
                    helper_funcs[f"{fi.cls.name}.{nm_}"] = m_.node
        bad = None
        undec = None
        count = 0
        for a, b in small + big:
            want = ref(a, b)
            try:
                run_fragment(body, {}, {"self.value": a, f"{oname}.value": b}, max_steps=20000, funcs=helper_funcs)
                got = "no return"
            except FragReturn as r:
                got = r.value
            except FragRaise:
                got = None
            except Unfoldable as exc:
                undec = str(exc)
                break
            count += 1
            if got != want:
                bad = (a, b, got, want)
                break
        construct = f"{qual}: {what} tabulated on {count} operand pairs"
        if undec is not None:
            rep.undecided("KERNEL", fi, f"{qual}: {what}", f"not evaluable with integer arithmetic ({undec})")
        elif bad is not None:
            a, b, got, want = bad
            rep.violation("KERNEL", fi, construct, f"for the operands {bin(a)} and {bin(b)} the method yields {bin(got) if isinstance(got, int) else got} where the {what} in GF(2)[x] is {bin(want) if isinstance(want, int) else 'an error (zero divisor)'}", node=fi.node)
        else:
            rep.ok("KERNEL", fi, construct, f"equals the GF(2)[x] {what} (own arithmetic) on all of them, long words and equal operands included", node=fi.node)
    # field exponentiation: a ** e against repeated multiplication in GF(8) and GF(16), every base, exponents 0..40
    fi = repo.func(ALG, "FiniteBifieldElement.__pow__")

    class FE:
        __slots__ = ("v", "mod")

        def __init__(self, v, mod):
            self.v, self.mod = v, mod

        def __mul__(self, o):
            return FE(gf2.pmulmod(self.v, o.v, self.mod), self.mod)

        def __eq__(self, o):
            return isinstance(o, FE) and o.v == self.v

        def __hash__(self):
            return hash(self.v)

    class _FieldModel(ast.NodeTransformer):
        def visit_Call(self, node):
            self.generic_visit(node)
            nm = call_name(node) or ""
            if nm == "FiniteBifieldElement" and len(node.args) == 2:
                return ast.copy_location(ast.Call(func=ast.Name(id="__FE__", ctx=ast.Load()), args=[node.args[1]], keywords=[]), node)
            if nm in ("self.field",) and len(node.args) == 1:
                return ast.copy_location(ast.Call(func=ast.Name(id="__FE__", ctx=ast.Load()), args=[node.args[0]], keywords=[]), node)
            return node

    body = [ast.fix_missing_locations(_FieldModel().visit(copy.deepcopy(st))) for st in fi.body]
    bad = None
    undec = None
    count = 0
    for m_, mod in ((1, 0b11), (3, 0b1011), (4, 0b10011)):
        for v in range(1 << m_):
            for e in list(range(0, 41)) + [2 * ((1 << m_) - 1), 3 * ((1 << m_) - 1) + 1, 5 * ((1 << m_) - 1)]:
                want = 1
                for _ in range(e):
                    want = gf2.pmulmod(want, v, mod)

                class F2(Folder):
                    def fold(self, node, mod=mod):
                        if isinstance(node, ast.Call) and isinstance(node.func, ast.Name) and node.func.id == "__FE__":
                            return FE(self.fold(node.args[0]), mod)
                        return super().fold(node)

                try:
                    import kvstatic.frag as _fr

                    saved = _fr.Folder
                    _fr.Folder = F2
                    try:
                        run_fragment(body, {"self": FE(v, mod), "exponent": e}, {"self.value": v, "self.field.size": 1 << m_, "self.field.m": m_}, max_steps=4000)
                        got = "no return"
                    finally:
                        _fr.Folder = saved
                except FragReturn as r:
                    got = r.value.v if isinstance(r.value, FE) else r.value
                except FragRaise:
                    got = None
                except Unfoldable as exc:
                    undec = str(exc)
                    break
                count += 1
                if got != want:
                    bad = (m_, v, e, got, want)
                    break
            if bad or undec:
                break
        if bad or undec:
            break
    pow_undec, pow_bad, pow_count = undec, bad, count
    # field product and inverse, in every tabulated field GF(2^m), m = 1..16, with the moduli of the source's own table
    table = getattr(rep, "_modulus_table", None) or {1: 0b11, 2: 0b111, 3: 0b1011, 4: 0b10011}
    import random as _random

    class P:
        __slots__ = ("value",)

        def __init__(self, v):
            self.value = v.value if isinstance(v, P) else v

        def __mul__(self, o):
            return P(gf2.pmul(self.value, o.value))

        def __mod__(self, o):
            return P(gf2.pmod(self.value, o.value))

        @property
        def degree(self):
            return gf2.pdeg(self.value)

    class FE2(FE):
        __slots__ = ("m",)

        def __init__(self, v, mod, m):
            FE.__init__(self, v % (1 << m), mod)
            self.m = m

        def __mul__(self, o):
            return FE2(gf2.pmulmod(self.v, o.v, self.mod), self.mod, self.m)

        def __pow__(self, e):
            return FE2(gf2.ppowmod(self.v, e, self.mod), self.mod, self.m)

        @property
        def value(self):
            return self.v

    class _ElemModel(ast.NodeTransformer):
        def visit_Call(self, node):
            self.generic_visit(node)
            nm = call_name(node) or ""
            if nm == "isinstance":
                return ast.copy_location(ast.Constant(True), node)
            if nm == "BinaryPolynomial" and len(node.args) == 1:
                return ast.copy_location(ast.Call(func=ast.Name(id="__P__", ctx=ast.Load()), args=node.args, keywords=[]), node)
            if nm == "FiniteBifieldElement" and len(node.args) == 2:
                return ast.copy_location(ast.Call(func=ast.Name(id="__FE__", ctx=ast.Load()), args=[node.args[1]], keywords=[]), node)
            if nm == "self.field" and len(node.args) == 1:
                return ast.copy_location(ast.Call(func=ast.Name(id="__FE__", ctx=ast.Load()), args=[node.args[0]], keywords=[]), node)
            return node

        def visit_Compare(self, node):
            self.generic_visit(node)
            if unparse(node) in ("self.field != other.field", "other.field != self.field"):
                return ast.copy_location(ast.Constant(False), node)
            return node

    def make_folder(m_, mod):
        class F3(Folder):
            def fold(self, node):
                if isinstance(node, ast.Call) and isinstance(node.func, ast.Name) and node.func.id == "__FE__":
                    return FE2(self.fold(node.args[0]), mod, m_)
                if isinstance(node, ast.Call) and isinstance(node.func, ast.Name) and node.func.id == "__P__":
                    return P(self.fold(node.args[0]))
                if isinstance(node, ast.Attribute) and node.attr in ("value", "degree") and not (attr_chain(node) or "") in self.attrs:
                    b_ = self.fold(node.value)
                    if isinstance(b_, (P, FE2)):
                        return getattr(b_, node.attr)
                return super().fold(node)

        return F3

    import kvstatic.frag as _fr

    for qual, what in (("FiniteBifieldElement.__mul__", "product"), ("FiniteBifieldElement.inverse", "inverse")):
        fe_fi = repo.func(ALG, qual)
        body = [ast.fix_missing_locations(_ElemModel().visit(copy.deepcopy(st))) for st in fe_fi.body]
        bad = undec = None
        count = 0
        rnd = _random.Random(20260102)
        for m_ in sorted(table):
            mod = table[m_]
            if not isinstance(mod, int) or gf2.pdeg(mod) != m_:
                continue
            size = 1 << m_
            vals = list(range(size)) if m_ <= 4 else sorted({0, 1, 2, 3, size - 1, size - 2, size >> 1, (size >> 1) + 1} | {rnd.randrange(size) for _ in range(10)})
            pairs = [(a_, b_) for a_ in vals for b_ in vals] if what == "product" else [(a_, None) for a_ in vals]
            saved = _fr.Folder
            _fr.Folder = make_folder(m_, mod)
            try:
                for a_, b_ in pairs:
                    want = gf2.pmulmod(a_, b_, mod) if what == "product" else (gf2.ppowmod(a_, size - 2, mod) if a_ else None)
                    names = {"self": FE2(a_, mod, m_)}
                    attrs = {"self.value": a_, "self.field.modulus": P(mod), "self.field.size": size, "self.field.m": m_}
                    if b_ is not None:
                        names["other"] = FE2(b_, mod, m_)
                        attrs["other.value"] = b_
                    try:
                        run_fragment(body, names, attrs, max_steps=6000)
                        got = "no return"
                    except FragReturn as r:
                        got = r.value.v if isinstance(r.value, FE) else (r.value.value if isinstance(r.value, P) else r.value)
                    except FragRaise:
                        got = None
                    except (Unfoldable, TypeError, AttributeError) as exc:
                        undec = str(exc)
                        break
                    count += 1
                    if got != want:
                        bad = (m_, a_, b_, got, want)
                        break
            finally:
                _fr.Folder = saved
            if bad or undec:
                break
        construct = f"{qual}: {what} tabulated on {count} operand tuples over GF(2^1) .. GF(2^16)"
        if undec is not None:
            rep.undecided("KERNEL", fe_fi, f"{qual}: {what}", f"not evaluable ({undec})")
        elif bad is not None:
            m_, a_, b_, got, want = bad
            rep.violation("KERNEL", fe_fi, construct, f"in GF(2^{m_}) (modulus {bin(table[m_])}) the {what} of {a_}" + (f" and {b_}" if b_ is not None else "") + f" comes out as {got}; the field value is {want}", node=fe_fi.node)
        else:
            rep.ok("KERNEL", fe_fi, construct, f"equals the field {what} (own arithmetic, the source's own moduli) on all of them", node=fe_fi.node)
    undec, bad, count = pow_undec, pow_bad, pow_count
    construct = f"FiniteBifieldElement.__pow__ tabulated on {count} (field, base, exponent) triples"
    if undec is not None:
        rep.undecided("KERNEL", fi, "FiniteBifieldElement.__pow__", f"not evaluable ({undec})")
    elif bad is not None:
        m_, v, e, got, want = bad
        rep.violation("KERNEL", fi, construct, f"in GF(2^{m_}) the element {v} raised to {e} gives {got}; the {e}-fold product is {want}", node=fi.node)
    else:
        rep.ok("KERNEL", fi, construct, "a ** e equals the e-fold product for every element of GF(2), GF(8), GF(16), exponents 0..40 and multiples of the group order (zero base included)", node=fi.node)


def rule_special_cases(repo: Repo, rep: Report) -> None:
    mi = repo.module(ALG)
    n = 0
    for cname in ("BinaryPolynomial", "FiniteBifield", "FiniteBifieldElement"):
        ci = repo.cls(ALG, cname)
        for fi in ci.methods.values():
            n += lint_value_keyed(rep, fi, rule="G1", allowed_literals={0, 1, -1}, taint_self_value=True)
    rep.floor("methods linted (G1)", n, 30)


def run(repo: Repo, rep: Report, tier: str) -> None:
    rule_modulus_table(repo, rep)
    rule_primitive_element(repo, rep)
    rule_closed_forms(repo, rep)
    rule_kernels(repo, rep)
    rule_special_cases(repo, rep)
    # a kernel whose tabulation agrees with the reference on every operand pair is decided by that; an unrecognised
    # *spelling* of its loop is then not an open question any more
    tabulated = {o.where for o in rep.obligations if o.rule == "KERNEL" and o.status == OK}
    for o in rep.obligations:
        if o.status == UNDECIDED and o.rule == "CLOSED-FORM" and o.where in tabulated:
            o.status = OK
            o.detail = "unlisted spelling; the function's tabulation against the reference arithmetic decides it - " + o.detail
            o.nontrivial = False
        elif o.status == VIOLATION and o.rule == "CLOSED-FORM" and o.where in tabulated and "name `" in (o.detail or "") and "is required" in (o.detail or ""):
            # the closed form differs from the listed one only in the NAME of a local (a renamed loop variable): that is a
            # spelling, and the function's tabulation against the reference arithmetic has decided the behaviour
            o.status = OK
            o.detail = "a local is named differently from the listed form; the function's tabulation against the reference arithmetic decides it - " + o.detail
            o.nontrivial = False
    rep.decided_clauses += [
        "every tabulated modulus is a primitive polynomial of its degree (m=1..16)",
        "the designated primitive element is a unit in every tabulated field",
        "closed forms of add/mul/inverse/trace/conjugates/pow/gcd/lcm/mul/mod/div/evaluate/minimal_polynomial",
        "no value-keyed special case beyond the identities 0 and 1",
    ]
    rep.undecided_clauses += ["ring/field laws as value identities of the shift-xor loops", "termination"]
