"""C10 - soft-input decoders: exact where the algorithm is; clean input decodes clean.

Decided statically (structural necessary conditions of the stated behaviour):

GROUP-ORDER  Tanner-graph bookkeeping in prep_edge_ind: variable / check nodes join only the LAST degree
             group (runs of consecutive equal-degree nodes), so that the per-group results concatenated by
             compute_cv / marginalize are in node order - the order `edge_order` / `cv_order` assume.
EXT-SET      extrinsic index sets: all (deg-1)-subsets of a node's edges, flipped so that row e omits edge e.
BP-UPDATE    sum-product message schedule: vc = gathered posterior - cv; tanh(vc/2), product over the
             extrinsic axis, 2*arctanh; marginal = sum of incoming cv + channel LLR (added once);
             loop order vc -> cv -> marginalize(channel input); message bits at idx_mess_t.
MINSUM       check update = prod(sign) * min(abs) reduced over the extrinsic (gather) axis, one value per
             edge; scaling multiplies, offset subtracts sign*offset, each only when configured.
SCALE        homogeneity analysis: on the path input -> min-sum message / Wagner decision only positively
             homogeneous operations; a saturation is accepted only at the decoder family's declared
             message-clipping range (min-sum) and never in the Wagner decoder (exact ML for every real input).
WAGNER       hard = (llr < 0); even parity test; flip argmin(|llr|) of the failing block only; message = first k.
RANK         rank inference: the extrinsic axis produced by gather(2, ext_ce) is eliminated by a reduction;
             the per-group result appended to cv has rank 2 and no rank>=3 tensor is flattened by view/reshape.
RM-SOFT      soft Reed decoding: per group parity of hard decisions and minimum reliability; decision
             sum((1-2c)*min_rel) < 0.
"""
from __future__ import annotations

import ast
import math
from fractions import Fraction
from typing import Dict, List, Optional, Sequence

from ..astutil import ancestors, attr_chain, call_name, match, num_value, set_parents, stmts_of
from ..closedform import classify
from ..core import OK, UNDECIDED, VIOLATION, AnalysisError, FuncInfo, Repo, Report, unparse
from ..degree import CONST, DV, UNK, Degree

EXPLANATION = (
    "Soft decoders are tested on one code and one noise draw with shape or loose BER assertions; the min-sum decoder is "
    "only instantiated. The rules below tie every message-passing step to the algorithm's definition for every "
    "parity-check matrix and every input: group bookkeeping that determines where each check-to-variable message lands, "
    "extrinsic index sets, the check/variable updates and their reduction axes, and the absence of any "
    "non-homogeneous operation on the min-sum and Wagner decision paths."
)

BP = "kaira/models/fec/decoders/belief_propagation.py"
MS = "kaira/models/fec/decoders/min_sum_ldpc.py"
WG = "kaira/models/fec/decoders/wagner_soft_decision_decoder.py"
RM = "kaira/models/fec/decoders/reed_muller_decoder.py"


def _substitute(node: ast.AST, subst) -> ast.AST:
    import copy

    node = copy.deepcopy(node)
    pats = [(ast.parse(src, mode="eval").body, name) for src, name in subst]

    class Sub(ast.NodeTransformer):
        def generic_visit(self, n):
            for p_, name in pats:
                if isinstance(n, ast.expr) and match(n, p_, commutative=False) is not None and type(n) is type(p_):
                    return ast.copy_location(ast.Name(id=name, ctx=ast.Load()), n)
            return super().generic_visit(n)

    return ast.fix_missing_locations(Sub().visit(node))


def numeric_verdict(node: ast.AST, num):
    """Evaluate the expression with the checker's own arithmetic on the given points.  num = (points, expected[, subst[, pick]])."""
    from ..constfold import Folder, Unfoldable

    points, expected = num[0], num[1]
    subst = num[2] if len(num) > 2 else ()
    pick = num[3] if len(num) > 3 else None
    expr = node
    if isinstance(expr, ast.AugAssign):
        expr = ast.BinOp(left=ast.Name(id=unparse(expr.target), ctx=ast.Load()) if isinstance(expr.target, ast.Name) else expr.target, op=expr.op, right=expr.value)
    elif isinstance(expr, ast.Assign):
        expr = expr.value
    expr = _substitute(expr, subst) if subst else expr

    def close(a, b):
        if isinstance(a, list) or isinstance(b, list):
            return isinstance(a, list) and isinstance(b, list) and len(a) == len(b) and all(close(x, y) for x, y in zip(a, b))
        return abs(complex(a) - complex(b)) <= 1e-9 * max(1.0, abs(complex(b)))

    try:
        for pt in points:
            names = {k: v for k, v in pt.items() if not k.startswith("self.")}
            attrs = {k: v for k, v in pt.items() if k.startswith("self.")}
            got = Folder(names, attrs).fold(expr)
            if pick is not None:
                got = pick(got)
            want = expected(pt)
            if not close(got, want):
                return VIOLATION, f"for {pt} the expression gives {got}; the definition gives {want}"
    except Unfoldable as exc:
        return UNDECIDED, f"not evaluable with literal arithmetic ({exc})"
    except (TypeError, ValueError, ZeroDivisionError, IndexError) as exc:
        return UNDECIDED, f"not evaluable with literal arithmetic ({exc})"
    return OK, f"agrees with the definition on {len(points)} points"


def form(rep: Report, rule: str, fi: FuncInfo, node: Optional[ast.AST], accepted: Sequence[str], what: str, why_bad: str = "", num=None) -> bool:
    if node is None:
        rep.undecided(rule, fi, what, "statement not found (code shape not recognised)")
        return False
    st, detail, _ = classify(node, accepted)
    if st != OK and num is not None:
        st2, d2 = numeric_verdict(node, num)
        if st2 == OK and st == VIOLATION:
            st, detail = OK, f"differs in shape from `{accepted[0]}` but {d2}"
        elif st2 == OK:
            st, detail = OK, f"unlisted shape; {d2}"
        elif st2 == VIOLATION:
            st, detail = VIOLATION, d2
    if st == VIOLATION and why_bad:
        detail = f"{detail} - {why_bad}"
    rep.add(rule, fi, f"{what}: {unparse(node)[:90]}", st, detail, node=node)
    return st == OK


def assigns(fi: FuncInfo, name: str) -> List[ast.Assign]:
    out = []
    for st in ast.walk(fi.node):
        if isinstance(st, ast.Assign) and len(st.targets) == 1:
            t = st.targets[0]
            if (isinstance(t, ast.Name) and t.id == name) or attr_chain(t) == name:
                out.append(st)
            elif isinstance(t, ast.Tuple) and t.elts and isinstance(t.elts[0], ast.Name) and t.elts[0].id == name:
                out.append(st)
    return sorted(out, key=lambda s: s.lineno)


def one(xs):
    return xs[0] if len(xs) == 1 else None


# ---------------------------------------------------------------------------
# GROUP-ORDER / EXT-SET
# ---------------------------------------------------------------------------

#: parity-check matrices the Tanner-graph tables are tabulated on: regular, irregular with leaves and a degree-1 check,
#: equal degrees that are NOT adjacent (runs must not be merged), a single check
PREP_SAMPLES = (
    [[1, 1, 0, 1, 0, 0], [0, 1, 1, 0, 1, 0], [1, 0, 1, 0, 0, 1]],
    [[1, 1, 1, 0, 0], [0, 1, 0, 1, 0], [1, 1, 0, 0, 1], [0, 0, 0, 1, 0]],
    [[1, 0, 1, 1, 0, 1, 1], [1, 1, 1, 0, 0, 0, 1], [0, 0, 1, 0, 1, 1, 1]],
    [[1, 1, 1]],
)


def prep_edge_tabulated(repo: Repo):
    """prep_edge_ind (class helpers followed) evaluated with own arithmetic on four parity-check matrices; every table it
    leaves on the object is compared with its definition computed from H: edges numbered variable by variable (checks in
    increasing order), groups = runs of consecutive nodes of one degree, edge_map / marg_ec = the edges of a variable,
    lv_ind = the variable of an edge, cv_map = the edges of a check in variable order, row j of ext_ec[v] / ext_ce[c] = the
    node's edges without its j-th, cv_order = the position of an edge in check-major order."""
    from ..constfold import Unfoldable
    from ..frag import FragRaise, FragReturn, run_fragment

    ci = repo.cls(BP, "BeliefPropagationDecoder")
    fi = repo.method(ci, "prep_edge_ind")
    funcs = {f"self.{nm}": m.node for nm, m in ci.methods.items() if nm not in ("forward", "__init__", "prep_edge_ind")}

    def plain(z):
        return [plain(t) for t in z] if isinstance(z, list) else (int(z) if isinstance(z, float) and z == int(z) else z)

    for H in PREP_SAMPLES:
        n_c, n_v = len(H), len(H[0])
        vdeg = [sum(H[r][c] for r in range(n_c)) for c in range(n_v)]
        cdeg = [sum(r) for r in H]
        attrs = {"self.H": [list(r) for r in H], "self.n_v": n_v, "self.n_c": n_c, "self.var_degree": list(vdeg), "self.check_degree": list(cdeg), "self.chk_degree": list(cdeg), "self.num_edges": sum(vdeg), "self.device": "cpu", "self.code_length": n_v}
        try:
            run_fragment(fi.body, {}, attrs, funcs=funcs, materialise=True, max_steps=1500000, attrs_live=True)
        except FragReturn:
            pass
        except (Unfoldable, FragRaise, TypeError, IndexError, ValueError, KeyError) as exc:
            return None, str(exc)
        # own reference
        edge_map, lv_ind, cv_map = [], [], [[] for _ in range(n_c)]
        e = 0
        for v in range(n_v):
            mine = []
            for c in range(n_c):
                if H[c][v]:
                    mine.append(e)
                    lv_ind.append(v)
                    cv_map[c].append(e)
                    e += 1
            edge_map.append(mine)

        def runs(deg):
            out = []
            for i, d in enumerate(deg):
                if out and deg[out[-1][-1]] == d:
                    out[-1].append(i)
                else:
                    out.append([i])
            return out

        def others(edges):
            return [[x for k, x in enumerate(edges) if k != j] for j in range(len(edges))] if len(edges) > 1 else []

        order = [x for c in range(n_c) for x in cv_map[c]]
        cv_order = [0] * len(order)
        for k, x in enumerate(order):
            cv_order[x] = k
        want = {"self.vc_group": runs(vdeg), "self.cv_group": runs(cdeg), "self.edge_map": edge_map, "self.lv_ind": lv_ind, "self.cv_map": cv_map, "self.marg_ec": edge_map, "self.cv_order": cv_order, "self.ext_ec": [others(m) for m in edge_map], "self.ext_ce": [others(m) for m in cv_map]}
        for k, w in want.items():
            if k not in attrs:
                return None, f"{k} is not left on the object"
            g = plain(attrs[k])
            if g != w:
                return VIOLATION, f"H = {H}: {k[5:]} is built as {str(g)[:160]}; its definition gives {str(w)[:160]} (" + {"self.vc_group": "groups are runs of consecutive variable nodes of one degree: per-group messages concatenated in group order must follow the node order", "self.cv_group": "groups are runs of consecutive check nodes of one degree", "self.ext_ec": "row j lists the OTHER edges of the variable node", "self.ext_ce": "row j lists the OTHER edges of the check node", "self.cv_order": "position of each edge in check-major order"}.get(k, "edge bookkeeping of the Tanner graph") + ")"
    return OK, f"all nine tables (groups, edge maps, extrinsic index sets, check-major order) equal their definitions on {len(PREP_SAMPLES)} parity-check matrices (regular, irregular with leaves, non-adjacent equal degrees, a single check)"


def rule_groups(repo: Repo, rep: Report) -> int:
    ci = repo.cls(BP, "BeliefPropagationDecoder")
    fi = repo.method(ci, "prep_edge_ind")
    set_parents(fi.node)
    n = 0
    pst_, pd_ = prep_edge_tabulated(repo)
    if pst_ is not None:
        ext_ = pst_ == VIOLATION and (": ext_ec is built" in pd_ or ": ext_ce is built" in pd_)
        rep.add("GROUP-ORDER", fi, "prep_edge_ind evaluated on four parity-check matrices: groups, edge maps, check-major order against their definitions", OK if ext_ else pst_, pd_ if not ext_ else "groups, edge maps and check-major order equal their definitions", node=fi.node)
        rep.add("EXT-SET", fi, "prep_edge_ind evaluated on four parity-check matrices: extrinsic index sets against their definition", pst_ if (ext_ or pst_ == OK) else OK, pd_ if (ext_ or pst_ == OK) else "not reached: an earlier table differs (see GROUP-ORDER)", node=fi.node) if (ext_ or pst_ == OK) else None
        return 14
    for lv, group, deg, count in (("v_node", "vc_group", "var_degree", "n_v"), ("c_node", "cv_group", "check_degree", "n_c")):
        loops = [l for l in fi.body if isinstance(l, ast.For) and match(l.iter, f"range(self.{count})") is not None]
        if len(loops) != 1 or not isinstance(loops[0].target, ast.Name):
            rep.undecided("GROUP-ORDER", fi, f"loop over range(self.{count})", "code shape not recognised")
            continue
        loop = loops[0]
        var = loop.target.id
        muts = []
        for nd in ast.walk(loop):
            if isinstance(nd, ast.Call) and isinstance(nd.func, ast.Attribute):
                base = nd.func.value
                if attr_chain(base) == f"self.{group}":
                    muts.append(("whole", nd))
                elif isinstance(base, ast.Subscript) and attr_chain(base.value) == f"self.{group}":
                    muts.append(("member", nd))
            if isinstance(nd, (ast.Assign, ast.AugAssign)):
                tg = nd.targets if isinstance(nd, ast.Assign) else [nd.target]
                for t in tg:
                    root = t
                    while isinstance(root, ast.Subscript):
                        root = root.value
                    if attr_chain(root) == f"self.{group}":
                        muts.append(("assign", nd))
        # any alias of the group list taken inside the loop makes the shape unknown
        aliases = [nd for nd in ast.walk(loop) if isinstance(nd, ast.Assign) and any(attr_chain(x) == f"self.{group}" or (isinstance(x, ast.Subscript) and attr_chain(x.value) == f"self.{group}") for x in [nd.value])]
        if aliases:
            rep.undecided("GROUP-ORDER", fi, aliases[0], f"self.{group} is aliased inside the loop: code shape not recognised", node=aliases[0])
            continue
        n_last = n_new = 0
        for kind, nd in muts:
            txt = unparse(nd)
            if kind == "member" and nd.func.attr == "append" and len(nd.args) == 1:
                idx = nd.func.value.slice
                is_last = num_value(idx) == -1
                arg_ok = isinstance(nd.args[0], ast.Name) and nd.args[0].id == var
                if is_last and arg_ok:
                    n_last += 1
                    rep.ok("GROUP-ORDER", fi, txt, "the node joins the last group: groups are runs of consecutive nodes, flattened groups = node order", node=nd)
                elif not arg_ok:
                    rep.violation("GROUP-ORDER", fi, txt, f"a value other than the current node `{var}` is added to a group", node=nd)
                else:
                    rep.violation("GROUP-ORDER", fi, txt, f"a node joins group `{unparse(idx)}`, not the last one: the per-group messages concatenated in group order no longer follow the node order that edge_order / cv_order (and the variable order of the soft output) assume, so messages reach the wrong edges whenever equal-degree nodes are not adjacent", node=nd)
            elif kind == "whole" and nd.func.attr == "append" and len(nd.args) == 1:
                a = nd.args[0]
                if isinstance(a, ast.List) and len(a.elts) == 1 and isinstance(a.elts[0], ast.Name) and a.elts[0].id == var:
                    n_new += 1
                    rep.ok("GROUP-ORDER", fi, txt, "a new group starts with the current node", node=nd)
                else:
                    rep.violation("GROUP-ORDER", fi, txt, f"a new group must start as [{var}]", node=nd)
            else:
                rep.undecided("GROUP-ORDER", fi, txt, f"unrecognised mutation of self.{group}", node=nd)
        n += 1
        rep.expect(n_last == 1 and n_new == 1, "GROUP-ORDER", fi, f"self.{group}: {n_last} join-last site(s), {n_new} new-group site(s)", "one of each", "expected exactly one join-last and one new-group site")
        # the join-last branch is taken exactly when the degree equals the previous node's degree
        ifs = [s for s in loop.body if isinstance(s, ast.If) and any(isinstance(c, ast.Call) and isinstance(c.func, ast.Attribute) and isinstance(c.func.value, ast.Subscript) and attr_chain(c.func.value.value) == f"self.{group}" for c in ast.walk(s))]
        if len(ifs) == 1:
            test = ifs[0].test
            m = match(test, f"self.{deg}[{var}].item() == _P") or match(test, f"self.{deg}[{var}] == _P")
            ok = m is not None and isinstance(m["_P"], ast.Name)
            if ok:
                prev = m["_P"].id
                sets = [s for s in ifs[0].orelse if isinstance(s, ast.Assign) and isinstance(s.targets[0], ast.Name) and s.targets[0].id == prev]
                ok2 = len(sets) == 1 and (match(sets[0].value, f"self.{deg}[{var}].item()") is not None or match(sets[0].value, f"self.{deg}[{var}]") is not None)
                rep.check(ok2, "GROUP-ORDER", fi, f"if {unparse(test)}: join else: {prev} = ...", "a group is a run of nodes of one degree (compute_cv uses the first member's degree for the whole group)", f"`{prev}` is not updated to the current node's degree when a new group starts: groups mix degrees", node=ifs[0])
            else:
                st, d, _ = classify(test, [f"self.{deg}[{var}].item() == prev"])
                rep.add("GROUP-ORDER", fi, f"if {unparse(test)}", VIOLATION if st == VIOLATION else UNDECIDED, d or "grouping condition not recognised", node=ifs[0])
            n += 1
        else:
            rep.undecided("GROUP-ORDER", fi, f"grouping branch of self.{group}", "code shape not recognised")
        if group == "cv_group":
            ext = [s for s in loop.body if isinstance(s, ast.Expr) and match(s.value, f"edge_order.extend(self.cv_map[{var}])") is not None]
            rep.expect(len(ext) == 1, "GROUP-ORDER", fi, f"edge_order.extend(self.cv_map[{var}]) once per check node, unconditionally", "edge_order lists the edges check node by check node", "not found at the top level of the loop")
            co = [s for s in fi.body if isinstance(s, ast.Assign) and match(s.targets[0], "self.cv_order[edge_order]") is not None]
            if len(co) == 1:
                form(rep, "GROUP-ORDER", fi, co[0].value, ["torch.arange(0, self.num_edges, device=self.device).to(torch.int64)", "torch.arange(0, self.num_edges, device=self.device)", "torch.arange(self.num_edges, device=self.device)"], "cv_order[edge_order]")
            else:
                rep.undecided("GROUP-ORDER", fi, "self.cv_order[edge_order] = arange(num_edges)", "not found")
            n += 2
    # EXT-SET
    for nm, src, deg, lv in (("ext_ec", "self.edge_map[v_node]", "var_degree", "v_node"), ("ext_ce", "self.cv_map[c_node]", "check_degree", "c_node")):
        combs = [s for s in ast.walk(fi.node) if isinstance(s, ast.Assign) and isinstance(s.value, ast.Call) and call_name(s.value) == "combinations" and f"self.{deg}" in unparse(s.value)]
        c1 = one(combs)
        ok = form(rep, "EXT-SET", fi, c1.value if c1 is not None else None, [f"combinations(node_ind, r=self.{deg}[{lv}].item() - 1)", f"combinations(node_ind, self.{deg}[{lv}].item() - 1)"], f"{nm}: all (deg-1)-subsets of the node's edges", "each row must list all OTHER edges of the node (deg-1 of them)", num=([{"DEG": 5}, {"DEG": 2}], lambda p: p["DEG"] - 1, [(f"self.{deg}[{lv}].item()", "DEG"), (f"self.{deg}[{lv}]", "DEG")], None) if False else None)
        if c1 is not None and not ok:
            rr = [k.value for k in c1.value.keywords if k.arg == "r"] or (c1.value.args[1:2])
            if rr:
                st2, d2 = numeric_verdict(rr[0], ([{"DEG": 5}, {"DEG": 2}], lambda p: p["DEG"] - 1, [(f"self.{deg}[{lv}].item()", "DEG"), (f"self.{deg}[{lv}]", "DEG")]))
                if st2 == VIOLATION:
                    rep.violation("EXT-SET", fi, f"{nm}: subset size {unparse(rr[0])}", d2 + " - each row must list all OTHER edges of the node (deg-1 of them)", node=rr[0])
        if c1 is not None:
            # the source of node_ind and the flip that aligns row e with edge e
            body = [s for s in ancestors(c1) if isinstance(s, ast.If)]
            blk = body[0].body if body else []
            srcs = [s for s in blk if isinstance(s, ast.Assign) and isinstance(s.targets[0], ast.Name) and s.targets[0].id == "node_ind" and s is not c1]
            form(rep, "EXT-SET", fi, srcs[0].value if srcs else None, [src], f"{nm}: node_ind source")
            flips = [s for s in blk if isinstance(s, ast.Assign) and isinstance(s.value, ast.Call) and call_name(s.value) == "torch.flip"]
            form(rep, "EXT-SET", fi, flips[0].value if flips else None, [f"torch.flip({nm}, dims=(0,))", f"torch.flip({nm}, dims=[0])", f"torch.flip({nm}, (0,))"], f"{nm}: row e omits edge e (lexicographic (deg-1)-subsets omit the edges in reverse order)", "without the flip over the row axis, row e holds the subset that contains edge e and omits another one")
            n += 3
    return n


# ---------------------------------------------------------------------------
# BP-UPDATE
# ---------------------------------------------------------------------------

def compute_vc_evaluated(fi: FuncInfo):
    """compute_vc on edges 0..5 of a graph whose variables have degree 1, 2, 3 (edge -> variable map 0, 1, 1, 2, 2, 2), two
    batch rows: the message on edge e must be posterior[variable(e)] - cv[e] - in particular on the only edge of a leaf."""
    from ..constfold import Unfoldable
    from ..frag import FragRaise, FragReturn, run_fragment

    lv = [0, 1, 1, 2, 2, 2]
    soft = [[1.7, -0.3, 0.9], [-2.5, 0.25, 4.0]]
    cv = [[0.4, 2.0, -1.1, 0.5, -0.75, 3.0], [1.5, -0.5, 0.125, -2.0, 0.0, 0.75]]
    attrs = {"self.lv_ind": lv, "self.var_degree": [1, 2, 3], "self.chk_degree": [2, 2, 2], "self.num_edges": 6, "self.code_length": 3, "self.device": "cpu"}
    from ..frag import coverage_scope

    with coverage_scope() as scope:
        try:
            run_fragment(fi.body, {"cv": cv, "soft_input": soft}, attrs, materialise=True, max_steps=100000)
            return None, "no value returned"
        except FragReturn as r:
            got = r.value
        except (Unfoldable, FragRaise, TypeError, IndexError, ValueError) as exc:
            return None, str(exc)
    gap = scope.note([fi.node])
    want = [[soft[b][lv[e]] - cv[b][e] for e in range(6)] for b in range(2)]
    if not (isinstance(got, list) and len(got) == 2 and all(isinstance(r_, list) and len(r_) == 6 and all(isinstance(x, (int, float)) and not isinstance(x, bool) for x in r_) for r_ in got)):
        return None, "result is not a 2 x 6 real matrix"
    for b in range(2):
        for e in range(6):
            if abs(got[b][e] - want[b][e]) > 1e-9:
                deg = [1, 2, 3][lv[e]]
                return VIOLATION, f"edge {e} (variable {lv[e]} of degree {deg}): message {got[b][e]!r} for posterior {soft[b][lv[e]]} and incoming check message {cv[b][e]}; the extrinsic message is posterior - incoming = {want[b][e]!r}. The caller hands in the running posterior, so an edge that does not subtract its own incoming message feeds the check's information back to it (double counting from the second iteration on)"
    if gap:
        return None, gap
    return OK, "message on every edge = posterior of its variable minus the check's message on the same edge (leaf variables included)"


def bp_cv_tabulated(repo: Repo):
    """BeliefPropagationDecoder.compute_cv (exact arctanh mode and the series mode, module helpers followed) evaluated with own arithmetic on two
    Tanner graphs whose tables the checker computes from H (one has a check of degree 1) and three rows of messages (one with exact zeros): the
    message on edge e of check c must be 2 atanh(product over the OTHER edges of c of tanh(vc / 2)), 0 for a check of
    degree 1, delivered in edge order (to 1e-6; to 1e-4 in the series mode, whose sample products stay below 0.87 - the pinned 105-term series is
    there exact to 1e-15, a 15-term series is off by 3e-3).  Returns (status, detail) or (None, reason); cached on the repository object."""
    if hasattr(repo, "_kv_bp_cv"):
        return repo._kv_bp_cv
    from ..constfold import PySeq, Unfoldable
    from ..frag import FragRaise, FragReturn, run_fragment

    def done(st, d):
        repo._kv_bp_cv = (st, d)
        return st, d

    ci = repo.cls(BP, "BeliefPropagationDecoder")
    fi = repo.method(ci, "compute_cv")
    funcs = {nm: f.node for nm, f in ci.module.functions.items()}
    funcs.update({f"self.{nm}": m.node for nm, m in ci.methods.items() if nm not in ("forward", "__init__", "compute_cv")})
    for mi_ in repo.modules.values():
        if mi_.relpath == "kaira/models/fec/utils.py":
            funcs.update({nm: f.node for nm, f in mi_.functions.items()})
    cases = 0
    H1 = [[1, 1, 1, 0, 0], [0, 1, 0, 1, 0], [1, 1, 0, 0, 1], [0, 0, 0, 1, 0]]
    for H, not_ldpc, exact in ((H1, True, True), ([[1, 1, 0, 1, 0, 0], [0, 1, 1, 0, 1, 0], [1, 0, 1, 0, 0, 1]], False, True), (H1, True, False), ([[1, 1, 1, 0, 0], [0, 0, 0, 1, 0], [0, 1, 0, 1, 0], [1, 1, 0, 0, 1]], True, True)):
        n_c, n_v = len(H), len(H[0])
        cv_map = [[] for _ in range(n_c)]
        e = 0
        for v in range(n_v):
            for c in range(n_c):
                if H[c][v]:
                    cv_map[c].append(e)
                    e += 1
        cdeg = [sum(r) for r in H]
        groups = []
        for i, d in enumerate(cdeg):
            if groups and cdeg[groups[-1][-1]] == d:
                groups[-1].append(i)
            else:
                groups.append([i])
        order = [x for c in range(n_c) for x in cv_map[c]]
        cv_order = [0] * e
        for k_, x in enumerate(order):
            cv_order[x] = k_
        ext_ce = PySeq([[[x for k_, x in enumerate(m) if k_ != j] for j in range(len(m))] if len(m) > 1 else [] for m in cv_map])
        vcs = [[((-1) ** (i * 3 + r)) * (0.3 + 0.29 * ((i * 7 + r * 5) % 9)) for i in range(e)] for r in range(2)]
        vcs.append([0.0 if i % 4 == 1 else x for i, x in enumerate(vcs[0])])  # exact zeros: a formula that divides the own message back out fails here
        attrs = {"self.cv_group": PySeq([PySeq(g) for g in groups]), "self.check_degree": list(cdeg), "self.chk_degree": list(cdeg), "self.ext_ce": ext_ce, "self.cv_order": list(cv_order), "self.not_ldpc": not_ldpc, "self.arctanh": exact, "self.device": "cpu", "self.num_edges": e}
        try:
            run_fragment(fi.body, {"vc": [list(r) for r in vcs]}, attrs, funcs=funcs, materialise=True, max_steps=4000000, attrs_live=True)
            return done(None, "no value returned")
        except FragReturn as ret:
            got = ret.value
        except (Unfoldable, FragRaise, TypeError, IndexError, ValueError, KeyError, OverflowError) as exc:
            return done(None, str(exc))
        if not (isinstance(got, list) and len(got) == 3 and all(isinstance(r, list) and len(r) == e and all(isinstance(x, (int, float)) and not isinstance(x, bool) for x in r) for r in got)):
            return done(None, f"the result is not a (3, {e}) block of real messages")
        for r in range(3):
            for c in range(n_c):
                for j, edge in enumerate(cv_map[c]):
                    oth = [vcs[r][x] for k_, x in enumerate(cv_map[c]) if k_ != j]
                    if oth:
                        p_ = 1.0
                        for x in oth:
                            p_ *= math.tanh(x / 2)
                        want = 2 * math.atanh(max(-0.999, min(0.999, p_)))
                    else:
                        want = 0.0
                    if abs(got[r][edge] - want) > (1e-6 if exact else 1e-4):
                        return done(VIOLATION, f"H = {H}, arctanh={exact}: the message to edge {edge} of check {c} (other incoming messages {[round(x, 3) for x in oth]}) is {got[r][edge]:.6g}; 2 atanh(product of tanh(vc / 2) over the other edges) is {want:.6g} - the check-node update does not deliver each check's extrinsic product on that check's own edges")
                    cases += 1
    return done(OK, f"{cases} check-to-variable messages on three graphs (irregular with a degree-1 check last and in the middle, regular; exact and series arctanh): 2 atanh of the tanh product over the other edges, in edge order")


#: cycle-free parity-check matrices (no check of degree 1) for the end-to-end evaluation, with the message positions
#: handed to the decoder (any k positions: the soft output is compared on all n)
BP_TREES = (
    ([[1, 1, 0, 0, 0], [0, 1, 1, 1, 0], [0, 0, 0, 1, 1]], [0, 2]),
    ([[1, 1, 0, 0, 0, 0, 0], [1, 0, 1, 1, 0, 0, 0], [1, 0, 0, 0, 1, 1, 0], [0, 0, 0, 0, 0, 1, 1]], [1, 2, 4]),
)


def bp_end_to_end(repo: Repo):
    """BeliefPropagationDecoder end to end, with own arithmetic: prep_edge_ind builds the decoder's tables for two
    cycle-free parity-check matrices, then forward (decode_block, compute_vc, compute_cv, marginalize, apply_blockwise
    and the module helpers followed) is evaluated for 1, 2 and 8 iterations, in the exact and the series arctanh mode,
    with and without return_soft, on batches of 1, 2 and 3 words.  The soft output must equal the flooding schedule
    (variable-to-check = posterior - incoming, check update 2 atanh prod tanh, posterior = channel + all incoming) after
    exactly that many iterations - which after 8 iterations is the brute-force bitwise posterior LLR of the code - and
    the decoded bits must be (posterior < 0) at the message positions, k per block.
    Returns (status, detail) or (None, reason); cached on the repository object."""
    if hasattr(repo, "_kv_bp_e2e"):
        return repo._kv_bp_e2e
    import itertools

    from ..constfold import PySeq, Unfoldable
    from ..frag import FragRaise, FragReturn, coverage_scope, run_fragment

    def done(st, d):
        repo._kv_bp_e2e = (st, d)
        return st, d

    ci = repo.cls(BP, "BeliefPropagationDecoder")
    prep, fwd = repo.method(ci, "prep_edge_ind"), repo.method(ci, "forward")
    funcs = {f"self.{nm}": m.node for nm, m in ci.methods.items() if nm not in ("forward", "__init__")}
    funcs.update({nm: f.node for nm, f in ci.module.functions.items()})
    for mi_ in repo.modules.values():
        if mi_.relpath == "kaira/models/fec/utils.py":
            funcs.update({nm: f.node for nm, f in mi_.functions.items()})
    runs = 0
    scope = coverage_scope()
    scope.__enter__()
    try:
        for H, idx in BP_TREES:
            n_c, n_v = len(H), len(H[0])
            vdeg = [sum(H[r][c] for r in range(n_c)) for c in range(n_v)]
            cdeg = [sum(r) for r in H]
            base = {"self.H": [list(r) for r in H], "self.n_v": n_v, "self.n_c": n_c, "self.var_degree": list(vdeg), "self.check_degree": list(cdeg), "self.chk_degree": list(cdeg), "self.num_edges": sum(vdeg), "self.device": "cpu", "self.code_length": n_v, "self._length": n_v}
            try:
                run_fragment(prep.body, {}, base, funcs={k_: v_ for k_, v_ in funcs.items() if k_ != "self.prep_edge_ind"}, materialise=True, max_steps=1500000, attrs_live=True)
            except FragReturn:
                pass
            except (Unfoldable, FragRaise, TypeError, IndexError, ValueError, KeyError) as exc:
                return done(None, f"prep_edge_ind not evaluable ({exc})")
            cws = [c for c in itertools.product([0, 1], repeat=n_v) if all(sum(h[i] * c[i] for i in range(n_v)) % 2 == 0 for h in H)]
            edges = [(c, v) for v in range(n_v) for c in range(n_c) if H[c][v]]

            def flooding(ch, iters, edges=edges, n_v=n_v):
                cv = {e: 0.0 for e in edges}
                post = list(ch)
                for _ in range(iters):
                    vc = {(c, v): max(-500.0, min(500.0, post[v] - cv[(c, v)])) for (c, v) in edges}
                    new = {}
                    for (c, v) in edges:
                        p_ = 1.0
                        for (c2, v2) in edges:
                            if c2 == c and v2 != v:
                                p_ *= math.tanh(vc[(c2, v2)] / 2)
                        new[(c, v)] = 2 * math.atanh(max(-0.999, min(0.999, p_)))
                    cv = new
                    post = [ch[v] + sum(cv[(c, v2)] for (c, v2) in edges if v2 == v) for v in range(n_v)]
                return post

            rows = [[((-1) ** (i + 2 * r)) * (0.25 + 0.21 * ((i * 5 + r * 3) % 7)) for i in range(n_v)] for r in range(3)]
            # sanity of the checker's own reference: 8 flooding iterations on a tree are the brute-force posterior
            for ch in rows:
                bf = []
                for i in range(n_v):
                    p0 = sum(math.exp(-sum(ch[j] * c[j] for j in range(n_v))) for c in cws if c[i] == 0)
                    p1 = sum(math.exp(-sum(ch[j] * c[j] for j in range(n_v))) for c in cws if c[i] == 1)
                    bf.append(math.log(p0 / p1))
                assert all(abs(a - b) < 1e-6 for a, b in zip(flooding(ch, 8), bf)), (H, ch)
            inputs = [[list(rows[0]), list(rows[1])], [list(rows[2])], [list(rows[1]), list(rows[2]), list(rows[0])]]  # (B, n): the layout decode_block unpacks
            for iters in (1, 2, 8):
                for exact in (True, False) if iters == 2 else (True,):
                    for soft in (True, False) if exact else (True,):
                        for x in inputs if (exact and soft) else inputs[1:2]:
                            attrs = dict(base)
                            attrs.update({"self.bp_iters": iters, "self.arctanh": exact, "self.not_ldpc": True, "self.standard": True, "self.idx_mess_t": list(idx), "self.return_soft": False, "self.code_dimension": len(idx), "self._dimension": len(idx)})
                            try:
                                run_fragment(fwd.body, {"received": [list(r) for r in x] if isinstance(x[0], list) else list(x), "args": [], "kwargs": ({"return_soft": True} if soft else {})}, attrs, funcs=funcs, materialise=True, max_steps=20000000, attrs_live=True)
                                return done(None, "no value returned")
                            except FragReturn as ret:
                                got = ret.value
                            except FragRaise:
                                return done(VIOLATION, f"H = {H}: a valid input of {len(x) if isinstance(x[0], list) else 1} row(s) is rejected")
                            except (Unfoldable, TypeError, IndexError, ValueError, KeyError, OverflowError, ZeroDivisionError) as exc:
                                return done(None, f"forward not evaluable ({exc})")
                            xr = x if isinstance(x[0], list) else [x]
                            blocks = [[r[j * n_v:(j + 1) * n_v] for j in range(len(r) // n_v)] for r in xr]
                            want_soft = [[v for b in bl for v in flooding(b, iters)] for bl in blocks]
                            want_bits = [[float(p[j * n_v + i] < 0) for j in range(len(p) // n_v) for i in idx] for p in want_soft]
                            if soft:
                                if not (isinstance(got, (PySeq, list, tuple)) and len(got) == 2):
                                    return done(None, "return_soft=True does not give a pair")
                                bits, sv = got[0], got[1]
                            else:
                                bits, sv = got, None
                            if not isinstance(x[0], list):
                                bits, sv = [bits], ([sv] if sv is not None else None)
                            tol = 1e-6 if exact else 1e-4
                            try:
                                if sv is not None and not (len(sv) == len(want_soft) and all(len(a) == len(b) and all(abs(p - q) <= tol for p, q in zip(a, b)) for a, b in zip(sv, want_soft))):
                                    k_ = next(((r_, i_) for r_, (a, b) in enumerate(zip(sv, want_soft)) for i_, (p, q) in enumerate(zip(a, b)) if abs(p - q) > tol), None)
                                    what = f"posterior LLR of bit {k_[1]} of row {k_[0]} is {sv[k_[0]][k_[1]]:.6g}; the flooding schedule gives {want_soft[k_[0]][k_[1]]:.6g}" if k_ else f"soft output of shape {[len(a) for a in sv]}, expected {[len(a) for a in want_soft]}"
                                    return done(VIOLATION, f"H = {H} (cycle-free), {iters} iteration(s), arctanh={exact}, channel LLRs {[[round(v, 3) for v in r] for r in xr]}: {what}" + (" - the brute-force bitwise posterior of this code" if iters == 8 else " after exactly that many iterations (variable-to-check = posterior - incoming message, posterior = channel + all incoming)"))
                                if not (len(bits) == len(want_bits) and all([float(v) for v in a] == b for a, b in zip(bits, want_bits))):
                                    return done(VIOLATION, f"H = {H}, {iters} iteration(s), message positions {idx}: decoded bits {str(bits)[:120]}; (posterior < 0) at the message positions, k = {len(idx)} per block, is {want_bits}")
                            except (TypeError, ValueError):
                                return done(None, "the result is not a block of numbers")
                            runs += 1
    finally:
        scope.__exit__()
    gap = scope.note([fwd.node, repo.method(ci, "compute_vc").node, repo.method(ci, "marginalize").node])
    if gap and "self.device" not in gap and "device" not in gap:
        return done(None, gap)
    return done(OK, f"{runs} decoder runs on two cycle-free graphs (1, 2 and 8 iterations; exact and series arctanh; with and without the soft output; batches of 1, 2, 3 words): the posterior equals the flooding schedule after exactly that many iterations, which at 8 iterations is the brute-force bitwise posterior; decoded bits are (posterior < 0) at the message positions")


def rule_bp(repo: Repo, rep: Report) -> int:
    ci = repo.cls(BP, "BeliefPropagationDecoder")
    n = 0
    vc = repo.method(ci, "compute_vc")
    form(rep, "BP-UPDATE", vc, one(assigns(vc, "reordered_soft_input")).value if one(assigns(vc, "reordered_soft_input")) else None, ["soft_input.gather(1, lv_ind)", "torch.gather(soft_input, 1, lv_ind)"], "posterior gathered per edge")
    form(rep, "BP-UPDATE", vc, one(assigns(vc, "lv_ind")).value if one(assigns(vc, "lv_ind")) else None, ["self.lv_ind.unsqueeze(0).repeat_interleave(batch_size, dim=0)", "self.lv_ind.unsqueeze(0).expand(batch_size, -1)", "self.lv_ind.unsqueeze(0).repeat(batch_size, 1)"], "edge -> variable map")
    if one(assigns(vc, "vc")) is None:
        # several definitions / another spelling: the method is evaluated on a small graph that has leaf variables
        st_, d_ = compute_vc_evaluated(vc)
        if st_ is None:
            rep.undecided("BP-UPDATE", vc, "vc = posterior - incoming cv (extrinsic)", f"statement not found (code shape not recognised) and not evaluable ({d_})")
        else:
            rep.add("BP-UPDATE", vc, "compute_vc evaluated on a graph with variables of degree 1, 2 and 3", st_, d_, node=vc.node)
    else:
        form(rep, "BP-UPDATE", vc, one(assigns(vc, "vc")).value if one(assigns(vc, "vc")) else None, ["reordered_soft_input - cv"], "vc = posterior - incoming cv (extrinsic)", "the variable-to-check message must exclude the message that came over the same edge", num=([{"reordered_soft_input": 1.7, "cv": 0.4}, {"reordered_soft_input": -0.3, "cv": 2.0}], lambda p: p["reordered_soft_input"] - p["cv"]))
    n += 3
    cv = repo.method(ci, "compute_cv")
    cst_, cd_ = bp_cv_tabulated(repo)
    if cst_ is not None:
        rep.add("BP-UPDATE", cv, "sum-product check update evaluated on three Tanner graphs (own tables; exact and series arctanh)", cst_, cd_, node=cv.node)
        n += 9
    if cst_ is None:
        a = assigns(cv, "tanh_vc")
        form(rep, "BP-UPDATE", cv, a[0].value if len(a) == 1 else None, ["torch.tanh(vc / 2.0)", "torch.tanh(vc * 0.5)", "torch.tanh(0.5 * vc)"], "tanh domain", "the sum-product rule works on tanh(L/2)", num=([{"vc": x} for x in (-3.0, -0.7, 0.4, 2.5)], lambda p: math.tanh(p["vc"] / 2)))
        g = [s for s in assigns(cv, "vc_extended") if isinstance(s.value, ast.Call) and isinstance(s.value.func, ast.Attribute) and s.value.func.attr == "gather"]
        form(rep, "BP-UPDATE", cv, g[0].value if len(g) == 1 else None, ["vc_extended.gather(2, ext_ce)"], "extrinsic messages gathered along axis 2")
        a = assigns(cv, "vc_extended_log2")
        form(rep, "BP-UPDATE", cv, a[0].value if len(a) == 1 else None, ["torch.log2(vc_extended.to(dtype=torch.complex64) + 1e-10)", "torch.log2(vc_extended.to(torch.complex64) + 1e-10)"], "product as a complex log-sum")
        a = [s for s in assigns(cv, "v_messages") if isinstance(s.value, ast.Call) and call_name(s.value) == "torch.sum"]
        form(rep, "BP-UPDATE", cv, a[0].value if len(a) == 1 else None, ["torch.sum(vc_extended_log2, dim=2)", "vc_extended_log2.sum(dim=2)", "torch.sum(vc_extended_log2, 2)"], "product over the extrinsic axis", "the product must run over the extrinsic axis (2): one value per edge")
        a = assigns(cv, "v_messages_msg")
        form(rep, "BP-UPDATE", cv, a[0].value if len(a) == 1 else None, ["torch.pow(2, v_messages).real", "(2 ** v_messages).real", "torch.exp2(v_messages).real"], "back from the log2 domain")
        a = [s for s in assigns(cv, "v_messages") if "arctanh" in unparse(s.value) and "Taylor" not in unparse(s.value)]
        form(rep, "BP-UPDATE", cv, a[0].value if len(a) == 1 else None, ["2 * torch.arctanh(v_messages)", "2.0 * torch.arctanh(v_messages)", "2 * torch.atanh(v_messages)"], "LLR = 2 atanh(prod tanh(vc/2))", "the check-to-variable LLR is 2*atanh of the tanh product", num=([{"v_messages": x} for x in (-0.9, -0.3, 0.2, 0.8)], lambda p: 2 * math.atanh(p["v_messages"])))
        a = [s for s in assigns(cv, "v_messages") if "Taylor_arctanh" in unparse(s.value)]
        form(rep, "BP-UPDATE", cv, a[0].value if len(a) == 1 else None, ["2 * Taylor_arctanh(v_messages)", "2.0 * Taylor_arctanh(v_messages)"], "Taylor variant: same factor", "the check-to-variable LLR is 2*atanh of the tanh product", num=([{"T": x} for x in (-0.9, 0.2)], lambda p: 2 * p["T"], [("Taylor_arctanh(v_messages)", "T")]))
        n += 7
        n += rule_collect(rep, cv, "c_group", "self.cv_group", "cv", "v_messages", reorder=True)
    mg = repo.method(ci, "marginalize")
    a = [s for s in assigns(mg, "msg")]
    form(rep, "BP-UPDATE", mg, a[0].value if len(a) >= 1 else None, ["cv_extended.gather(2, edges)"], "incoming messages of each variable")
    form(rep, "BP-UPDATE", mg, a[1].value if len(a) == 2 else None, ["msg.sum(2)", "msg.sum(dim=2)", "torch.sum(msg, dim=2)", "torch.sum(msg, 2)"], "sum of incoming messages over the edge axis")
    adds = [s for s in ast.walk(mg.node) if isinstance(s, (ast.AugAssign, ast.Assign)) and "soft_input" in unparse(s) and "soft_output" in unparse(s)]
    ok = len(adds) == 1 and (match(adds[0], "soft_output += soft_input") is not None or match(adds[0], "soft_output = soft_output + soft_input") is not None or match(adds[0], "soft_output = soft_input + soft_output") is not None)
    if len(adds) == 1 and not ok:
        st, d = numeric_verdict(adds[0], ([{"soft_output": 1.25, "soft_input": -0.5}, {"soft_output": -2.0, "soft_input": 3.0}], lambda p: p["soft_output"] + p["soft_input"]))
        rep.add("BP-UPDATE", mg, adds[0], st, d + (" - the posterior is the channel LLR plus all incoming messages" if st == VIOLATION else ""), node=adds[0])
    else:
        rep.expect(ok, "BP-UPDATE", mg, "soft_output += soft_input (once)", "posterior = channel LLR + all incoming messages", f"{len(adds)} statements combine soft_output and soft_input")
    n += 3
    n += rule_collect(rep, mg, "v_group", "self.vc_group", "soft_output", "msg", reorder=False)
    # iteration schedule in forward.decode_block
    fwd = repo.method(ci, "forward")
    db = fwd.nested("decode_block")
    if db is None:
        raise AnalysisError("decode_block closure vanished in BeliefPropagationDecoder.forward")
    est_, ed_ = bp_end_to_end(repo)
    if est_ is not None:
        rep.add("BP-UPDATE", fwd, "decoder evaluated end to end on two cycle-free graphs (tables from prep_edge_ind, own arithmetic)", est_, ed_, node=fwd.node)
        n += 6
        def own_exits(lp_):
            out, todo = [], list(lp_.body)
            while todo:
                x = todo.pop()
                if isinstance(x, (ast.Break, ast.Return)):
                    out.append(x)
                elif isinstance(x, (ast.For, ast.While)):
                    out += [r_ for r_ in ast.walk(x) if isinstance(r_, ast.Return)]  # a break in a nested loop leaves only that loop
                elif not isinstance(x, (ast.FunctionDef, ast.Lambda)):
                    todo += list(ast.iter_child_nodes(x))
            return out

        for lp_ in [l for l in db.body if isinstance(l, (ast.For, ast.While))]:
            for x in own_exits(lp_):
                rep.violation("BP-UPDATE", db, f"`{unparse(x)}` inside the iteration loop", "the message-passing schedule is cut short on a data-dependent condition: the returned posterior is the one of fewer iterations (not the exact marginal of a cycle-free graph, which needs the full schedule), and the decision of one word depends on the other words of the batch", node=x)
        n += rule_message_positions(rep, repo.method(ci, "calc_code_metrics"))
        return n
    loops = [l for l in db.body if isinstance(l, ast.For) and match(l.iter, "range(self.bp_iters)") is not None]
    if len(loops) != 1:
        rep.undecided("BP-UPDATE", db, "for _ in range(self.bp_iters)", "iteration loop not found")
    else:
        exits = [x for x in ast.walk(loops[0]) if isinstance(x, (ast.Break, ast.Return))]
        for x in exits:
            rep.violation("BP-UPDATE", db, f"`{unparse(x)}` inside the bp_iters loop", "the message-passing schedule is cut short on a data-dependent condition: the returned posterior is the one of fewer iterations (not the exact marginal of a cycle-free graph, which needs the full schedule), and the decision of one word depends on the other words of the batch", node=x)
        body = [s for s in loops[0].body if not (isinstance(s, ast.Expr) and isinstance(s.value, ast.Constant))]
        if exits:
            body = body[:3]
        want = [("vc", ["self.compute_vc(cv, messages)"]), ("cv", ["self.compute_cv(vc)"]), ("messages", ["self.marginalize(cv, received_block.view(-1, L))", "self.marginalize(cv, received_block.reshape(-1, L))"])]
        if len(body) == 3 and all(isinstance(s, ast.Assign) and isinstance(s.targets[0], ast.Name) for s in body):
            for s, (tname, acc) in zip(body, want):
                if tname == "messages" and isinstance(s.value, ast.Call) and attr_chain(s.value.func) == "self.marginalize" and len(s.value.args) == 2 and not any(isinstance(x, ast.Name) and x.id == "received_block" for x in ast.walk(s.value.args[1])) and any(isinstance(x, ast.Name) and x.id in ("messages", "vc", "cv") for x in ast.walk(s.value.args[1])):
                    rep.violation("BP-UPDATE", db, s, "the marginal is formed from a running estimate instead of the channel input: the channel LLR is counted again in every iteration", node=s)
                elif s.targets[0].id != tname and s.targets[0].id in ("vc", "cv", "messages"):
                    rep.violation("BP-UPDATE", db, s, f"schedule step assigns `{s.targets[0].id}` where `{tname}` is expected: the order vc -> cv -> marginalise is broken", node=s)
                elif s.targets[0].id != tname:
                    # other names for the three quantities: the step is judged by the method it calls and by where its arguments come from
                    callee = attr_chain(s.value.func) if isinstance(s.value, ast.Call) else None
                    want_callee = {"vc": "self.compute_vc", "cv": "self.compute_cv", "messages": "self.marginalize"}[tname]
                    prev_targets = [b_.targets[0].id for b_ in body]
                    k_ = body.index(s)
                    feeds = {x.id for x in ast.walk(s.value) if isinstance(x, ast.Name)}
                    need = {0: {prev_targets[1]}, 1: {prev_targets[0]}, 2: {prev_targets[1]}}[k_]
                    if callee == want_callee and need <= feeds:
                        rep.ok("BP-UPDATE", db, s, f"schedule: {tname} (under the name `{s.targets[0].id}`) computed by {want_callee[5:]} from the previous step's output", node=s)
                    elif callee is not None and callee != want_callee and callee in ("self.compute_vc", "self.compute_cv", "self.marginalize"):
                        rep.violation("BP-UPDATE", db, s, f"schedule step {k_ + 1} calls `{callee[5:]}` where `{want_callee[5:]}` is expected: the order vc -> cv -> marginalise is broken", node=s)
                    else:
                        rep.undecided("BP-UPDATE", db, s, f"schedule step {k_ + 1} not recognised", node=s)
                else:
                    form(rep, "BP-UPDATE", db, s.value, acc, f"schedule: {tname}", "the marginal must combine the messages with the CHANNEL input, and each step must consume the previous step's output")
            n += 3
        else:
            rep.undecided("BP-UPDATE", db, "iteration body", "not the three-step schedule vc, cv, messages")
    init = [s for s in db.body if isinstance(s, ast.Assign) and isinstance(s.targets[0], ast.Name) and s.targets[0].id == "cv"]
    form(rep, "BP-UPDATE", db, init[0].value if init else None, ["torch.zeros(messages.size(0), self.num_edges, device=device)", "torch.zeros(messages.size(0), self.num_edges)", "torch.zeros(messages.shape[0], self.num_edges, device=device)"], "initial check-to-variable messages are zero")
    a = assigns(db, "message_llr")
    form(rep, "BP-UPDATE", db, a[0].value if len(a) == 1 else None, ["decoded_block.view(B, 1, -1).gather(2, idx_mess).contiguous()", "decoded_block.view(B, 1, -1).gather(2, idx_mess)"], "message LLRs at idx_mess_t")
    a = assigns(db, "idx_mess")
    form(rep, "BP-UPDATE", db, a[0].value if len(a) == 1 else None, ["self.idx_mess_t.unsqueeze(0).unsqueeze(0).repeat_interleave(B, dim=0).to(self.device)", "self.idx_mess_t.unsqueeze(0).unsqueeze(0).repeat_interleave(B, dim=0)"], "message positions")
    n += 3
    n += rule_message_positions(rep, repo.method(ci, "calc_code_metrics"))
    return n


#: sample generator matrices the message-position selector is evaluated on (own arithmetic): systematic left / right,
#: repetition, a parity column of weight one, unit columns out of row order, a tree-structured LDPC generator
SAMPLE_GENERATORS = (
    ("[I|P] (5,3)", [[1, 0, 0, 1, 1], [0, 1, 0, 1, 0], [0, 0, 1, 0, 1]]),
    ("[P|I] (3,2)", [[1, 1, 0], [1, 0, 1]]),
    ("[P|I] Hamming(7,4)", [[1, 1, 0, 1, 0, 0, 0], [0, 1, 1, 0, 1, 0, 0], [1, 1, 1, 0, 0, 1, 0], [1, 0, 1, 0, 0, 0, 1]]),
    ("repetition (3,1)", [[1, 1, 1]]),
    ("parity column of weight one (4,2)", [[1, 0, 1, 1], [0, 1, 0, 1]]),
    ("unit columns out of row order (3,2)", [[0, 1, 1], [1, 0, 1]]),
    ("tree LDPC generator (5,2)", [[1, 1, 1, 0, 1], [0, 0, 0, 1, 1]]),
)


def rule_message_positions(rep: Report, cm: FuncInfo) -> int:
    """The decoder reads message bit i from position idx_mess_t[i]: the selector must return exactly k positions and
    column idx_mess_t[i] of G must be the i-th unit vector (that codeword bit *is* message bit i).  The selector block is
    evaluated on SAMPLE_GENERATORS with the checker's own list arithmetic."""
    from ..constfold import Unfoldable
    from ..frag import FragRaise, FragReturn, run_fragment

    what = "message positions idx_mess_t"
    set_parents(cm.node)
    stores = [s for s in ast.walk(cm.node) if isinstance(s, ast.Assign) and attr_chain(s.targets[0]) == "self.idx_mess_t"]
    if len(stores) != 1:
        rep.undecided("MESSAGE-POS", cm, what, f"{len(stores)} assignments of self.idx_mess_t (code shape not recognised)")
        return 1
    blk = next((a for a in ancestors(stores[0]) if isinstance(a, ast.If)), None)
    body = blk.body if blk is not None and unparse(blk.test) == "not self.standard" else [stores[0]]
    bad, und = [], []
    for name, G in SAMPLE_GENERATORS:
        Gf = [[float(x) for x in row] for row in G]
        try:
            env = run_fragment(body, {}, {"self.G": Gf, "self.standard": False, "self.k": len(G), "self.n": len(G[0])})
            idx = env["__attrs__"].get("self.idx_mess_t")
        except FragRaise:
            bad.append(f"{name}: the selector raises although G has a unit column for every message bit")
            continue
        except (Unfoldable, FragReturn) as exc:
            und.append(f"{name}: {exc}")
            continue
        if not (isinstance(idx, list) and all(isinstance(i, int) and not isinstance(i, bool) for i in idx)):
            und.append(f"{name}: result {idx!r} is not an index list")
            continue
        k, ncol = len(G), len(G[0])
        if len(idx) != k:
            bad.append(f"{name}: G={G} gives {len(idx)} positions {idx} for k={k} message bits (decoder output has the wrong length)")
        elif not all(0 <= j < ncol and [row[j] for row in G] == [int(r == i) for r in range(k)] for i, j in enumerate(idx)):
            bad.append(f"{name}: G={G} gives positions {idx}; column idx[i] is not the i-th unit vector, so that codeword bit is not message bit i")
    if bad:
        rep.violation("MESSAGE-POS", cm, what, "; ".join(bad[:3]), node=stores[0])
    elif und:
        rep.undecided("MESSAGE-POS", cm, what, "selector outside the evaluator: " + "; ".join(und[:2]), node=stores[0])
    else:
        rep.ok("MESSAGE-POS", cm, what, f"on {len(SAMPLE_GENERATORS)} sample generator matrices the selector returns k positions whose columns are the unit vectors in message order", node=stores[0])
    return 1


def rule_collect(rep: Report, fi: FuncInfo, loopvar: str, iter_attr: str, acc: str, item: str, reorder: bool) -> int:
    """Per-group results appended once per group on every path, concatenated along the last axis (and re-ordered by cv_order)."""
    set_parents(fi.node)
    loops = [l for l in fi.body if isinstance(l, ast.For) and attr_chain(l.iter) == iter_attr]
    if len(loops) != 1:
        rep.undecided("GROUP-ORDER", fi, f"for {loopvar} in {iter_attr}", "group loop not found (code shape not recognised)")
        return 0
    loop = loops[0]
    apps = [s for s in ast.walk(loop) if isinstance(s, ast.Call) and match(s, f"{acc}.append(_X)") is not None]
    top = [s for s in loop.body if isinstance(s, ast.Expr) and match(s.value, f"{acc}.append({item})") is not None]
    if len(apps) == 1 and len(top) == 1:
        rep.ok("GROUP-ORDER", fi, f"{acc}.append({item}) once per group, unconditionally", "one result per group in group order", node=top[0])
    elif len(apps) == 0 and not any(isinstance(x, ast.Name) and x.id == acc for x in ast.walk(fi.node)):
        # the accumulator goes by another name: a spelling, not a missing contribution
        rep.undecided("GROUP-ORDER", fi, f"per-group results collected in `{acc}`", f"no variable `{acc}` in this function (code shape not recognised)", node=loop)
    elif len(apps) != 1:
        rep.violation("GROUP-ORDER", fi, f"{len(apps)} append site(s) to `{acc}` in the group loop", "each group must contribute exactly one block of messages, in group order", node=loop)
    else:
        rep.undecided("GROUP-ORDER", fi, f"{acc}.append(...)", "append is conditional or appends another value (code shape not recognised)", node=apps[0])
    cats = [s for s in fi.body if isinstance(s, ast.Assign) and isinstance(s.value, ast.Call) and call_name(s.value) == "torch.cat" and s.value.args and unparse(s.value.args[0]) == acc]
    form(rep, "GROUP-ORDER", fi, cats[0].value if len(cats) == 1 else None, [f"torch.cat({acc}, dim=-1)", f"torch.cat({acc}, dim=1)", f"torch.cat({acc}, -1)"], "groups concatenated along the edge/variable axis")
    k = 2
    if reorder:
        no = assigns(fi, "new_order")
        form(rep, "GROUP-ORDER", fi, no[0].value if len(no) == 1 else None, ["self.cv_order.unsqueeze(0).repeat_interleave(batch_size, dim=0)", "self.cv_order.unsqueeze(0).expand(batch_size, -1)"], "check-order -> edge-order permutation")
        g = [s for s in assigns(fi, "cv_tensor") if "gather" in unparse(s.value)]
        form(rep, "GROUP-ORDER", fi, g[0].value if len(g) == 1 else None, ["cv_tensor.gather(1, new_order)", "torch.gather(cv_tensor, 1, new_order)"], "messages permuted back to edge order")
        k += 2
    return k


# ---------------------------------------------------------------------------
# MINSUM
# ---------------------------------------------------------------------------

def minsum_correction_evaluated(ci):
    """Every statement of compute_cv_minsum and of the compute_cv override that mentions self.scaling_factor or self.offset,
    in execution order, applied to a scalar message m (own arithmetic): the result must be the normalised-then-offset
    message m*s - sign(m*s)*o for every configuration (s = 1 and o = 0 included)."""
    import copy

    from ..constfold import Unfoldable
    from ..frag import FragRaise, FragReturn, run_fragment

    picked = []
    for mname in ("compute_cv_minsum", "compute_cv"):
        fi_ = ci.methods.get(mname)
        if fi_ is None:
            continue
        set_parents(fi_.node)
        for st in stmts_of(fi_.body):
            picked_nodes = [p_[0] for p_ in picked]
            if any(a in picked_nodes for a in ancestors(st)):
                continue
            if isinstance(st, ast.If) and ("self.scaling_factor" in unparse(st.test) or "self.offset" in unparse(st.test)):
                picked.append((st, mname))  # a correction under its configuration guard
            elif isinstance(st, (ast.Assign, ast.AugAssign)) and ("self.scaling_factor" in unparse(st.value) or "self.offset" in unparse(st.value)):
                picked.append((st, mname))  # an unguarded correction
    if not picked:
        return None, "no statement mentions the scaling factor or the offset"
    body = []
    for st, _ in picked:
        tg = {t_.id for x in ast.walk(st) if isinstance(x, (ast.Assign, ast.AugAssign)) for t_ in ast.walk(x.targets[0] if isinstance(x, ast.Assign) else x.target) if isinstance(t_, ast.Name) and isinstance(t_.ctx, ast.Store)}
        if len(tg) != 1:
            return None, f"`{unparse(st)[:60]}` assigns {sorted(tg)}"
        var = next(iter(tg))

        class _R(ast.NodeTransformer):
            def visit_Name(self, nd):
                return ast.copy_location(ast.Name(id="m", ctx=nd.ctx), nd) if nd.id == var else nd

        body.append(ast.fix_missing_locations(_R().visit(copy.deepcopy(st))))
    pts = [(2.0, 0.8, 0.15), (-1.5, 0.75, 0.1), (0.3, 1.0, 0.2), (-4.0, 1.0, 0.5), (1.25, 0.5, 0.0), (-0.6, 0.9, 0.0), (3.0, 1.0, 0.0), (-2.0, 0.8, 0.25)]
    for m0, s0, o0 in pts:
        try:
            env = run_fragment(body, {"m": m0}, {"self.scaling_factor": s0, "self.offset": o0, "self.normalized": s0 != 1.0}, max_steps=2000)
        except (Unfoldable, FragRaise, FragReturn, TypeError) as exc:
            return None, str(exc)
        got = env.get("m")
        if not isinstance(got, (int, float)) or isinstance(got, bool):
            return None, "the corrected message is not a number"
        scaled = m0 * s0
        want = scaled - ((scaled > 0) - (scaled < 0)) * o0
        if abs(got - want) > 1e-12:
            return VIOLATION, f"message {m0}, scaling_factor {s0}, offset {o0}: the corrected message is {got!r}; normalised-then-offset min-sum gives {m0} * {s0} - sign * {o0} = {want!r} (statements: {'; '.join(unparse(b_)[:50] for b_ in body)}): the configured scaling / offset is not what is applied"
    return OK, f"composition of {len(body)} statement(s) equals m * scaling_factor - sign(.) * offset on {len(pts)} configurations (scaling 1 and offset 0 included)"


def _minsum_tabulated(repo: Repo):
    """MinSumLDPCDecoder.compute_cv (the class's override, which delegates to compute_cv_minsum; class helpers followed)
    evaluated with own arithmetic on two Tanner graphs whose tables are computed by the checker from H, two rows of
    variable-to-check messages, and four (scaling, offset) configurations: the message on edge e of check c must be
    (product of the signs of the OTHER edges of c) * (minimum magnitude of the other edges), times the scaling factor,
    reduced in magnitude by the offset - 0 for a check of degree 1.  Returns (status, detail) or (None, reason)."""
    from ..constfold import PySeq, Unfoldable
    from ..frag import FragRaise, FragReturn, run_fragment

    ci = repo.cls(MS, "MinSumLDPCDecoder")
    top = ci.methods.get("compute_cv") or ci.methods.get("compute_cv_minsum")
    if top is None:
        return None, "compute_cv not found"
    funcs = {f"self.{nm}": m.node for nm, m in ci.methods.items() if nm not in ("forward", "__init__", top.name)}
    cases = 0
    for H, not_ldpc in (([[1, 1, 1, 0, 0], [0, 1, 0, 1, 0], [1, 1, 0, 0, 1], [0, 0, 0, 1, 0]], True), ([[1, 1, 0, 1, 0, 0], [0, 1, 1, 0, 1, 0], [1, 0, 1, 0, 0, 1]], False), ([[1, 1, 1, 0, 0], [0, 0, 0, 1, 0], [0, 1, 0, 1, 0], [1, 1, 0, 0, 1]], True)):
        n_c, n_v = len(H), len(H[0])
        cv_map = [[] for _ in range(n_c)]
        e = 0
        for v in range(n_v):
            for c in range(n_c):
                if H[c][v]:
                    cv_map[c].append(e)
                    e += 1
        cdeg = [sum(r) for r in H]
        groups = []
        for i, d in enumerate(cdeg):
            if groups and cdeg[groups[-1][-1]] == d:
                groups[-1].append(i)
            else:
                groups.append([i])
        order = [x for c in range(n_c) for x in cv_map[c]]
        cv_order = [0] * e
        for k_, x in enumerate(order):
            cv_order[x] = k_
        ext_ce = PySeq([[[x for k_, x in enumerate(m) if k_ != j] for j in range(len(m))] if len(m) > 1 else [] for m in cv_map])
        vcs = [[((-1) ** (i * 3 + r)) * (0.3 + 0.37 * ((i * 7 + r * 5) % 11)) for i in range(e)] for r in range(2)]
        vcs.append([0.0 if i % 4 == 1 else x for i, x in enumerate(vcs[0])])
        for sf, off in ((1.0, 0.0), (0.75, 0.0), (1.0, 0.1), (0.8, 0.25)):
            attrs = {"self.cv_group": PySeq([PySeq(g) for g in groups]), "self.check_degree": list(cdeg), "self.chk_degree": list(cdeg), "self.ext_ce": ext_ce, "self.cv_order": list(cv_order), "self.not_ldpc": not_ldpc, "self.scaling_factor": sf, "self.offset": off, "self.device": "cpu", "self.num_edges": e, "self.normalized": sf != 1.0, "self.arctanh": True}
            try:
                run_fragment(top.body, {"vc": [list(r) for r in vcs]}, attrs, funcs=funcs, materialise=True, max_steps=4000000, attrs_live=True)
                return None, "no value returned"
            except FragReturn as ret:
                got = ret.value
            except (Unfoldable, FragRaise, TypeError, IndexError, ValueError, KeyError) as exc:
                return None, str(exc)
            if not (isinstance(got, list) and len(got) == 3 and all(isinstance(r, list) and len(r) == e and all(isinstance(x, (int, float)) and not isinstance(x, bool) for x in r) for r in got)):
                return None, f"the result is not a (3, {e}) block of messages"
            for r in range(3):
                for c in range(n_c):
                    for j, edge in enumerate(cv_map[c]):
                        oth = [vcs[r][x] for k_, x in enumerate(cv_map[c]) if k_ != j]
                        if oth:
                            sg = 1
                            for x in oth:
                                sg *= (x > 0) - (x < 0)
                            m_ = sg * min(abs(x) for x in oth) * sf
                            want = m_ - ((m_ > 0) - (m_ < 0)) * off
                        else:
                            want = 0.0
                        if abs(got[r][edge] - want) > 1e-9:
                            return VIOLATION, f"H = {H}, scaling {sf}, offset {off}: the message to edge {edge} of check {c} (other incoming messages {[round(x, 3) for x in oth]}) is {got[r][edge]:.6g}; sign product * minimum magnitude, scaled by {sf} and reduced by the offset {off}, is {want:.6g}"
                        cases += 1
    return OK, f"{cases} check-to-variable messages on three graphs (irregular with a degree-1 check last and in the middle, regular; one row with exact zeros), four (scaling, offset) configurations: sign product times minimum magnitude of the other edges, scaled, then offset"


def minsum_tabulated(repo: Repo):
    if not hasattr(repo, "_kv_ms_cv"):
        repo._kv_ms_cv = _minsum_tabulated(repo)
    return repo._kv_ms_cv


def _cv_decided(repo: Repo, fname: str) -> bool:
    """The check update `fname` is decided by evaluation (either way): the rank and extrinsic-path rules, which read the
    function's shape, add nothing and are skipped."""
    st, _ = bp_cv_tabulated(repo) if fname == "compute_cv" else minsum_tabulated(repo)
    return st is not None


def rule_minsum(repo: Repo, rep: Report) -> int:
    ci = repo.cls(MS, "MinSumLDPCDecoder")
    fi = repo.method(ci, "compute_cv_minsum")
    n = 0
    mst_, md_ = minsum_tabulated(repo)
    if mst_ is not None:
        rep.add("MINSUM", fi, "min-sum check update evaluated on three Tanner graphs and four (scaling, offset) configurations", mst_, md_, node=fi.node)
        return 12
    ov = repo.method(ci, "compute_cv")
    rets = [s for s in ast.walk(ov.node) if isinstance(s, ast.Return)]
    if len(rets) == 1 and isinstance(rets[0].value, ast.Name) and [unparse(s_.value) for s_ in assigns(ov, rets[0].value.id)][:1] == ["self.compute_cv_minsum(vc)"]:
        # `cv = self.compute_cv_minsum(vc); <corrections>; return cv`: the corrections are judged by the composed evaluation below
        rep.ok("MINSUM", ov, f"compute_cv override: {rets[0].value.id} = self.compute_cv_minsum(vc), post-processed", "delegates to the min-sum update", node=rets[0])
    else:
        form(rep, "MINSUM", ov, rets[0].value if len(rets) == 1 else None, ["self.compute_cv_minsum(vc)"], "compute_cv override delegates to the min-sum update")
    g = [s for s in ast.walk(fi.node) if isinstance(s, ast.Assign) and isinstance(s.value, ast.Call) and isinstance(s.value.func, ast.Attribute) and s.value.func.attr == "gather" and "ext_ce" in unparse(s.value)]
    if len(g) != 1 or not isinstance(g[0].targets[0], ast.Name):
        rep.undecided("MINSUM", fi, "gather(2, ext_ce)", "extrinsic gather not found")
        return n
    G = g[0].targets[0].id
    form(rep, "MINSUM", fi, g[0].value, ["vc_extended.gather(2, ext_ce)"], "extrinsic messages gathered along axis 2")
    a = assigns(fi, "vc_extended")
    form(rep, "MINSUM", fi, a[0].value if len(a) == 1 else None, ["vc.unsqueeze(1).repeat_interleave(deg * members, dim=1)", "vc.unsqueeze(1).expand(-1, deg * members, -1)"], "one row per edge of the group")
    # every reduction applied to the gathered extrinsic messages runs over the gather axis
    for c in ast.walk(fi.node):
        if isinstance(c, ast.Call) and (call_name(c) or "").split(".")[-1] in ("prod", "min", "max", "sum", "amin", "amax", "mean") and c.args and any(isinstance(x, ast.Name) and x.id == G for x in ast.walk(c.args[0] if (call_name(c) or "").startswith("torch.") else c)):
            lib = (call_name(c) or "").startswith("torch.")
            dim = next((k.value for k in c.keywords if k.arg == "dim"), None) or (c.args[1] if lib and len(c.args) > 1 else (c.args[0] if not lib and c.args else None))
            dv = num_value(dim) if dim is not None else None
            if dv is None:
                rep.undecided("MINSUM", fi, c, "reduction axis is not a literal", node=c)
            elif dv in (2, -1):
                rep.ok("MINSUM", fi, f"{unparse(c)[:70]}", "reduces the extrinsic axis", node=c, nontrivial=False)
            else:
                rep.violation("MINSUM", fi, f"{unparse(c)[:70]}", f"reduces axis {int(dv)}; the check update combines the messages of the OTHER edges of one check node, which lie along the extrinsic axis 2", node=c)
    sp = assigns(fi, "sign_product")
    form(rep, "MINSUM", fi, sp[0].value if len(sp) == 1 else None, [f"torch.prod(torch.sign({G}), dim=2)", f"torch.sign({G}).prod(dim=2)", f"torch.prod(torch.sign({G}), 2)", f"{G}.sign().prod(dim=2)"], "sign = product of the extrinsic signs over the gather axis", "the reduction must run over the extrinsic axis (2) and yield one value per edge", num=([{G: [-3.0, 2.0, -0.5]}, {G: [1.5, 0.25]}, {G: [-0.1, -4.0, 2.0, -7.0]}], lambda p: math.prod((x > 0) - (x < 0) for x in p[G])))
    mm = assigns(fi, "min_magnitudes")
    form(rep, "MINSUM", fi, mm[0].value if len(mm) == 1 else None, [f"torch.min(torch.abs({G}), dim=2)", f"torch.abs({G}).min(dim=2)", f"torch.min({G}.abs(), dim=2)", f"torch.min(torch.abs({G}), 2)", f"torch.min(torch.abs({G}), dim=2).values", f"torch.abs({G}).min(dim=2).values", f"{G}.abs().min(dim=2).values", f"{G}.abs().min(dim=2)"], "magnitude = minimum extrinsic magnitude over the gather axis", "min-sum takes the MINIMUM of the ABSOLUTE values over the extrinsic axis (2)", num=([{G: [-3.0, 2.0, -0.5]}, {G: [1.5, 0.25]}, {G: [-0.1, -4.0, 2.0, -7.0]}], lambda p: min(abs(x) for x in p[G]), (), lambda v: v[0] if isinstance(v, list) else v))
    if len(mm) == 1 and isinstance(mm[0].value, ast.Call) and (call_name(mm[0].value) or "").endswith("min"):
        t = mm[0].targets[0]
        rep.shape(isinstance(t, ast.Tuple) and len(t.elts) == 2 and isinstance(t.elts[0], ast.Name) and t.elts[0].id == "min_magnitudes", isinstance(t, ast.Tuple) and len(t.elts) == 2 and isinstance(t.elts[1], ast.Name) and t.elts[1].id == "min_magnitudes", "MINSUM", fi, f"{unparse(t)} = torch.min(..., dim=2)", "values (not indices) of the reduction are used", "torch.min(dim=) returns (values, indices): the magnitudes must be the first element", node=mm[0])
    vm = assigns(fi, "v_messages")
    prod = [s for s in vm if "sign_product" in unparse(s.value)]
    form(rep, "MINSUM", fi, prod[0].value if len(prod) == 1 else None, ["sign_product * min_magnitudes"], "message = sign * magnitude", "the message is the sign product times the minimum magnitude", num=([{"sign_product": -1, "min_magnitudes": 0.75}, {"sign_product": 1, "min_magnitudes": 2.0}], lambda p: p["sign_product"] * p["min_magnitudes"]))
    n += 7
    # scaling / offset, each under its own configuration guard
    set_parents(fi.node)
    sc = [s for s in vm if "scaling_factor" in unparse(s.value)]
    of_ = [s for s in vm if "self.offset" in unparse(s.value)]
    if len(sc) != 1 or len(of_) != 1:
        # the correction is spelt / placed differently: the composition of every statement of the class's check update that
        # mentions the scaling factor or the offset is evaluated on sample messages
        st_, d_ = minsum_correction_evaluated(ci)
        if st_ is not None:
            rep.add("MINSUM", fi, "normalisation / offset correction of the min-sum message (all statements composed and evaluated)", st_, d_, node=fi.node)
            n += 4
            other = [s for s in vm if s not in prod and "scaling_factor" not in unparse(s.value) and "self.offset" not in unparse(s.value) and "torch.zeros" not in unparse(s.value)]
            for s in other:
                st, d, _ = classify(s.value, ["v_messages.view(batch_size, -1)", "v_messages.reshape(batch_size, -1)"])
                rep.add("MINSUM", fi, s, OK if st == OK else UNDECIDED, "rank-2 view of an already reduced (batch, edges) tensor" if st == OK else "unrecognised rewrite of the message", node=s, nontrivial=False)
            n += rule_collect(rep, fi, "c_group", "self.cv_group", "cv", "v_messages", reorder=True)
            return n
    if len(sc) == 1:
        form(rep, "MINSUM", fi, sc[0].value, ["v_messages * self.scaling_factor"], "normalised min-sum: multiply by the scaling factor", "the configured scaling factor multiplies the message", num=([{"v_messages": 1.5, "self.scaling_factor": 0.8}, {"v_messages": -2.0, "self.scaling_factor": 0.75}], lambda p: p["v_messages"] * p["self.scaling_factor"]))
        gd = [a for a in ancestors(sc[0]) if isinstance(a, ast.If)]
        rep.expect(bool(gd) and match(gd[0].test, "self.scaling_factor != 1.0") is not None, "MINSUM", fi, "scaling applied when scaling_factor != 1.0", "guard", "scaling guard not recognised", node=sc[0])
    else:
        rep.undecided("MINSUM", fi, "scaling step", f"{len(sc)} statements use scaling_factor")
    of = [s for s in vm if "self.offset" in unparse(s.value)]
    if len(of) == 1:
        form(rep, "MINSUM", fi, of[0].value, ["v_messages - torch.sign(v_messages) * self.offset"], "offset min-sum: magnitude reduced by the offset", "the offset is subtracted from the magnitude (sign(v)*offset from v)", num=([{"v_messages": 1.5, "self.offset": 0.3}, {"v_messages": -2.0, "self.offset": 0.5}], lambda p: p["v_messages"] - ((p["v_messages"] > 0) - (p["v_messages"] < 0)) * p["self.offset"]))
        gd = [a for a in ancestors(of[0]) if isinstance(a, ast.If)]
        rep.expect(bool(gd) and match(gd[0].test, "self.offset != 0.0") is not None, "MINSUM", fi, "offset applied when offset != 0.0", "guard", "offset guard not recognised", node=of[0])
    else:
        rep.undecided("MINSUM", fi, "offset step", f"{len(of)} statements use offset")
    n += 4
    # nothing else rewrites the message between the product and the append except a shape-preserving view
    other = [s for s in vm if s not in prod and s not in sc and s not in of and "torch.zeros" not in unparse(s.value)]
    for s in other:
        st, d, _ = classify(s.value, ["v_messages.view(batch_size, -1)", "v_messages.reshape(batch_size, -1)"])
        rep.add("MINSUM", fi, s, OK if st == OK else UNDECIDED, "rank-2 view of an already reduced (batch, edges) tensor" if st == OK else "unrecognised rewrite of the message", node=s, nontrivial=False)
    n += rule_collect(rep, fi, "c_group", "self.cv_group", "cv", "v_messages", reorder=True)
    return n



# ---------------------------------------------------------------------------
# RANK (engine K): the extrinsic axis is reduced, never flattened
# ---------------------------------------------------------------------------
from ..absint import Interp  # noqa: E402


class Rank(Interp):
    """Abstract value: tensor rank (int) or None (unknown / not a tensor)."""

    MAX_ITER = 3

    def __init__(self, fi: FuncInfo):
        super().__init__(fi)
        self.flattened: List[tuple] = []  # (node, source rank)
        self.appended: Dict[str, List[tuple]] = {}

    def top(self):
        return None

    def join(self, a, b):
        return a if a == b else None

    def unbound(self, name, node, env):
        return None

    def eval_Constant(self, node, env):
        return 0 if isinstance(node.value, (int, float)) and not isinstance(node.value, bool) else None

    def eval_BinOp(self, node, env):
        a, b = self.eval(node.left, env), self.eval(node.right, env)
        if isinstance(a, tuple) or isinstance(b, tuple):
            return None
        if a is None or b is None:
            # an operand of unknown rank (configuration scalar): broadcasting keeps at least the known rank
            return a if b is None else b
        return max(a, b)

    def eval_UnaryOp(self, node, env):
        return self.eval(node.operand, env)

    def eval_Compare(self, node, env):
        rs = [self.eval(node.left, env)] + [self.eval(c, env) for c in node.comparators]
        return None if any(r is None for r in rs) else max(rs)

    def unpack(self, value, n, node):
        if isinstance(value, tuple) and len(value) == n:
            return list(value)
        return [None] * n

    def collection(self, vals, node, env):
        return tuple(vals)

    def eval_Call(self, node, env):
        name = call_name(node) or ""
        short = name.split(".")[-1]
        lib = name.startswith(("torch.", "F."))
        is_method = isinstance(node.func, ast.Attribute) and not lib
        recv = self.eval(node.func.value, env) if is_method else None
        args = [self.eval(a, env) for a in node.args]
        kw = {k.arg: k.value for k in node.keywords if k.arg}
        for k in node.keywords:
            self.eval(k.value, env)
        tgt = recv if is_method else (args[0] if args else None)
        if lib and short in ("pow", "mul", "add", "sub", "div", "where", "maximum", "minimum", "atan2"):
            ints = [a for a in args if isinstance(a, int)]
            tgt = max(ints) if ints else None
        if not lib and not is_method and name and "." not in name and args and isinstance(args[0], int) and getattr(self, "repo", None) is not None:
            try:
                callee = self.repo.resolve_name(self.fi.module, name)
            except Exception:
                callee = None
            if isinstance(callee, FuncInfo) and len(callee.params) >= 1:
                sub = Rank(callee)
                sub.repo = self.repo
                sub.run({callee.params[0]: args[0]})
                rs = {v for v, _n, _e in sub.returns}
                return rs.pop() if len(rs) == 1 else None
        if is_method and short == "append" and node.args:
            self.appended.setdefault(unparse(node.func.value), []).append((node, args[0]))
            return None
        if not isinstance(tgt, int):
            if lib and short in ("zeros", "ones", "empty", "rand", "randn"):
                shape_args = [a for a in node.args]
                if len(shape_args) == 1 and isinstance(shape_args[0], (ast.Tuple, ast.List)):
                    return len(shape_args[0].elts)
                return len(shape_args)
            return None
        keepdim = "keepdim" in kw and isinstance(kw["keepdim"], ast.Constant) and kw["keepdim"].value is True
        has_dim = "dim" in kw or len(node.args) > (0 if is_method else 1)
        if short in ("sum", "prod", "mean", "amin", "amax", "any", "all", "argmin", "argmax", "norm", "logsumexp"):
            return tgt if keepdim else (tgt - 1 if has_dim else 0)
        if short in ("min", "max", "median", "sort", "topk"):
            if not has_dim:
                return 0
            r = tgt if keepdim else tgt - 1
            return (r, r)
        if short == "unsqueeze":
            return tgt + 1
        if short == "squeeze" and has_dim:
            return tgt - 1
        if short in ("view", "reshape"):
            dims = node.args if is_method else node.args[1:]
            if len(dims) == 1 and isinstance(dims[0], (ast.Tuple, ast.List)):
                dims = dims[0].elts
            if any(isinstance(d, ast.Starred) for d in dims):
                return None
            new = len(dims)
            if new < tgt:
                self.flattened.append((node, tgt, new))
            return new
        if short in ("flatten",):
            self.flattened.append((node, tgt, None))
            return None
        if short == "masked_select":
            return 1
        if short in ("sign", "abs", "gather", "repeat_interleave", "clamp", "clip", "to", "float", "double", "clone", "contiguous", "tanh", "arctanh", "atanh", "log2", "pow", "exp", "zeros_like", "ones_like", "neg", "real", "type", "int", "long", "where", "detach", "expand", "scatter"):
            return tgt
        return None

    def attribute(self, node, base, env):
        if node.attr in ("real", "imag", "T") and isinstance(base, int):
            return base
        return None

    def eval_Subscript(self, node, env):
        base = self.eval(node.value, env)
        self.eval(node.slice, env)
        if isinstance(base, tuple):
            if isinstance(node.slice, ast.Constant) and isinstance(node.slice.value, int) and -len(base) <= node.slice.value < len(base):
                return base[node.slice.value]
            return None
        return None

    def store_subscript(self, target, value, env, stmt):
        return


def rule_rank(repo: Repo, rep: Report) -> int:
    n = 0
    for file, cname, fname in ((BP, "BeliefPropagationDecoder", "compute_cv"), (MS, "MinSumLDPCDecoder", "compute_cv_minsum")):
        ci = repo.cls(file, cname)
        fi = repo.method(ci, fname)
        if _cv_decided(repo, fname):
            rep.ok("RANK", fi, f"{cname}.{fname}: decided by the evaluated check update", "the evaluation compares every edge's message with the function of the other edges' messages (zeros included)", node=fi.node, nontrivial=False)
            n += 1
            continue
        it = Rank(fi)
        it.repo = repo
        it.run({"vc": 2})
        seen_f = set()
        for node, src, new in it.flattened:
            if id(node) in seen_f:
                continue
            seen_f.add(id(node))
            if src >= 3:
                rep.violation("RANK", fi, node, f"a rank-{src} tensor (batch, edges, extrinsic) is flattened to rank {new if new is not None else '1'}: the extrinsic axis must be eliminated by a reduction over it, not folded into the edge axis - every check node then emits deg-1 values per edge and all later messages are routed to the wrong edges", node=node)
            else:
                rep.ok("RANK", fi, node, f"rank {src} -> {new}: no message axis is folded", node=node, nontrivial=False)
        apps = it.appended.get("cv", [])
        if not apps:
            rep.undecided("RANK", fi, "cv.append(...)", "no per-group result found")
            continue
        seen_a = set()
        for node, r in apps:
            if (id(node), r) in seen_a:
                continue
            seen_a.add((id(node), r))
            n += 1
            if r == 2:
                rep.ok("RANK", fi, node, "per-group messages have rank 2 (batch, edges of the group): one value per edge", node=node)
            elif r is None:
                rep.undecided("RANK", fi, node, "rank of the per-group messages not derived", node=node)
            else:
                rep.violation("RANK", fi, node, f"per-group messages have rank {r}; torch.cat along the last axis needs (batch, edges of the group): the extrinsic axis was not reduced", node=node)
    return n


# ---------------------------------------------------------------------------
# EXTRINSIC principle
# ---------------------------------------------------------------------------

def rule_extrinsic(repo: Repo, rep: Report) -> int:
    """The message sent over an edge is a function of the messages on the OTHER edges of the node only: in the check
    updates every data path from the incoming messages `vc` to the value appended to `cv` passes through the
    extrinsic gather `.gather(2, ext_ce)`.  (A formula that multiplies the own message back out agrees only when
    no message is exactly zero: sign(0) = 0, tanh(0) = 0.)"""
    n = 0
    for file, cname, fname in ((BP, "BeliefPropagationDecoder", "compute_cv"), (MS, "MinSumLDPCDecoder", "compute_cv_minsum")):
        ci = repo.cls(file, cname)
        fi = repo.method(ci, fname)
        if _cv_decided(repo, fname):
            rep.ok("EXTRINSIC", fi, f"{cname}.{fname}: decided by the evaluated check update", "the evaluation compares every edge's message with the function of the other edges' messages (zeros included)", node=fi.node, nontrivial=False)
            n += 1
            continue
        defs: Dict[str, List[ast.AST]] = {}
        for s_ in ast.walk(fi.node):
            if isinstance(s_, ast.Assign):
                for t in s_.targets:
                    for e in (t.elts if isinstance(t, (ast.Tuple, ast.List)) else [t]):
                        if isinstance(e, ast.Name):
                            defs.setdefault(e.id, []).append(s_.value)

        def is_ext_gather(e: ast.AST) -> bool:
            return isinstance(e, ast.Call) and isinstance(e.func, ast.Attribute) and e.func.attr == "gather" and len(e.args) == 2 and num_value(e.args[0]) == 2 and any(isinstance(x, ast.Name) and x.id.startswith("ext_ce") for x in ast.walk(e.args[1]))

        kinds: Dict[str, set] = {"vc": {"raw"}}
        verdicts: List[tuple] = []

        def expr_kinds(e: ast.AST) -> set:
            if is_ext_gather(e):
                inner = expr_kinds(e.func.value)
                return {"ext"} if inner else set()
            if isinstance(e, ast.Call) and isinstance(e.func, ast.Attribute) and e.func.attr in ("size", "dim", "numel", "get_device", "type"):
                return set()  # shape / type metadata carries no message values
            if isinstance(e, ast.Attribute) and e.attr in ("shape", "device", "dtype", "ndim"):
                return set()
            out = set()
            for ch in ast.iter_child_nodes(e):
                if isinstance(ch, ast.keyword):
                    out |= expr_kinds(ch.value)
                elif isinstance(ch, ast.comprehension):
                    out |= expr_kinds(ch.iter)
                elif isinstance(ch, ast.expr):
                    out |= expr_kinds(ch)
            if isinstance(e, ast.Name) and e.id in kinds:
                out |= kinds[e.id]
            return out

        def walk(body):
            for st in body:
                if isinstance(st, ast.Assign):
                    k_ = expr_kinds(st.value)
                    for t in st.targets:
                        for e_ in (t.elts if isinstance(t, (ast.Tuple, ast.List)) else [t]):
                            if isinstance(e_, ast.Name):
                                kinds[e_.id] = set(k_)  # strong update in statement order
                elif isinstance(st, ast.AugAssign) and isinstance(st.target, ast.Name):
                    kinds[st.target.id] = kinds.get(st.target.id, set()) | expr_kinds(st.value)
                elif isinstance(st, ast.If):
                    before = {k: set(v) for k, v in kinds.items()}
                    walk(st.body)
                    after_body = {k: set(v) for k, v in kinds.items()}
                    kinds.clear()
                    kinds.update(before)
                    walk(st.orelse)
                    for k, v in after_body.items():
                        kinds[k] = kinds.get(k, set()) | v
                elif isinstance(st, (ast.For, ast.While)):
                    walk(st.body)
                elif isinstance(st, ast.Expr) and isinstance(st.value, ast.Call) and match(st.value, "cv.append(_X)") is not None:
                    verdicts.append((st.value, expr_kinds(st.value.args[0])))

        walk(fi.body)
        if not verdicts:
            rep.undecided("EXTRINSIC", fi, f"{cname}.{fname}: cv.append(...)", "no per-group result found")
        for c, ks in verdicts:
            n += 1
            if ks == {"ext"} or not ks:
                rep.ok("EXTRINSIC", fi, f"{cname}.{fname}: {unparse(c)}", "depends on the incoming messages only through the extrinsic gather" if ks else "constant (degree-1 checks send nothing)", node=c)
            else:
                raw_names = sorted(k for k, v in kinds.items() if "raw" in v and k not in ("vc", "vc_extended", "tanh_vc"))
                rep.violation("EXTRINSIC", fi, f"{cname}.{fname}: {unparse(c)}", f"the outgoing message also depends on the incoming messages outside the extrinsic gather (via {raw_names or 'a direct read of vc'}): the message on an edge is then a function of that edge's own incoming message - it differs from the extrinsic rule whenever a message is exactly zero (erasures, quantised LLRs)", node=c)
    return n


# ---------------------------------------------------------------------------
# SCALE (homogeneity)
# ---------------------------------------------------------------------------
SATURATING = {"clamp", "clip", "clamp_", "clip_", "hardtanh", "tanh", "sigmoid", "round", "floor", "ceil", "trunc", "nan_to_num", "clamp_min", "clamp_max", "softsign", "erf", "atan", "arctan", "exp", "log", "log1p", "sqrt", "square", "pow"}


class Homog(Degree):
    """Degree interpreter that records saturating / non-homogeneous operations applied to the LLR."""

    def __init__(self, *a, allowed_clamp=None, **k):
        super().__init__(*a, **k)
        self.allowed_clamp = allowed_clamp
        self.bad: List[tuple] = []
        self.okclamps: List[ast.AST] = []
        self.captured: Dict[str, List[DV]] = {}

    def eval_Call(self, node, env):
        name = call_name(node) or ""
        short = name.split(".")[-1]
        is_method = isinstance(node.func, ast.Attribute) and not name.startswith(("torch.", "F.", "math.", "np."))
        if short in SATURATING:
            tgt = self.eval(node.func.value, env) if is_method else (self.eval(node.args[0], env) if node.args else None)
            if isinstance(tgt, DV) and tgt.d:
                bounds = [num_value(a) for a in (node.args if is_method else node.args[1:])] + [num_value(k.value) for k in node.keywords if k.arg in ("min", "max")]
                if short in ("clamp", "clip") and self.allowed_clamp is not None and sorted(b for b in bounds if b is not None) == sorted(self.allowed_clamp) and len(bounds) == 2:
                    self.okclamps.append(node)
                    return DV(tgt.d)
                self.bad.append((node, f"`{unparse(node)[:70]}` is not positively homogeneous: it changes the relative order / ratio of the soft values"))
                return DV(tgt.d)
        if short in ("repeat_interleave", "tile", "broadcast_to", "roll", "flip", "prod") and (is_method or name.startswith("torch.")):
            tgt = self.eval(node.func.value, env) if is_method else (self.eval(node.args[0], env) if node.args else None)
            for a_ in node.args:
                self.eval(a_, env)
            if isinstance(tgt, DV):
                if short == "prod" and tgt.d:
                    self.bad.append((node, f"`{unparse(node)[:70]}` multiplies soft values: the degree depends on the number of factors"))
                    return UNK
                return DV(tgt.d, tgt.zero)
        if isinstance(node.func, ast.Attribute) and node.func.attr == "append" and node.args:
            v = self.eval(node.args[0], env)
            self.captured.setdefault(unparse(node.func.value), []).append(v)
            return CONST
        if isinstance(node.func, ast.Name) and getattr(self, "depth", 0) < 2 and not node.keywords:
            # a module-level helper of the repository (e.g. imported from fec/utils): its body is analysed on the degrees
            # of the arguments, so that a saturating operation hidden in a helper is seen
            callee = self.repo.resolve_name(self.fi.module, node.func.id)
            if isinstance(callee, FuncInfo) and callee.cls is None and len(node.args) <= len(callee.params):
                sub = Homog(callee, self.repo, allowed_clamp=self.allowed_clamp, depth=getattr(self, "depth", 0) + 1)
                sub.run({p_: self.eval(a_, env) for p_, a_ in zip(callee.params, node.args)})
                self.bad += [(node, f"via {callee.name}: {why}") for _nd, why in sub.bad]
                vals = [v for v, _r, _e in sub.returns if isinstance(v, DV)]
                if vals and all(v == vals[0] for v in vals):
                    return vals[0]
                return UNK if sub.returns else CONST
        return super().eval_Call(node, env)

    def eval_BinOp(self, node, env):
        v = super().eval_BinOp(node, env)
        if isinstance(node.op, (ast.Add, ast.Sub)):
            a, b = self.eval(node.left, env), self.eval(node.right, env)
            if isinstance(a, DV) and isinstance(b, DV) and a.d is not None and b.d is not None and a.d != b.d and not a.zero and not b.zero:
                self.bad.append((node, f"`{unparse(node)[:70]}` adds a term that does not scale with the input ({a.show()} vs {b.show()})"))
        return v


L1 = DV({"L": Fraction(1)})


def rule_scale(repo: Repo, rep: Report) -> int:
    n = 0
    bp = repo.cls(BP, "BeliefPropagationDecoder")
    base = repo.method(bp, "compute_cv")
    # the decoder family's declared message-clipping range: the clamp applied to vc on entry of the sum-product update
    rng = None
    for s in assigns(base, "vc"):
        m = match(s.value, "vc.clamp(_A, _B)")
        if m is not None and num_value(m["_A"]) is not None and num_value(m["_B"]) is not None:
            rng = [num_value(m["_A"]), num_value(m["_B"])]
    if rng is None:
        rep.undecided("SCALE", base, "declared clipping range vc.clamp(lo, hi)", "not found")
        return 0
    rep.ok("SCALE", base, f"declared message-clipping range [{rng[0]:g}, {rng[1]:g}]", "reference for the min-sum sibling", nontrivial=False)
    ci = repo.cls(MS, "MinSumLDPCDecoder")
    fi = repo.method(ci, "compute_cv_minsum")

    def cfg(test, env):
        t = unparse(test)
        if t == "self.offset != 0.0":
            return False  # the offset is the one configured non-homogeneous term: analyse the offset-free configuration
        return None

    it = Homog(fi, repo, cls=ci, config=cfg, allowed_clamp=rng)
    it.run({"vc": L1})
    outs = it.captured.get("cv", [])
    for node, why in it.bad:
        rep.violation("SCALE", fi, node, why + "; the min-sum decoder must be invariant to positive rescaling of its input inside the clipping range", node=node)
    n += 1
    if not outs:
        rep.undecided("SCALE", fi, "cv.append(v_messages)", "no message reaches the output list")
    else:
        good = all(isinstance(v, DV) and (v.zero or v.d == L1.d) for v in outs)
        unk = any(isinstance(v, DV) and v.d is None for v in outs)
        if good:
            rep.ok("SCALE", fi, "check-to-variable messages (offset = 0)", f"homogeneous of degree 1 in the input messages ({len(it.okclamps)} clamp(s) at the declared range)")
        elif unk:
            rep.undecided("SCALE", fi, "check-to-variable messages", "degree not derived (" + "; ".join(it.notes[:2]) + ")")
        else:
            rep.violation("SCALE", fi, "check-to-variable messages", "degree " + ", ".join(v.show() for v in outs) + " in the input: rescaling the LLRs changes the decisions")
    # belief propagation / min-sum (inherited): from the posterior to the decided bits the path must be exact for every
    # positive magnitude - comparisons, sign, index selection; a decision through sigmoid / round / clamp saturates in
    # float32 (round(sigmoid(-1e-8)) is 0: a weak negative posterior is decided as bit 0)
    fwd = repo.method(bp, "forward")
    db = fwd.nested("decode_block")
    if db is not None:
        loops_ = [i for i, st_ in enumerate(db.body) if isinstance(st_, (ast.For, ast.While))]
        tail = db.body[loops_[-1] + 1:] if loops_ else []
        if tail:
            bound, free = set(), []
            for st_ in tail:
                for x_ in ast.walk(st_):
                    if isinstance(x_, ast.Name) and isinstance(x_.ctx, ast.Load) and x_.id not in bound and x_.id not in free and x_.id not in ("torch", "self", "sign_to_bin", "llr_to_bits", "F", "math"):
                        free.append(x_.id)
                for x_ in ast.walk(st_):
                    if isinstance(x_, ast.Name) and isinstance(x_.ctx, ast.Store):
                        bound.add(x_.id)
            sizes = {e.id for st_ in db.body[: (loops_[-1] if loops_ else 0)] for t_ in (st_.targets if isinstance(st_, ast.Assign) else []) if isinstance(st_.value, ast.Call) and isinstance(st_.value.func, ast.Attribute) and st_.value.func.attr in ("size",) or isinstance(getattr(st_, "value", None), ast.Attribute) and getattr(st_.value, "attr", "") == "shape" for e in ast.walk(t_) if isinstance(e, ast.Name)}
            fake = ast.FunctionDef(name="decode_block_decision", args=ast.arguments(posonlyargs=[], args=[ast.arg(arg=a_) for a_ in free], kwonlyargs=[], kw_defaults=[], defaults=[]), body=tail, decorator_list=[], returns=None, type_comment=None)
            ast.copy_location(fake, tail[0])
            ast.fix_missing_locations(fake)
            fi_tail = FuncInfo(module=fwd.module, node=fake, cls=bp)
            ib = Homog(fi_tail, repo, cls=bp, allowed_clamp=None)
            ib.run({a_: (CONST if a_ in sizes else L1) for a_ in free})
            for node, why in ib.bad:
                rep.violation("SCALE", db, node, why + "; the decision of the belief-propagation / min-sum decoders must depend on the sign of the posterior only (clean input of any positive magnitude decodes clean; min-sum decisions are invariant to positive rescaling)", node=node)
            rep.add("SCALE", db, "posterior reaches the bit decision unsaturated", OK if not ib.bad else VIOLATION, "sign / comparison / selection only between the last iteration and the decided bits" if not ib.bad else "see above")
            n += 1
    # Wagner: the comparison with 0 and the argmin of |.| see the raw input
    wc = repo.cls(WG, "WagnerSoftDecisionDecoder")
    wf = repo.method(wc, "forward")
    iw = Homog(wf, repo, cls=wc, allowed_clamp=None)
    iw.run({"received": L1})
    for node, why in iw.bad:
        rep.violation("SCALE", wf, node, why + "; the Wagner decoder must return an ML codeword for every real input (saturation creates ties among reliable positions)", node=node)
    # every read of `received` feeding the decisions must still have degree 1
    rep.add("SCALE", wf, "soft values reach `< 0` and argmin(abs(.)) unsaturated", OK if not iw.bad else VIOLATION, "no saturating or non-homogeneous operation on the path" if not iw.bad else "see above")
    n += 2
    return n


# ---------------------------------------------------------------------------
# WAGNER
# ---------------------------------------------------------------------------

def wagner_evaluated(repo: Repo):
    """WagnerSoftDecisionDecoder.forward evaluated with own arithmetic for the (4,3) and (5,4) single-parity-check codes on
    real words without ties (single word, batch, two blocks in one row, a batch of rank 3, return_errors=True): the
    message must be the first k bits of the maximum-likelihood codeword - the even-weight word c maximising
    sum (1 - 2 c_i) r_i, found by enumeration - a zero soft value counting as bit 0.  Returns (status, detail) or None."""
    import itertools

    from ..constfold import PySeq, Unfoldable
    from ..frag import FragRaise, FragReturn, run_fragment

    wc = repo.cls(WG, "WagnerSoftDecisionDecoder")
    fwd = repo.method(wc, "forward")
    funcs = {f"self.{nm}": m.node for nm, m in wc.methods.items() if nm not in ("forward", "__init__")}
    for mi_ in repo.modules.values():
        if mi_.relpath == "kaira/models/fec/utils.py":
            funcs.update({nm: f.node for nm, f in mi_.functions.items()})

    def ml(r):
        best, bw = None, None
        for c in itertools.product((0, 1), repeat=len(r)):
            if sum(c) % 2:
                continue
            sc = sum((1 - 2 * ci) * ri for ci, ri in zip(c, r))
            if best is None or sc > best:
                best, bw = sc, c
        return list(bw)

    cases = 0
    for n_ in (4, 5):
        k_ = n_ - 1
        base = [[0.9, -0.2, 1.1, 0.5, -0.7], [-1.0, -0.3, 0.2, 2.0, 0.6], [-0.4, -0.6, -0.8, 0.15, -1.2], [0.05, 1.5, -2.5, 0.7, -0.35], [-0.9, 0.8, -0.75, 0.65, 0.1], [0.0, -0.5, 1.25, -0.3, 0.45], [2.0, 1.0, 0.5, 0.25, 0.125], [0.0, -0.5, 1.25, 0.3, 0.45]]
        words = [w[:n_] for w in base]
        layouts = [("a single word", words[0], [ml(words[0])[:k_]][0]), ("a batch of 8 words", words, [ml(w)[:k_] for w in words]), ("two blocks in one row", [words[1] + words[2], words[3] + words[4]], [ml(words[1])[:k_] + ml(words[2])[:k_], ml(words[3])[:k_] + ml(words[4])[:k_]]), ("a batch of rank 3", [[words[0], words[1]], [words[2], words[3]]], [[ml(words[0])[:k_], ml(words[1])[:k_]], [ml(words[2])[:k_], ml(words[3])[:k_]]])]
        for what, rec, want in layouts:
            for kw in ({}, {"return_errors": True}):
                try:
                    run_fragment(fwd.body, {"received": rec, "args": PySeq([]), "kwargs": dict(kw)}, {"self.code_length": n_, "self.code_dimension": k_}, funcs=funcs, materialise=True, max_steps=2000000, attrs_live=True)
                    return None
                except FragReturn as ret:
                    got = ret.value
                except (Unfoldable, FragRaise, TypeError, IndexError, ValueError, KeyError):
                    return None
                if kw:
                    if not (isinstance(got, list) and len(got) == 2):
                        return None
                    got = got[0]

                def num(z):
                    return [num(t) for t in z] if isinstance(z, list) else int(z)

                try:
                    g_ = num(got)
                except (TypeError, ValueError):
                    return None
                if g_ != want:
                    return VIOLATION, f"({n_},{k_}) single-parity-check code, {what}{' with return_errors=True' if kw else ''}: the soft word(s) {str(rec)[:110]} are decoded to {str(g_)[:80]}; the first {k_} bits of the maximum-likelihood (even-weight, maximum correlation) codeword(s) are {str(want)[:80]}"
                cases += 1
    return OK, f"{cases} decodings ((4,3) and (5,4) codes; single word, batch, two blocks per row, rank-3 batch; with and without error patterns) equal the first k bits of the enumerated maximum-likelihood codeword; a zero soft value counts as bit 0"


def rule_wagner(repo: Repo, rep: Report) -> int:
    wc = repo.cls(WG, "WagnerSoftDecisionDecoder")
    fi = repo.method(wc, "forward")
    n = 0
    wev_ = wagner_evaluated(repo)
    if wev_ is not None:
        rep.add("WAGNER", fi, "forward evaluated on real words of the (4,3) and (5,4) single-parity-check codes against enumerated ML decoding", wev_[0], wev_[1], node=fi.node)
        from .c20 import rule_tlist

        return 8 + rule_tlist(repo, rep, [wc])
    a = assigns(fi, "hard_decisions")
    form(rep, "WAGNER", fi, a[0].value if a else None, ["(received < 0).to(torch.int)", "(received < 0).int()", "(received < 0).long()", "(received < 0).to(torch.long)"], "hard decision: negative LLR -> bit 1", "bit 1 iff the LLR is negative")
    a = assigns(fi, "parity_sums")
    loops = [l for l in fi.body if isinstance(l, ast.For)]
    lp = one([l for l in loops if "parity_sums" in unparse(l.iter)])
    if len(a) != 1 or lp is None:
        # unlisted spelling of the parity test: the set of blocks that get a flip must be computed from the hard decisions
        # themselves (the bits whose parity is repaired), not from the soft values by another route
        nz = one([l for l in loops if any(isinstance(c, ast.Call) and (call_name(c) or "").split(".")[-1] == "nonzero" for c in ast.walk(l.iter))])
        if nz is not None:
            defs_ = {}
            for s_ in ast.walk(fi.node):
                if isinstance(s_, ast.Assign) and len(s_.targets) == 1 and isinstance(s_.targets[0], ast.Name):
                    defs_.setdefault(s_.targets[0].id, []).append(s_.value)

            def roots(e, depth=0):
                out = set()
                for x in ast.walk(e):
                    if isinstance(x, ast.Name):
                        if x.id in ("hard_decisions", "received"):
                            out.add(x.id)
                        elif x.id in defs_ and depth < 5 and x.id not in ("torch",):
                            for d_ in defs_[x.id]:
                                out |= roots(d_, depth + 1)
                return out

            rts = roots(nz.iter)
            if "received" in rts and "hard_decisions" not in rts:
                rep.violation("WAGNER", fi, f"blocks that get a flip: for {unparse(nz.target)} in {unparse(nz.iter)[:80]}", "the parity test is computed from the soft values by a second route (sign / product) instead of from the hard decisions that are repaired: the two disagree for a soft value of exactly 0 (sign(0) = 0 makes the product 0, the hard decision is bit 0), so a block with odd hard-decision parity is left uncorrected and the output is not a codeword", node=nz)
                n += 3
                lp = None
                a = []
                return n
    form(rep, "WAGNER", fi, a[0].value if len(a) == 1 else None, ["hard_decisions.sum(dim=-1) % 2", "hard_decisions.sum(-1) % 2", "torch.sum(hard_decisions, dim=-1) % 2"], "block parity")
    form(rep, "WAGNER", fi, lp.iter if lp is not None else None, ["torch.nonzero(parity_sums == 1, as_tuple=False)", "torch.nonzero(parity_sums == 1)", "torch.nonzero(parity_sums != 0, as_tuple=False)", "(parity_sums == 1).nonzero()"], "blocks failing the even-parity check", "exactly the odd-parity blocks are corrected")
    n += 3
    if lp is not None:
        sub = FuncInfo(fi.module, fi.node, fi.cls)
        a = [s for s in ast.walk(lp) if isinstance(s, ast.Assign) and isinstance(s.targets[0], ast.Name)]
        by = {s.targets[0].id: s for s in a}
        form(rep, "WAGNER", fi, by["block_pos"].value if "block_pos" in by else None, ["tuple(batch_indices) + (block_idx,)"], "coordinates of the failing block (a tuple: element selection)")
        form(rep, "WAGNER", fi, by["block_values"].value if "block_values" in by else None, ["received[block_pos]"], "soft values of that block only")
        form(rep, "WAGNER", fi, by["least_reliable_idx"].value if "least_reliable_idx" in by else None, ["torch.argmin(torch.abs(block_values))", "torch.abs(block_values).argmin()", "block_values.abs().argmin()"], "least reliable position = argmin |llr|", "the flipped position is the one with the smallest magnitude")
        form(rep, "WAGNER", fi, by["bit_pos"].value if "bit_pos" in by else None, ["block_pos + (least_reliable_idx,)"], "coordinates of the flipped bit")
        flips = [s for s in ast.walk(lp) if isinstance(s, ast.Assign) and isinstance(s.targets[0], ast.Subscript) and attr_chain(s.targets[0].value) == "hard_decisions"]
        form(rep, "WAGNER", fi, flips[0] if len(flips) == 1 else None, ["hard_decisions[bit_pos] = 1 - hard_decisions[bit_pos]", "hard_decisions[bit_pos] = hard_decisions[bit_pos] ^ 1"], "flip exactly that bit")
        n += 5
    a = [s for s in assigns(fi, "decoded") if "hard_decisions" in unparse(s.value)]
    form(rep, "WAGNER", fi, a[0].value if len(a) == 1 else None, ["hard_decisions[..., :self.code_dimension]", "hard_decisions[..., 0:self.code_dimension]"], "message = first k positions of the corrected word")
    n += 1
    from .c20 import rule_tlist

    n += rule_tlist(repo, rep, [wc])
    return n


# ---------------------------------------------------------------------------
# RM-SOFT
# ---------------------------------------------------------------------------

def rm_forward_evaluated(repo: Repo):
    """ReedMullerDecoder.forward in soft mode (class helpers and the block-wise utility followed) evaluated with own
    arithmetic on real words, with index partitions chosen by the checker (pairs, singletons, a group with an index beyond
    the word, more partitions than message bits): message bit j must be 1 iff the reliability-weighted vote
    sum over the groups of (1 - 2 * parity of the group's hard decisions) * (minimum |value| in the group) is negative,
    a hard decision being 1 iff the soft value is negative.  Returns (status, detail) or (None, reason)."""
    from ..constfold import PySeq, Unfoldable
    from ..frag import FragRaise, FragReturn, run_fragment

    ci = repo.cls(RM, "ReedMullerDecoder")
    fwd = repo.method(ci, "forward")
    funcs = {f"self.{nm}": m.node for nm, m in ci.methods.items() if nm not in ("forward", "__init__")}
    for mi_ in repo.modules.values():
        if mi_.relpath == "kaira/models/fec/utils.py":
            funcs.update({nm: f.node for nm, f in mi_.functions.items()})
    n_, k_ = 8, 4
    parts = [[[0, 1], [2, 3], [4, 5], [6, 7]], [[0, 2], [1, 3], [4, 6], [5, 7]], [[0, 4, 9], [1, 5], [2, 6], [3, 7], [8, 9]], [[0], [1], [2], [3], [4], [5], [6], [7]], [[0, 7]]]
    words = [[0.9, -1.1, 0.8, -1.2, 1.0, -0.7, 1.3, -0.2], [2.0, 1.5, -0.3, 0.4, 0.1, -0.2, 0.9, 1.1], [-0.5, -0.6, -0.7, -0.8, 0.05, 0.9, -1.0, 1.1], [3.0, -0.1, -0.1, 2.0, -2.5, 0.2, 0.3, -0.4], [-1.0, -1.0, 1.0, 1.0, -1.0, 1.0, 1.0, -3.0]]

    def ref(r):
        out = []
        for j, partition in enumerate(parts):
            if j >= k_:
                break
            tot, any_ = 0.0, False
            for group in partition:
                idx = [g_ for g_ in group if g_ < len(r)]
                if not idx:
                    continue
                any_ = True
                par = sum(1 for g_ in idx if r[g_] < 0) % 2
                tot += (1 - 2 * par) * min(abs(r[g_]) for g_ in idx)
            out.append(1 if (any_ and tot < 0) else 0)
        return out

    attrs = {"self.code_length": n_, "self.code_dimension": k_, "self.input_type": "soft", "self._reed_partitions": PySeq([PySeq([list(g_) for g_ in p_]) for p_ in parts])}
    for what, rec in (("a batch of five words", words), ("a single word", words[3]), ("two words side by side in one row", [words[0] + words[2]])):
        try:
            run_fragment(fwd.body, {"received": rec, "args": PySeq([]), "kwargs": {}}, dict(attrs), funcs=funcs, materialise=True, max_steps=6000000, attrs_live=True)
            return None, "no value returned"
        except FragReturn as ret:
            got = ret.value
        except (Unfoldable, FragRaise, TypeError, IndexError, ValueError, KeyError) as exc:
            return None, f"{what}: {exc}"
        if what.startswith("a batch"):
            want = [ref(r) for r in words]
        elif what.startswith("a single"):
            want = ref(words[3])
        else:
            want = [ref(words[0]) + ref(words[2])]

        def num(z):
            return [num(t) for t in z] if isinstance(z, list) else int(z)

        try:
            g_ = num(got)
        except (TypeError, ValueError):
            return None, "the result is not numeric"
        if g_ != want:
            return VIOLATION, f"soft Reed decoding of {what}: the message bits come out as {str(g_)[:120]}; the reliability-weighted majority votes (group parity of the hard decisions, weight = minimum reliability of the group, bit 1 iff the vote is negative) give {str(want)[:120]}"
    return OK, "5 real words (batch, single word, two blocks in one row) against the reliability-weighted majority vote per partition: group parity of the hard decisions (1 iff negative), weight = minimum reliability of the group, bit 1 iff the vote is negative; indices beyond the word and surplus partitions are ignored"


def rule_rm(repo: Repo, rep: Report) -> int:
    ci = repo.cls(RM, "ReedMullerDecoder")
    fwd = repo.method(ci, "forward")
    rst_, rd_ = rm_forward_evaluated(repo)
    if rst_ is not None:
        rep.add("RM-SOFT", fwd, "forward (soft input) evaluated on real words with checker-chosen partitions", rst_, rd_, node=fwd.node)
        return 6
    db = fwd.nested("decode_block")
    if db is None:
        rep.undecided("RM-SOFT", fwd, "decode_block", "closure not found and forward not evaluable")
        return 0
    set_parents(db.node)
    soft = None
    for nd in ast.walk(db.node):
        if isinstance(nd, ast.If) and match(nd.test, "self.input_type == 'hard'") is not None and nd.orelse and any("min_reliab" in unparse(s) for s in nd.orelse):
            soft = nd.orelse
    if soft is None:
        rep.undecided("RM-SOFT", db, "soft branch", "not found")
        return 0
    mod = ast.Module(body=list(soft), type_ignores=[])
    a = {}
    for s in ast.walk(mod):
        if isinstance(s, ast.Assign) and isinstance(s.targets[0], ast.Name):
            a.setdefault(s.targets[0].id, []).append(s)
    n = 0

    def f(name, idx, acc, what, why="", num=None):
        nonlocal n
        lst = a.get(name, [])
        form(rep, "RM-SOFT", db, lst[idx].value if len(lst) > idx else None, acc, what, why, num=num)
        n += 1

    f("group_bits", 0, ["(r[valid_indices] < 0).to(torch.int)", "(r[valid_indices] < 0).int()"], "hard decisions of the group", "bit 1 iff the soft value is negative")
    f("group_reliabilities", 0, ["torch.abs(r[valid_indices])", "r[valid_indices].abs()"], "reliabilities of the group")
    f("checksum", 0, ["torch.sum(group_bits) % 2", "group_bits.sum() % 2"], "group parity")
    f("min_reliability", 0, ["torch.min(group_reliabilities)", "group_reliabilities.min()"], "weakest member bounds the reliability of the group's vote", "the reliability of a parity vote is the MINIMUM of its members' reliabilities")
    f("decision_var", 0, ["torch.sum((1 - 2 * checksums) * min_reliabilities)"], "soft majority: votes weighted by reliability, vote 0 positive", "vote c maps to (1 - 2c) and is weighted by the group's reliability", num=([{"checksums": [0, 1, 1], "min_reliabilities": [0.5, 0.2, 0.9]}, {"checksums": [0, 0, 1, 0], "min_reliabilities": [1.0, 0.3, 2.5, 0.1]}], lambda p: sum((1 - 2 * c) * m for c, m in zip(p["checksums"], p["min_reliabilities"]))))
    dec = [s for s in ast.walk(mod) if isinstance(s, ast.Assign) and isinstance(s.targets[0], ast.Subscript) and unparse(s.targets[0]) == "u_hat[j]"]
    form(rep, "RM-SOFT", db, dec[0].value if len(dec) == 1 else None, ["(decision_var < 0).to(torch.int)", "(decision_var < 0).int()"], "bit 1 iff the weighted vote is negative", "negative decision variable means bit 1")
    n += 1
    return n


def run(repo: Repo, rep: Report, tier: str) -> None:
    if tier == "thorough":
        ci_ = repo.cls(BP, "BeliefPropagationDecoder")
        vc_ = repo.method(ci_, "compute_vc")
        st_, d_ = compute_vc_evaluated(vc_)
        if st_ is not None:
            rep.add("BP-UPDATE", vc_, "compute_vc evaluated on a graph with variables of degree 1, 2 and 3 (thorough tier)", st_, d_, node=vc_.node)
        ms_ = repo.cls(MS, "MinSumLDPCDecoder")
        st_, d_ = minsum_correction_evaluated(ms_)
        if st_ is not None:
            rep.add("MINSUM", repo.method(ms_, "compute_cv_minsum"), "normalisation / offset correction composed and evaluated (thorough tier)", st_, d_)
    n = rule_groups(repo, rep)
    n += rule_bp(repo, rep)
    n += rule_minsum(repo, rep)
    n += rule_rank(repo, rep)
    n += rule_extrinsic(repo, rep)
    n += rule_scale(repo, rep)
    n += rule_wagner(repo, rep)
    n += rule_rm(repo, rep)
    rep.floor("C10 rule instances", n, 55)
    rep.decided_clauses += [
        "Tanner-graph bookkeeping: degree groups are runs of consecutive nodes, so per-group results concatenate in node order (what cv_order / the soft output assume); extrinsic sets are all other edges of the node, row-aligned",
        "sum-product schedule and updates: vc = posterior - cv, tanh/atanh product over the extrinsic axis, marginal = channel LLR + incoming messages, message bits at the weight-1 columns of G",
        "min-sum check update: prod(sign) * min(abs) reduced over the extrinsic axis, one value per edge; scaling/offset only as configured",
        "min-sum messages are positively homogeneous of degree 1 in the input inside the declared clipping range; no saturation on the Wagner decision path",
        "Wagner: sign decisions, even-parity test, flip of the least reliable position of the failing block only, first k positions returned",
        "soft Reed-Muller: per-group parity and minimum reliability, reliability-weighted vote",
    ]
    rep.undecided_clauses += [
        "exactness of BP marginals on cycle-free graphs and ML optimality of Wagner as value statements",
        "correctness of the Reed partitions and of single-pass Reed decoding for orders above 1",
        "the offset variant for magnitudes below the offset (sign flip instead of clipping at zero)",
        "numerical behaviour of the complex log-product near zero messages",
    ]
