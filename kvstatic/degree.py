"""Homogeneity-degree interpreter (part of engine C): how a value scales when designated
quantities are rescaled.  Abstract value: dict symbol -> Fraction exponent, or None = unknown.
Used for "the LLR scales inversely with the noise variance and quadratically with distance".
"""
from __future__ import annotations

import ast
from fractions import Fraction
from typing import Any, Dict, List, Optional

from .absint import Env, Interp
from .astutil import attr_chain, call_name, num_value, unparse
from .core import ClassInfo, FuncInfo, Repo

Deg = Optional[Dict[str, Fraction]]
ZERO: Dict[str, Fraction] = {}


class DV:
    __slots__ = ("d", "zero", "items")

    def __init__(self, d: Deg, zero: bool = False, items=None):
        self.d = None if d is None else {k: v for k, v in d.items() if v != 0}
        self.zero = zero  # an all-zero buffer / literal 0: neutral for + and join
        self.items = items

    def __eq__(self, o):
        return isinstance(o, DV) and self.d == o.d and self.zero == o.zero

    def __hash__(self):
        return hash((None if self.d is None else tuple(sorted(self.d.items())), self.zero))

    def show(self):
        if self.d is None:
            return "unknown"
        return "{" + ", ".join(f"{k}^{v}" for k, v in sorted(self.d.items())) + "}" if self.d else "dimensionless"


UNK = DV(None)
CONST = DV({})


def _add(a: DV, b: DV) -> DV:
    if a.zero:
        return b
    if b.zero:
        return a
    if a.d is None or b.d is None:
        return UNK
    return a if a.d == b.d else UNK


def _mul(a: DV, b: DV, sgn: int = 1) -> DV:
    if a.d is None or b.d is None:
        return UNK
    out = dict(a.d)
    for k, v in b.d.items():
        out[k] = out.get(k, Fraction(0)) + sgn * v
    return DV(out, zero=a.zero and sgn == 1)


KEEP = {
    "abs", "min", "max", "amin", "amax", "real", "conj", "reshape", "view", "expand", "expand_as", "unsqueeze", "squeeze", "float", "to", "clone", "detach", "sum", "mean", "flatten", "contiguous", "item",
    "tensor", "as_tensor", "double", "type", "cat", "stack", "clamp", "index_select", "gather", "t", "transpose", "permute", "imag", "median", "absolute", "neg", "cumsum", "repeat", "repeat_interleave", "tile",
}


class Degree(Interp):
    def __init__(self, fi: FuncInfo, repo: Repo, cls: Optional[ClassInfo] = None, config=None, attr_values: Optional[Dict[str, DV]] = None, depth: int = 0):
        super().__init__(fi)
        self.repo = repo
        self.cls = cls or fi.cls
        self.config = config
        self.attr_values = dict(attr_values or {})
        self.depth = depth
        self.notes: List[str] = []
        self.softmin: List[str] = []
        self.mixed: List[str] = []

    def top(self):
        return UNK

    def join(self, a, b):
        if a is None:
            return b
        if b is None:
            return a
        if not isinstance(a, DV) or not isinstance(b, DV):
            return UNK
        r = _add(a, b)
        if r.d is None and a.d is not None and b.d is not None:
            ctx = getattr(self, "join_ctx", None)
            self.mixed.append(f"alternative paths{' of `if ' + unparse(ctx)[:60] + '`' if ctx is not None else ''} give {a.show()} and {b.show()} for the same quantity")
        return r

    def unbound(self, name, node, env):
        return CONST

    def decide(self, test, env):
        return self.config(test, env) if self.config else None

    def eval_Constant(self, node, env):
        v = node.value
        if isinstance(v, (int, float)) and not isinstance(v, bool) and abs(v) <= 1e-6:
            return DV({}, zero=True)  # zero or a negligible regulariser: neutral for + and join
        return CONST

    def attribute(self, node, base, env):
        ch = attr_chain(node)
        if ch in self.attr_values:
            return self.attr_values[ch]
        if node.attr in ("real", "imag", "T", "data"):
            return base if isinstance(base, DV) else CONST
        if node.attr in ("shape", "device", "dtype"):
            return CONST
        if ch is not None and (ch.startswith("self.") or ch.startswith("torch.")):
            return CONST
        return base if isinstance(base, DV) else CONST

    def eval_Subscript(self, node, env):
        b = self.eval(node.value, env)
        self.eval(node.slice, env)
        if isinstance(b, DV) and b.items is not None:
            try:
                return b.items[ast.literal_eval(node.slice)]
            except Exception:
                pass
        return DV(b.d, b.zero) if isinstance(b, DV) else UNK

    def eval_BinOp(self, node, env):
        a, b = self.eval(node.left, env), self.eval(node.right, env)
        if not isinstance(a, DV) or not isinstance(b, DV):
            return UNK
        if isinstance(node.op, (ast.Add, ast.Sub)):
            r = _add(a, b)
            if r.d is None and a.d is not None and b.d is not None:
                self.mixed.append(f"`{unparse(node)[:80]}` combines {a.show()} with {b.show()}")
                self.notes.append(f"`{unparse(node)[:80]}` adds quantities of different degree ({a.show()} and {b.show()})")
            return r
        if isinstance(node.op, ast.Mult):
            return _mul(a, b, 1)
        if isinstance(node.op, (ast.Div, ast.FloorDiv)):
            return _mul(a, b, -1)
        if isinstance(node.op, ast.Pow):
            q = num_value(node.right)
            if q is not None and a.d is not None:
                return DV({k: v * Fraction(q).limit_denominator(1000) for k, v in a.d.items()})
            if a.d == {}:
                return CONST
            return UNK
        if isinstance(node.op, ast.Mod):
            return a
        return UNK if (a.d or b.d) else CONST

    def eval_UnaryOp(self, node, env):
        return self.eval(node.operand, env)

    def eval_Compare(self, node, env):
        self.eval(node.left, env)
        for c in node.comparators:
            self.eval(c, env)
        return CONST

    def eval_BoolOp(self, node, env):
        for v in node.values:
            self.eval(v, env)
        return CONST

    def collection(self, vals, node, env):
        if isinstance(node, ast.Tuple):
            out = vals[0] if vals else CONST
            for v in vals[1:]:
                out = _add(out, v)
            return DV(out.d, out.zero, items=tuple(vals))
        out = None
        for v in vals:
            out = v if out is None else _add(out, v)
        return out if out is not None else CONST

    def unpack(self, value, n, node):
        if isinstance(value, DV) and value.items is not None and len(value.items) == n:
            return list(value.items)
        return [value] * n

    def iter_element(self, iterable_val, node, env):
        return iterable_val if isinstance(iterable_val, DV) else CONST

    def eval_Lambda(self, node, env):
        return CONST

    def eval_JoinedStr(self, node, env):
        return CONST

    def eval_Call(self, node, env):
        name = call_name(node) or ""
        short = name.split(".")[-1]
        args = [self.eval(a.value if isinstance(a, ast.Starred) else a, env) for a in node.args]
        kw = {k.arg: self.eval(k.value, env) for k in node.keywords if k.arg}
        is_method = isinstance(node.func, ast.Attribute) and not name.startswith(("torch.", "F.", "math.", "np."))
        recv = self.eval(node.func.value, env) if is_method else None
        target = recv if is_method else (args[0] if args else None)
        if name.startswith("self.") and name.count(".") == 1 and self.cls is not None and self.depth < 4:
            callee = self.cls.find_method(short)
            if callee is not None:
                params = [p for p in callee.params if p not in ("self", "cls")]
                e2 = {p: a for p, a in zip(params, args)}
                e2.update(kw)
                for p in params:
                    e2.setdefault(p, CONST)
                sub = Degree(callee, self.repo, self.cls, self.config, self.attr_values, self.depth + 1)
                sub.run(e2)
                self.notes += sub.notes
                self.softmin += sub.softmin
                self.mixed += sub.mixed
                out = None
                for v, _r, _e in sub.returns:
                    if v is not None:
                        out = v if out is None else _add(out, v)
                return out if out is not None else CONST
        if short in ("zeros", "zeros_like"):
            return DV({}, zero=True)
        if short in ("sqrt",) and isinstance(target, DV):
            return DV(None if target.d is None else {k: v / 2 for k, v in target.d.items()})
        if short in ("min", "max", "median") and isinstance(target, DV):
            has_dim = "dim" in kw or len(args) > (0 if is_method else 1)
            r = DV(target.d, target.zero)
            return DV(r.d, r.zero, items=(r, CONST)) if has_dim else r
        if short in KEEP and isinstance(target, DV):
            return DV(target.d, target.zero)
        if short in ("full_like", "full", "ones", "ones_like", "arange", "isinstance", "len", "range", "product", "numel", "dim", "size", "nonzero", "is_complex", "any", "all", "angle", "argmin", "argmax", "sign", "where", "randn_like", "rand_like"):
            return CONST
        if short in ("logsumexp", "softmin", "softmax", "log_softmax") and isinstance(target, DV) and target.d not in (None, {}):
            # a soft minimum / soft weighting over several candidates of a dimensional quantity: between min and mean, it is not
            # a homogeneous function of the quantity's scale (it equals the hard minimum only for a single candidate)
            self.softmin.append(f"`{unparse(node)[:70]}` is a soft minimum over candidates of a quantity of degree {DV(target.d).show()}")
            return UNK
        if short in ("exp", "log", "sigmoid", "tanh", "log10") and isinstance(target, DV):
            if target.d == {}:
                return CONST
            self.notes.append(f"`{unparse(node)[:60]}` applies a non-homogeneous function to a dimensional quantity")
            return UNK
        vals = ([recv] if recv is not None else []) + args + list(kw.values())
        if all(isinstance(v, DV) and v.d == {} for v in vals):
            return CONST
        return UNK

    def store_subscript(self, target, value, env, stmt):
        key = self.lvalue_key(target.value)
        if key is None:
            return
        old = env.get(key)
        env[key] = value if not isinstance(old, DV) else _add(old, value)
