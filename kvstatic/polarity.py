"""Engine B - polarity / monotonicity analysis (DESIGN.md §1.2).

Abstract value ``PV``: for each *seed* (a quantity designated by the rule: "the LLR input",
"distance to the 0-labelled points", "the received amplitude") how the value moves when the
seed grows: C(onstant) < I(ncreasing, non-strict) / D(ecreasing) < T(unknown).  Plus a sign
(needed for products and quotients) and a small *kind* tag used to recognise the
constellation idioms (label masks, point subsets, difference vectors, nearest-point indices).
"""
from __future__ import annotations

import ast
from dataclasses import dataclass, field, replace
from typing import Any, Dict, List, Optional, Tuple

from .absint import Env, Interp
from .astutil import attr_chain, call_name, const_value, num_value, unparse
from .core import ClassInfo, FuncInfo, Repo

C, I, D, T, M = "C", "I", "D", "T", "M"  # M: definitely not monotone in the required sense (mixed / wrong reduction)


def pjoin(a: str, b: str) -> str:
    if a == b:
        return a
    if a == C:
        return b
    if b == C:
        return a
    if T in (a, b):
        return T
    return M  # join of an increasing and a decreasing alternative: one of them is wrong


def pflip(a: str) -> str:
    return {I: D, D: I}.get(a, a)


def padd(a: str, b: str) -> str:
    if a == b:
        return a
    if a == C:
        return b
    if b == C:
        return a
    if M in (a, b) and T not in (a, b):
        return M
    return T  # sum of an increasing and a decreasing value: unknown


SIGN_JOIN = {
    ("pos", "nonneg"): "nonneg",
    ("nonneg", "pos"): "nonneg",
    ("neg", "nonpos"): "nonpos",
    ("nonpos", "neg"): "nonpos",
    ("zero", "pos"): "nonneg",
    ("pos", "zero"): "nonneg",
    ("zero", "nonneg"): "nonneg",
    ("nonneg", "zero"): "nonneg",
    ("zero", "neg"): "nonpos",
    ("neg", "zero"): "nonpos",
    ("zero", "nonpos"): "nonpos",
    ("nonpos", "zero"): "nonpos",
}


def sjoin(a: Optional[str], b: Optional[str]) -> Optional[str]:
    if a == b:
        return a
    if a is None or b is None:
        return None
    return SIGN_JOIN.get((a, b))


def sneg(s: Optional[str]) -> Optional[str]:
    return {"pos": "neg", "neg": "pos", "nonneg": "nonpos", "nonpos": "nonneg", "zero": "zero"}.get(s)  # type: ignore[arg-type]


def smul(a: Optional[str], b: Optional[str]) -> Optional[str]:
    if a is None or b is None:
        return None
    if a == "zero" or b == "zero":
        return "zero"
    na = a in ("neg", "nonpos")
    nb = b in ("neg", "nonpos")
    strict = a in ("pos", "neg") and b in ("pos", "neg")
    if na == nb:
        return "pos" if strict else "nonneg"
    return "neg" if strict else "nonpos"


def is_nonneg(s: Optional[str]) -> bool:
    return s in ("pos", "nonneg", "zero")


def is_nonpos(s: Optional[str]) -> bool:
    return s in ("neg", "nonpos", "zero")


@dataclass(frozen=True)
class PV:
    pol: Tuple[Tuple[str, str], ...] = ()  # sorted (seed, polarity), C omitted
    sign: Optional[str] = None
    kind: Optional[tuple] = None
    items: Optional[tuple] = None  # tuple-valued results
    lit: Any = None  # python literal (numbers, lists) when known

    def p(self, seed: str) -> str:
        for k, v in self.pol:
            if k == seed:
                return v
        return C

    @property
    def is_const(self) -> bool:
        return not self.pol

    @property
    def seeds(self) -> List[str]:
        return [k for k, _ in self.pol]

    def with_pol(self, d: Dict[str, str]) -> "PV":
        return replace(self, pol=tuple(sorted((k, v) for k, v in d.items() if v != C)))

    def poldict(self) -> Dict[str, str]:
        return dict(self.pol)

    def show(self) -> str:
        s = ",".join(f"{v} in {k}" for k, v in self.pol) or "const"
        if self.kind:
            s += f" kind={self.kind}"
        if self.sign:
            s += f" sign={self.sign}"
        return s


TOP_ALL = "*"  # pseudo seed meaning "unknown in every seed"


def mk(pol: Optional[Dict[str, str]] = None, sign=None, kind=None, items=None, lit=None) -> PV:
    return PV(tuple(sorted((k, v) for k, v in (pol or {}).items() if v != C)), sign, kind, items, lit)


CONST = mk()
TOPV = mk({TOP_ALL: T})


def is_top(v: PV) -> bool:
    return v.p(TOP_ALL) == T


def combine(a: PV, b: PV, f) -> Dict[str, str]:
    out = {}
    for k in set(a.seeds) | set(b.seeds):
        out[k] = f(a.p(k), b.p(k))
    if is_top(a) or is_top(b):
        out[TOP_ALL] = T
    return out


def flipped(a: PV) -> Dict[str, str]:
    return {k: pflip(v) for k, v in a.pol}


# tensor methods / torch functions that neither change values nor their order
IDENTITY_METHODS = {
    "float", "double", "half", "to", "type", "long", "int", "bool", "clone", "detach", "contiguous", "cpu", "cuda", "reshape", "view", "expand", "expand_as", "unsqueeze",
    "squeeze", "flatten", "permute", "transpose", "t", "repeat", "tolist", "numpy", "type_as", "view_as", "reshape_as", "real", "requires_grad_", "unbind",
}
MONOTONE_FUNCS = {"sigmoid", "tanh", "exp", "log", "log2", "log10", "sqrt", "round", "sign", "relu", "floor", "ceil", "arctanh", "atanh", "erf", "log1p", "expm1", "sgn", "softplus", "log_sigmoid", "logsigmoid"}
NONNEG_FUNCS = {"sigmoid", "exp", "sqrt", "relu", "abs", "softplus"}
FRESH_CONST_CALLS = {"torch.zeros", "torch.ones", "torch.zeros_like", "torch.ones_like", "torch.empty", "torch.full", "torch.full_like", "torch.arange", "torch.eye", "torch.linspace", "range", "len", "torch.empty_like"}


class Polarity(Interp):
    """Polarity interpreter.  ``positives``: attribute chains / parameter names assumed > 0."""

    POSITIVE_DEFAULT = {
        "noise_var",
        "self.noise_var",
        "self.confidence_scaling",
        "self._normalization",
        "self.scaling_factor",
        "self.normalization_factor",
        "self.scale_factor",
        "self.clip",
        "self.clipping",
    }

    def __init__(self, fi: FuncInfo, repo: Repo, cls: Optional[ClassInfo] = None, config=None, positives=(), depth: int = 0, attr_values: Optional[Dict[str, PV]] = None):
        super().__init__(fi)
        self.repo = repo
        self.cls = cls or fi.cls
        self.config = config  # callable(test_expr_text, test_node) -> Optional[bool]
        self.positives = set(self.POSITIVE_DEFAULT) | set(positives)
        self.depth = depth
        self.attr_values = dict(attr_values or {})
        self.stores: List[Tuple[ast.stmt, str, PV]] = []
        self.unknown_ops: List[str] = []
        self.idioms: List[str] = []
        self.definite: List[str] = []
        self.arg_sites: List[tuple] = []
        self.callable_dec: set = set()
        self.iter_models: Dict[str, PV] = {}

    # lattice -------------------------------------------------------------
    def top(self):
        return TOPV

    def join(self, a: PV, b: PV) -> PV:
        if a is None:
            return b
        if b is None:
            return a
        if not isinstance(a, PV) or not isinstance(b, PV):
            return TOPV
        # an empty container literal is the neutral element of the join
        if a.is_const and isinstance(a.lit, (list, tuple)) and len(a.lit) == 0:
            return b
        if b.is_const and isinstance(b.lit, (list, tuple)) and len(b.lit) == 0:
            return a
        # arms of a branch on a *mode* parameter (hard / soft output, training, ...) are not alternatives of one
        # configuration: if the analysis configuration did not decide the branch, opposite polarities mean "unknown"
        ctx = getattr(self, "join_ctx", None)
        modey = ctx is not None and any(k in unparse(ctx) for k in ("noise_var is", "soft_output", "hard", "soft", "self.training", "mode", "output_type", "input_type"))
        pol = combine(a, b, (lambda x, y: T if pjoin(x, y) == M and M not in (x, y) else pjoin(x, y)) if modey else pjoin)
        kind = a.kind if a.kind == b.kind else (a.kind if b.kind is None and b.is_const and b.lit is None else (b.kind if a.kind is None and a.is_const and a.lit is None else None))
        items = None
        if a.items is not None and b.items is not None and len(a.items) == len(b.items):
            items = tuple(self.join(x, y) for x, y in zip(a.items, b.items))
        return mk(pol, sjoin(a.sign, b.sign), kind, items, a.lit if a.lit == b.lit else None)

    def val_equal(self, a, b):
        return a == b

    def unbound(self, name, node, env):
        if name in self.positives:
            return mk(sign="pos")
        if name in ("True", "False", "None"):
            return CONST
        return mk(kind=("global", name))

    def decide(self, test, env):
        if self.config is not None:
            r = self.config(unparse(test), test, env, self)
            if r is not None:
                return r
        # isinstance(x, torch.Tensor) style refinements are irrelevant for polarity
        return None

    # helpers -----------------------------------------------------------
    def note_unknown(self, node: ast.AST, what: str = ""):
        self.unknown_ops.append(f"{what or type(node).__name__}: {unparse(node)[:80]}")

    def const_sign(self, v) -> Optional[str]:
        if isinstance(v, bool):
            return None
        if isinstance(v, (int, float)):
            return "pos" if v > 0 else ("neg" if v < 0 else "zero")
        return None

    # expressions ---------------------------------------------------------
    def eval_Constant(self, node, env):
        v = node.value
        if isinstance(v, (int, float)) and not isinstance(v, bool):
            return mk(sign=self.const_sign(v), lit=v)
        return mk(lit=v if isinstance(v, (str, bool, type(None))) else None)

    def collection(self, vals, node, env):
        lit = None
        try:
            lit = const_value(node)
        except ValueError:
            pass
        if not vals:
            return mk(lit=lit)
        out = vals[0]
        for v in vals[1:]:
            out = self.join(out, v)
        return replace(out, lit=lit, items=tuple(vals) if isinstance(node, ast.Tuple) else None)

    def unpack(self, value: PV, n, node):
        if isinstance(value, PV) and value.items is not None and len(value.items) == n:
            return list(value.items)
        if isinstance(value, PV):
            return [replace(value, items=None)] * n
        return [TOPV] * n

    def eval_Name(self, node, env):
        if node.id in env:
            return env[node.id]
        return self.unbound(node.id, node, env)

    def attribute(self, node: ast.Attribute, base: PV, env):
        ch = attr_chain(node)
        if ch is not None:
            if ch in self.attr_values:
                return self.attr_values[ch]
            if ch in self.positives:
                return mk(sign="pos", kind=("attr", ch))
            if ch.startswith("self.") or ch.startswith("torch."):
                if ch in ("torch.pi", "math.pi"):
                    return mk(sign="pos")
                return mk(kind=("attr", ch))
        if node.attr in ("real", "imag", "T", "data", "mT"):
            return base
        if node.attr in ("shape", "device", "dtype", "ndim"):
            return CONST
        if isinstance(base, PV) and base.is_const:
            return mk(kind=("attr", ch or node.attr))
        return base if isinstance(base, PV) else TOPV

    def eval_UnaryOp(self, node, env):
        v = self.eval(node.operand, env)
        if isinstance(node.op, ast.USub):
            return mk(flipped(v), sneg(v.sign), self._neg_kind(v.kind), lit=(-v.lit if isinstance(v.lit, (int, float)) else None))
        if isinstance(node.op, ast.UAdd):
            return v
        if isinstance(node.op, ast.Invert):
            if v.kind and v.kind[0] == "mask":
                return replace(v, kind=("mask", "1" if v.kind[1] == "0" else "0"))
            return mk(flipped(v))  # logical not of a 0/1 indicator
        if isinstance(node.op, ast.Not):
            return mk(flipped(v))
        return TOPV

    def _neg_kind(self, kind):
        if kind and kind[0] == "elem":
            return kind
        return None

    def eval_BinOp(self, node, env):
        a = self.eval(node.left, env)
        b = self.eval(node.right, env)
        if isinstance(node.op, ast.Div) and isinstance(node.right, ast.BinOp) and isinstance(node.right.op, ast.Add) and isinstance(a, PV) and is_nonneg(a.sign):
            # r / (c + r), r >= 0, c > 0 constant: increasing in r (the odds-to-probability map)
            num = unparse(node.left)
            for same, other in ((node.right.left, node.right.right), (node.right.right, node.right.left)):
                if unparse(same) == num:
                    c = self.eval(other, env)
                    if isinstance(c, PV) and c.is_const and c.sign == "pos":
                        self.idioms.append(f"{unparse(node)[:60]}: r / (c + r) with r >= 0, c > 0 is increasing in r")
                        return mk(dict(a.pol), "nonneg")
        return self.binop(node.op, a, b, node)

    def binop(self, op, a: PV, b: PV, node) -> PV:
        if not isinstance(a, PV) or not isinstance(b, PV):
            return TOPV
        if isinstance(op, ast.Add):
            sign = a.sign if a.sign == b.sign else (a.sign if b.sign == "zero" else (b.sign if a.sign == "zero" else sjoin(a.sign, b.sign) if (is_nonneg(a.sign) and is_nonneg(b.sign)) or (is_nonpos(a.sign) and is_nonpos(b.sign)) else None))
            if a.sign == "pos" and is_nonneg(b.sign) or b.sign == "pos" and is_nonneg(a.sign):
                sign = "pos"
            kind = a.kind if (b.is_const and b.kind is None) else (b.kind if (a.is_const and a.kind is None) else None)
            if kind and kind[0] in ("diff", "points", "mask", "table", "diffx"):
                keep = kind[0] == "points" or (kind[0] == "diff" and "pi" in unparse(node))
                kind = kind if keep else None
            lit = a.lit + b.lit if isinstance(a.lit, (int, float)) and isinstance(b.lit, (int, float)) else None
            return mk(combine(a, b, padd), sign, kind, lit=lit)
        if isinstance(op, ast.Sub):
            # difference vectors: received - points
            k = self._diff_kind(a, b)
            nb = mk(flipped(b), sneg(b.sign))
            pol = combine(a, nb, padd)
            sign = None
            if is_nonneg(a.sign) and is_nonpos(b.sign):
                sign = "nonneg"
            lit = a.lit - b.lit if isinstance(a.lit, (int, float)) and isinstance(b.lit, (int, float)) else None
            if lit is not None:
                sign = self.const_sign(lit)
            if k is None and a.kind and a.kind[0] == "diff" and b.is_const and b.kind is None and "pi" in unparse(node):
                k = a.kind  # (d + pi) % 2pi - pi : wrapped difference
            return mk(pol, sign, k, lit=lit)
        if isinstance(op, ast.Mult):
            return self.mult(a, b, node)
        if isinstance(op, (ast.Div, ast.FloorDiv)):
            if isinstance(b.lit, (int, float)) and isinstance(a.lit, (int, float)) and b.lit != 0:
                v = a.lit / b.lit
                return mk(sign=self.const_sign(v), lit=v)
            inv = self.reciprocal(b, node)
            return self.mult(a, inv, node)
        if isinstance(op, ast.Pow):
            return self.power(a, b, node)
        if isinstance(op, ast.Mod):
            if a.kind and a.kind[0] == "diff" and b.is_const and "pi" in unparse(node):
                return mk(kind=a.kind)
            if a.is_const and b.is_const:
                return mk()
            self.note_unknown(node, "mod of a seed-dependent value")
            return TOPV
        if isinstance(op, (ast.BitAnd, ast.BitOr)):
            # 0/1 indicators: and/or are monotone in both operands
            if a.kind and a.kind[0] == "mask" or b.kind and b.kind[0] == "mask":
                return mk(combine(a, b, padd))
            return mk(combine(a, b, padd))
        if isinstance(op, (ast.LShift, ast.RShift, ast.BitXor, ast.MatMult)):
            if a.is_const and b.is_const:
                return mk()
            self.note_unknown(node)
            return TOPV
        return TOPV

    def _diff_kind(self, a: PV, b: PV):
        ka, kb = a.kind, b.kind
        if kb and kb[0] == "constellation":
            kb = ("points", "A")
        if ka and ka[0] == "constellation":
            ka = ("points", "A")
        if kb and kb[0] == "points" and (ka is None or ka[0] in ("received",)):
            return ("diff", kb[1])
        if ka and ka[0] == "points" and (kb is None or kb[0] in ("received",)):
            return ("diff", ka[1])
        if kb and kb[0] == "table" and not a.is_const:
            return ("diffx", kb[1], tuple(a.seeds))
        if ka and ka[0] == "table" and not b.is_const:
            return ("diffx", ka[1], tuple(b.seeds))
        return None

    def reciprocal(self, b: PV, node) -> PV:
        if b.sign in ("pos", "neg"):
            return mk(flipped(b), b.sign)
        if b.is_const:
            return mk(sign=None)
        self.note_unknown(node, "division by a seed-dependent value of unknown sign")
        return TOPV

    def mult(self, a: PV, b: PV, node) -> PV:
        if isinstance(a.lit, (int, float)) and isinstance(b.lit, (int, float)):
            v = a.lit * b.lit
            return mk(sign=self.const_sign(v), lit=v)
        # squared magnitude of a difference vector: diff * conj(diff)
        if a.kind and b.kind and a.kind[0] == "diff" and b.kind[0] == "diff" and a.kind[1] == b.kind[1]:
            return mk({"E" + a.kind[1]: I}, "nonneg", ("elem", a.kind[1]))
        sign = smul(a.sign, b.sign)
        if a.is_const and b.is_const:
            return mk(sign=sign)
        for c, v in ((a, b), (b, a)):
            if c.is_const:
                if c.sign in ("pos", "nonneg"):
                    return mk(v.poldict(), sign, v.kind if v.kind and v.kind[0] == "elem" else None)
                if c.sign in ("neg", "nonpos"):
                    return mk(flipped(v), sign, v.kind if v.kind and v.kind[0] == "elem" else None)
                if c.sign == "zero":
                    return mk(sign="zero")
                self.note_unknown(node, f"product with a factor of unknown sign `{unparse(node)[:60]}`")
                return TOPV
        # both depend on seeds
        if is_nonneg(a.sign) and is_nonneg(b.sign):
            return mk(combine(a, b, padd), sign)
        if is_nonpos(a.sign) and is_nonpos(b.sign):
            return mk(combine(mk(flipped(a)), mk(flipped(b)), padd), sign)
        self.note_unknown(node, "product of two seed-dependent values")
        return TOPV

    def power(self, a: PV, b: PV, node) -> PV:
        e = b.lit
        if isinstance(a.lit, (int, float)) and isinstance(e, (int, float)):
            try:
                v = a.lit**e
                return mk(sign=self.const_sign(v), lit=v)
            except Exception:
                return mk()
        if a.kind and a.kind[0] == "diff" and isinstance(e, (int, float)) and e == int(e) and int(e) % 2 == 0 and e > 0:
            return mk({"E" + a.kind[1]: I}, "nonneg", ("elem", a.kind[1]))
        if a.kind and a.kind[0] == "diffx" and isinstance(e, (int, float)) and e == int(e) and int(e) % 2 == 0 and e > 0:
            return mk({}, "nonneg", ("distx", a.kind[1], a.kind[2]))
        if a.kind and a.kind[0] == "distx" and isinstance(e, (int, float)) and e > 0:
            return replace(a)
        if a.is_const:
            if b.is_const:
                sign = "nonneg" if isinstance(e, (int, float)) and e == int(e) and int(e) % 2 == 0 else ("pos" if a.sign == "pos" else None)
                return mk(sign=sign)
            # c ** v : increasing in v when c > 1 (10 ** (x/10))
            if isinstance(a.lit, (int, float)) and a.lit > 1:
                return mk(b.poldict(), "pos")
            self.note_unknown(node)
            return TOPV
        if isinstance(e, (int, float)) and e > 0:
            if is_nonneg(a.sign):
                return mk(a.poldict(), a.sign, a.kind if a.kind and a.kind[0] == "elem" else None)
            if is_nonpos(a.sign) and e == int(e):
                if int(e) % 2 == 0:
                    return mk(flipped(a), "nonneg", a.kind if a.kind and a.kind[0] == "elem" else None)
                return mk(a.poldict(), a.sign)
            if e == int(e) and int(e) % 2 == 1:
                return mk(a.poldict(), a.sign)
        self.note_unknown(node, "power of a value of unknown sign")
        return TOPV

    def eval_Compare(self, node, env):
        if len(node.ops) != 1:
            vals = [self.eval(node.left, env)] + [self.eval(c, env) for c in node.comparators]
            if all(v.is_const for v in vals):
                return mk()
            self.note_unknown(node)
            return TOPV
        a = self.eval(node.left, env)
        b = self.eval(node.comparators[0], env)
        op = node.ops[0]
        if not isinstance(a, PV) or not isinstance(b, PV):
            return TOPV
        # label masks: bit_patterns[:, k] == 0 / == 1
        if isinstance(op, ast.Eq):
            for x, y in ((a, b), (b, a)):
                if x.kind and x.kind[0] == "labels" and y.lit in (0, 1, 0.0, 1.0) and not isinstance(y.lit, bool):
                    return mk(kind=("mask", str(int(y.lit))))
        if isinstance(op, ast.NotEq):
            for x, y in ((a, b), (b, a)):
                if x.kind and x.kind[0] == "labels" and y.lit in (0, 1, 0.0, 1.0) and not isinstance(y.lit, bool):
                    return mk(kind=("mask", "1" if int(y.lit) == 0 else "0"))
        if isinstance(op, (ast.Gt, ast.GtE)):
            return mk(combine(a, mk(flipped(b)), padd), "nonneg")
        if isinstance(op, (ast.Lt, ast.LtE)):
            return mk(combine(mk(flipped(a)), b, padd), "nonneg")
        if a.is_const and b.is_const:
            return mk(sign="nonneg")
        if isinstance(op, (ast.Is, ast.IsNot, ast.In, ast.NotIn)):
            return mk()
        if isinstance(op, ast.Eq):
            # idiom: count == len(collection) where count is a sum of 0/1 votes of that collection:
            # count <= len, hence equality is the monotone test count >= len
            for x, xn, yn in ((a, node.left, node.comparators[0]), (b, node.comparators[0], node.left)):
                if isinstance(yn, ast.Name):
                    # a local that names the length: `n = len(collection)` (its only definition)
                    defs_ = [s_.value for s_ in ast.walk(self.fi.node) if isinstance(s_, ast.Assign) and any(isinstance(t_, ast.Name) and t_.id == yn.id for t_ in s_.targets)]
                    if len(defs_) == 1 and yn.id not in self.fi.params:
                        yn = defs_[0]
                if call_name(yn) == "len" and is_nonneg(x.sign) and not x.is_const:
                    self.idioms.append(f"`{unparse(node)[:60]}`: vote count == len(...) read as >=")
                    return mk(x.poldict(), "nonneg")
        self.note_unknown(node, "equality test on a seed-dependent value")
        return mk({k: T for k in set(a.seeds) | set(b.seeds)}, "nonneg")

    def eval_BoolOp(self, node, env):
        vals = [self.eval(v, env) for v in node.values]
        out = vals[0]
        for v in vals[1:]:
            out = mk(combine(out, v, padd))
        return out

    def eval_Subscript(self, node, env):
        base = self.eval(node.value, env)
        idx = self.eval(node.slice, env)
        if not isinstance(base, PV):
            return TOPV
        # constellation[mask] -> point subset
        if isinstance(idx, PV) and idx.kind and idx.kind[0] == "mask" and base.kind and base.kind[0] in ("constellation",):
            return mk(kind=("points", idx.kind[1]))
        if base.kind and base.kind[0] == "labels":
            if isinstance(idx, PV) and idx.kind and idx.kind[0] in ("nearest_pt", "farthest_pt"):
                return mk(kind=("hard_bits", idx.kind[0], idx.kind[1]))
            if isinstance(idx, PV) and idx.items:
                for it_ in idx.items:
                    if isinstance(it_, PV) and it_.kind and it_.kind[0] in ("nearest_pt", "farthest_pt"):
                        return mk(kind=("hard_bits", it_.kind[0], it_.kind[1]))
            return base
        # table[nearest index] -> nearest value: non-decreasing in the quantised seed
        if isinstance(idx, PV) and idx.kind and idx.kind[0] == "nearest" and base.kind and base.kind[0] == "table" and base.kind[1] == idx.kind[1]:
            return mk({s: I for s in idx.kind[2]})
        if base.items is not None:
            try:
                i = const_value(node.slice)
                if isinstance(i, int):
                    return base.items[i]
            except (ValueError, IndexError):
                pass
        if isinstance(idx, PV) and not idx.is_const and base.is_const and base.kind is None and base.lit is not None:
            # literal_table[index]: polarity follows the order of the literal table
            lit = base.lit
            if isinstance(lit, (list, tuple)) and all(isinstance(x, (int, float)) for x in lit) and len(lit) >= 2:
                asc = all(x <= y for x, y in zip(lit, lit[1:]))
                desc = all(x >= y for x, y in zip(lit, lit[1:]))
                if asc:
                    return mk(idx.poldict())
                if desc:
                    return mk(flipped(idx))
            return TOPV
        if isinstance(idx, PV) and not idx.is_const and not (idx.kind and idx.kind[0] in ("mask",)):
            if base.is_const:
                self.note_unknown(node, "indexing a table by a seed-dependent index")
                return mk({k: T for k in idx.seeds})
        return replace(base, items=None, lit=None)

    def eval_Slice(self, node, env):
        return CONST

    def eval_JoinedStr(self, node, env):
        return CONST

    def eval_Lambda(self, node, env):
        return CONST

    def eval_Dict(self, node, env):
        return CONST

    # calls -------------------------------------------------------------
    def eval_Call(self, node: ast.Call, env):
        name = call_name(node) or ""
        args = [self.eval(a, env) for a in node.args]
        kwargs = {k.arg: self.eval(k.value, env) for k in node.keywords if k.arg}
        short = name.split(".")[-1]
        is_method = isinstance(node.func, ast.Attribute) and not name.startswith(("torch.", "F.", "math.", "np."))
        recv: Optional[PV] = self.eval(node.func.value, env) if is_method else None

        # repository method calls: analyse the callee with the actual abstract arguments
        if name.startswith("self.") and name.count(".") == 1 and self.cls is not None:
            callee = self.cls.find_method(short)
            if callee is not None and self.depth < 4:
                return self.call_repo(callee, args, kwargs, node, bound=True)
        if name and "." not in name and self.fi.module is not None:
            tgt = self.repo.resolve_name(self.fi.module, name)
            if isinstance(tgt, FuncInfo) and self.depth < 4:
                return self.call_repo(tgt, args, kwargs, node, bound=False)

        if name in FRESH_CONST_CALLS or (name.startswith("torch.") and short in ("zeros", "ones", "empty", "full", "arange", "eye", "tensor") and all(a.is_const for a in args)):
            lit = args[0].lit if (short == "tensor" and args) else None
            sign = {"zeros": "zero", "zeros_like": "zero", "ones": "pos", "ones_like": "pos"}.get(short)
            if short == "tensor" and args:
                return replace(args[0], items=None)
            return mk(sign=sign, lit=lit)
        if name in ("torch.tensor", "torch.as_tensor", "float", "int", "torch.Tensor", "bool"):
            return replace(args[0], items=None) if args else mk()
        if name in ("isinstance", "hasattr", "callable", "len", "range", "enumerate", "zip", "list", "tuple", "print", "str", "format", "getattr", "type", "id", "itertools.product", "itertools.combinations"):
            if name in ("list", "tuple") and args:
                return args[0]
            return mk()
        target = recv if is_method else (args[0] if args else None)
        rest = args if is_method else args[1:]

        # a callable known to decide bits from LLRs (verified separately): DEC in its first argument
        fval = env.get(node.func.id) if isinstance(node.func, ast.Name) else None
        if (isinstance(fval, PV) and fval.kind == ("callable_dec",)) or (name in self.callable_dec):
            return mk(flipped(args[0]) if args else {}, "nonneg")
        if short == "item" and is_method and recv is not None:
            # idiom (i): a whole-tensor statistic brought to a Python scalar is constant for the
            # per-element polarity of a comparison against it (adaptive / dynamic thresholds)
            self.idioms.append(f"scalar statistic `{unparse(node)[:70]}` treated as constant")
            return mk(sign=recv.sign, lit=recv.lit)
        if name in ("min", "max") and all(isinstance(a, PV) and a.is_const for a in args):
            return mk()
        if short in IDENTITY_METHODS and target is not None:
            return replace(target, items=None)
        if short in ("nonzero",) and target is not None:
            return target
        if short == "abs" or name in ("abs", "torch.abs", "torch.absolute"):
            v = target if target is not None else (args[0] if args else TOPV)
            if v.kind and v.kind[0] == "diff":
                return mk({"E" + v.kind[1]: I}, "nonneg", ("elem", v.kind[1]))
            if v.kind and v.kind[0] == "diffx":
                return mk({}, "nonneg", ("distx", v.kind[1], v.kind[2]))
            if is_nonneg(v.sign):
                return replace(v, items=None)
            if is_nonpos(v.sign):
                return mk(flipped(v), "nonneg")
            if v.is_const:
                return mk(sign="nonneg")
            self.note_unknown(node, "abs of a seed-dependent value of unknown sign")
            return mk({k: T for k in v.seeds}, "nonneg")
        if short in ("conj",) and target is not None:
            return replace(target, items=None)
        if short in MONOTONE_FUNCS and target is not None:
            sign = "nonneg" if short in NONNEG_FUNCS else (target.sign if short in ("tanh", "sign", "round", "arctanh", "atanh", "sgn", "floor", "ceil", "erf", "expm1") else None)
            if short in ("sigmoid", "exp"):
                sign = "pos"
            return mk(target.poldict(), sign)
        if short in ("clamp", "clip", "clamp_min", "clamp_max") and target is not None:
            others = list(rest) + list(kwargs.values())
            if all(o.is_const for o in others):
                return mk(target.poldict(), target.sign)
            return TOPV
        if short in ("min", "max", "amin", "amax"):
            return self.reduce_minmax(short.replace("a", "") if short.startswith("a") else short, target, rest, kwargs, node)
        if short in ("argmin", "argmax") and target is not None:
            self.arg_sites.append((node, short, target))
            if target.kind and target.kind[0] == "elem":
                lab = target.kind[1]
                pe = target.p("E" + lab)
                if (short == "argmin" and pe == I) or (short == "argmax" and pe == D):
                    return mk({}, None, ("nearest_pt", lab))
                self.definite.append(f"`{unparse(node)[:70]}` selects the FARTHEST point ({short} of a value that is {pe} in the distance)")
                return mk({}, None, ("farthest_pt", lab))
            if target.kind and target.kind[0] == "distx" and short == "argmin":
                return mk({}, None, ("nearest", target.kind[1], target.kind[2]))
            if target.is_const:
                return mk()
            self.note_unknown(node, f"{short} of a seed-dependent value")
            return mk({k: T for k in target.seeds})
        if short in ("sum", "mean", "cumsum", "nansum", "nanmean") and target is not None:
            return mk(target.poldict(), target.sign if is_nonneg(target.sign) or is_nonpos(target.sign) else None)
        if short in ("median", "std", "var", "prod", "norm"):
            if target is not None and target.is_const:
                return mk()
            if short == "median" and target is not None:
                return mk(target.poldict(), items=(mk(target.poldict()), CONST) if (rest or kwargs) else None)
            self.note_unknown(node)
            return TOPV
        if short in ("where",):
            allv = args if not is_method else [recv] + args
            if all(v.is_const for v in allv):
                return mk()
            if len(allv) == 3:
                cond, x, y = allv
                if cond.is_const:
                    return self.join(x, y)
                # where(mask, 1, old) / where(mask, 0, old): the out-of-place form of the masked stores t[mask] = 1 / t[mask] = 0
                raw = list(node.args) if not is_method else [node.func.value] + list(node.args)

                def const_01(e, pv):
                    if isinstance(pv, PV) and pv.lit in (1, 1.0, True, 0, 0.0, False) and pv.lit is not None:
                        return 1 if pv.lit in (1, 1.0, True) else 0
                    if isinstance(e, ast.Call) and (call_name(e) or "").split(".")[-1] in ("ones_like", "ones"):
                        return 1
                    if isinstance(e, ast.Call) and (call_name(e) or "").split(".")[-1] in ("zeros_like", "zeros"):
                        return 0
                    return None

                if len(raw) == 3:
                    cx, cy = const_01(raw[1], x), const_01(raw[2], y)
                    if cx is not None and cy is None:
                        self.idioms.append(f"{unparse(node)[:60]}: where(mask, {cx}, old) read as the masked store old[mask] = {cx}")
                        return self.join(y, mk(cond.poldict()) if cx == 1 else mk(flipped(cond)))
                    if cy is not None and cx is None:
                        self.idioms.append(f"{unparse(node)[:60]}: where(mask, new, {cy}) read as the masked store of {cy} on the complement")
                        return self.join(x, mk(flipped(cond)) if cy == 1 else mk(cond.poldict()))
                    if cx is not None and cy is not None and cx != cy:
                        return mk(cond.poldict()) if cx == 1 else mk(flipped(cond))
            self.note_unknown(node)
            return TOPV
        if short in ("cat", "stack", "concat", "concatenate", "hstack", "vstack"):
            return replace(args[0], items=None) if args else mk()
        if short in ("complex", "polar"):
            out = args[0] if args else mk()
            for a in args[1:]:
                out = self.join(out, a)
            return mk(out.poldict())
        if short in ("angle", "atan2"):
            tv = target if target is not None else None
            if tv is not None and tv.kind and tv.kind[0] in ("received", "points", "constellation"):
                return mk(kind=tv.kind)  # phase of the received value / of the points: circular-distance idiom
            if tv is not None and tv.kind is None and not tv.is_const:
                return mk(kind=("received",))
            if all(a.is_const for a in ([recv] if recv else []) + args):
                return mk()
            self.note_unknown(node)
            return TOPV
        if short in ("is_complex", "is_tensor", "numel", "dim", "size", "is_floating_point", "get", "keys", "items", "values", "any", "all", "append", "extend", "format", "device", "fill_", "zero_"):
            return mk()
        if short in ("log_softmax", "softmax"):
            self.note_unknown(node)
            return TOPV
        if short == "pow":
            if target is not None and rest:
                return self.power(target, rest[0], node)
        if short in ("mul", "multiply") and target is not None and rest:
            return self.mult(target, rest[0], node)
        if short in ("add",) and target is not None and rest:
            return self.binop(ast.Add(), target, rest[0], node)
        if short in ("sub", "subtract") and target is not None and rest:
            return self.binop(ast.Sub(), target, rest[0], node)
        if short in ("div", "divide", "true_divide") and target is not None and rest:
            return self.binop(ast.Div(), target, rest[0], node)
        if short in ("neg", "negative") and target is not None:
            return mk(flipped(target), sneg(target.sign))
        if short in ("logical_not",) and target is not None:
            return mk(flipped(target))
        if short in ("lt", "le", "gt", "ge") and target is not None and rest:
            b = rest[0]
            if short in ("gt", "ge"):
                return mk(combine(target, mk(flipped(b)), padd), "nonneg")
            return mk(combine(mk(flipped(target)), b, padd), "nonneg")
        if short in ("bernoulli", "rand", "randn", "rand_like", "randn_like"):
            return mk()
        allv = ([recv] if recv is not None else []) + args + list(kwargs.values())
        if all(isinstance(v, PV) and v.is_const for v in allv):
            return mk()
        self.note_unknown(node, f"call `{name or unparse(node.func)}`")
        return TOPV

    def reduce_minmax(self, which: str, target: Optional[PV], rest: List[PV], kwargs: Dict[str, PV], node) -> PV:
        if target is None:
            return TOPV
        # elementwise min/max of two tensors
        if rest and not rest[0].is_const or (rest and rest[0].kind is None and rest[0].lit is None and "dim" not in kwargs and len(rest) == 1 and not isinstance(rest[0].lit, int) and rest[0].is_const and False):
            out = mk(combine(target, rest[0], padd))
            return out
        has_dim = bool(rest) or "dim" in kwargs
        pol = {}
        for k, v in target.pol:
            if k.startswith("E"):
                lab = k[1:]
                # per-point function of per-point distance -> function of the set (nearest) distance
                if (which == "max" and v == D) or (which == "min" and v == I):
                    pol["D" + lab] = v
                elif v in (I, D):
                    pol["D" + lab] = M
                    self.definite.append(f"`{unparse(node)[:70]}`: `{which}` over the points axis of a value that is {v} in the per-point distance selects the FARTHEST point of the subset, not the nearest")
                else:
                    pol["D" + lab] = v
            else:
                pol[k] = v
        res = mk(pol, target.sign)
        if has_dim and (node.func.attr if isinstance(node.func, ast.Attribute) else "") in ("min", "max"):
            return replace(res, items=(res, CONST))
        return res

    def call_repo(self, callee: FuncInfo, args: List[PV], kwargs: Dict[str, PV], node: ast.Call, bound: bool) -> PV:
        params = [p for p in callee.params]
        if bound and params and params[0] in ("self", "cls"):
            params = params[1:]
        env: Env = {}
        for p, a in zip(params, args):
            env[p] = a
        for k, v in kwargs.items():
            env[k] = v
        # defaults for unbound params: constants
        for p in params:
            env.setdefault(p, CONST)
        sub = Polarity(callee, self.repo, cls=self.cls if bound else callee.cls, config=self.config, positives=self.positives, depth=self.depth + 1, attr_values=self.attr_values)
        sub.callable_dec = self.callable_dec
        sub.iter_models = self.iter_models
        sub.run(env)
        self.idioms += sub.idioms
        self.definite += sub.definite
        self.arg_sites += sub.arg_sites
        self.unknown_ops += [f"[in {callee.qualname}] {u}" for u in sub.unknown_ops]
        out: Optional[PV] = None
        for v, _r, _e in sub.returns:
            if v is None:
                continue
            out = v if out is None else self.join(out, v)
        return out if out is not None else mk()

    def expr_stmt(self, node, env):
        v = node.value
        # container.append(x) / extend(x): weak update of the container
        if isinstance(v, ast.Call) and isinstance(v.func, ast.Attribute) and v.func.attr in ("append", "extend", "add", "insert") and v.args:
            key = self.lvalue_key(v.func.value)
            val = self.eval(v.args[-1], env)
            if key is not None and isinstance(val, PV):
                old = env.get(key)
                env[key] = val if (not isinstance(old, PV) or old.lit in ([], ())) else self.join(replace(old, lit=None), val)
            return
        self.eval(v, env)

    def iter_element(self, iterable_val, node, env):
        ch = attr_chain(node)
        if ch is not None and ch in self.iter_models:
            return self.iter_models[ch]
        if isinstance(iterable_val, PV):
            return replace(iterable_val, items=None, lit=None)
        return TOPV

    # stores -----------------------------------------------------------
    def store_subscript(self, target: ast.Subscript, value: PV, env: Env, stmt) -> None:
        key = self.lvalue_key(target.value)
        if key is None:
            return
        idx = self.eval(target.slice, env)
        v = value
        if isinstance(idx, PV) and not idx.is_const and isinstance(value, PV):
            # masked store of a literal: t[mask] = 1 contributes +pol(mask), t[mask] = 0 contributes -pol(mask)
            if value.lit in (1, 1.0, True):
                v = mk(idx.poldict())
            elif value.lit in (0, 0.0, False):
                v = mk(flipped(idx))
            else:
                v = mk({k: T for k in idx.seeds})
        old = env.get(key)
        if old is None:
            old = self.eval(target.value, env)
        env[key] = self.join(old, v) if isinstance(old, PV) else v
        self.stores.append((stmt, key, v))
