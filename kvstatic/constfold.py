"""Constant folding of literal table expressions (kit F: literal extraction).

Evaluates *literal* expressions found in the source (lists of numbers, torch.tensor([...]),
scalar arithmetic, cos/sin of literal angle lists, torch.complex of two literal lists,
conditional expressions resolved by a given configuration) with the checker's own arithmetic.
Anything that is not a literal computation raises ``Unfoldable``.  No repository code runs.
"""
from __future__ import annotations

import ast
import cmath
import math
from typing import Any, Callable, Dict, List, Optional

from .astutil import attr_chain, call_name, stmts_of, unparse
from .core import FuncInfo


class Unfoldable(Exception):
    pass


def mutates_outer_state(fd) -> bool:
    """True if a function body stores into (or calls an in-place method on) one of its parameters or a name it does not
    bind itself: the evaluator copies values on a call, so such aliasing effects would be lost - callers must not inline."""
    if isinstance(fd, ast.Lambda):
        return False
    params = {a.arg for a in fd.args.args + fd.args.kwonlyargs}
    local = set()
    for st in ast.walk(fd):
        if isinstance(st, (ast.Assign, ast.AugAssign, ast.AnnAssign, ast.For)):
            tg = st.targets if isinstance(st, ast.Assign) else [st.target]
            for t in tg:
                for x in ast.walk(t):
                    if isinstance(x, ast.Name) and isinstance(x.ctx, ast.Store):
                        local.add(x.id)
    for st in ast.walk(fd):
        tg = []
        if isinstance(st, ast.Assign):
            tg = st.targets
        elif isinstance(st, ast.AugAssign):
            tg = [st.target]
        for t in tg:
            base = t
            while isinstance(base, (ast.Subscript, ast.Attribute)):
                base = base.value
            if base is not t and isinstance(base, ast.Name) and (base.id in params or base.id not in local) and base.id != "self":
                return True
        if isinstance(st, ast.Expr) and isinstance(st.value, ast.Call) and isinstance(st.value.func, ast.Attribute):
            m = st.value.func.attr
            base = st.value.func.value
            while isinstance(base, (ast.Subscript, ast.Attribute)):
                base = base.value
            if isinstance(base, ast.Name) and base.id != "self" and (base.id in params or base.id not in local) and (m.endswith("_") or m in ("append", "extend", "insert", "pop", "remove", "add", "update", "clear", "sort", "reverse")):
                return True
    return False


def outer_mutations(fd):
    """(names of enclosing-scope variables a function body stores into / mutates in place, names of its own parameters it
    mutates in place - "*" marks what is not modelled: a mutated parameter that is also re-bound, nonlocal / global).  A closure that only touches enclosing variables can be evaluated with the enclosing environment
    shared; one that mutates its arguments cannot (argument aliasing is not modelled)."""
    if isinstance(fd, ast.Lambda):
        return set(), False
    params = {a.arg for a in fd.args.args + fd.args.kwonlyargs}
    local = set()
    for st in ast.walk(fd):
        if isinstance(st, (ast.Assign, ast.AugAssign, ast.AnnAssign, ast.For)):
            tg = st.targets if isinstance(st, ast.Assign) else [st.target]
            for t in tg:
                for x in (t.elts if isinstance(t, (ast.Tuple, ast.List)) else [t]):
                    if isinstance(x, ast.Name) and isinstance(x.ctx, ast.Store):
                        local.add(x.id)
    outer, par = set(), set()
    for st in ast.walk(fd):
        tg = []
        if isinstance(st, ast.Assign):
            tg = st.targets
        elif isinstance(st, ast.AugAssign):
            tg = [st.target]
        for t in tg:
            base = t
            while isinstance(base, (ast.Subscript, ast.Attribute)):
                base = base.value
            if base is not t and isinstance(base, ast.Name) and base.id != "self":
                if base.id in params:
                    par.add(base.id if base.id not in local else "*")
                elif base.id not in local:
                    outer.add(base.id)
        if isinstance(st, ast.Expr) and isinstance(st.value, ast.Call) and isinstance(st.value.func, ast.Attribute):
            m = st.value.func.attr
            base = st.value.func.value
            while isinstance(base, (ast.Subscript, ast.Attribute)):
                base = base.value
            if isinstance(base, ast.Name) and base.id != "self" and (m.endswith("_") or m in ("append", "extend", "insert", "pop", "remove", "add", "update", "clear", "sort", "reverse")):
                if base.id in params:
                    par.add(base.id if base.id not in local else "*")
                elif base.id not in local:
                    outer.add(base.id)
        if isinstance(st, (ast.Nonlocal, ast.Global)):
            par.add("*")  # rebinding of enclosing names: not modelled
    return outer, par


class ModelClass:
    """The class of a model object handed around as a value (`make = x.__class__; make(x.field, 0)`)."""

    _kv_eval_obj = True

    def __init__(self, cls):
        self.cls = cls

    def __call__(self, *args):
        return self.cls(*args)

    def __eq__(self, o):
        return isinstance(o, ModelClass) and o.cls is self.cls

    def __hash__(self):
        return hash(self.cls)


REAL_DTYPES = {"float16", "float32", "float64", "float", "double", "bfloat16", "half"}
INT_DTYPES = {"int8", "int16", "int32", "int64", "uint8", "long", "int", "short"}
COMPLEX_DTYPES = {"complex64", "complex128", "cfloat", "cdouble"}


def apply_dtype(v, dtype_name: str):
    """The value after conversion to the torch dtype named `torch.<x>`: a real type drops the imaginary part (as torch does,
    with a warning), an integer type truncates toward zero, bool gives a mask, a complex type widens."""
    short = dtype_name.split(".")[-1]
    if isinstance(v, PySeq) or isinstance(v, (str, dict, set)) or v is None:
        raise Unfoldable("dtype conversion of a non-tensor")
    if short in REAL_DTYPES:
        def f(x):
            if isinstance(x, complex):
                return x.real
            return float(x)

        return _ew(f, v)
    if short in INT_DTYPES:
        def g(x):
            if isinstance(x, bool):
                return int(x)
            if isinstance(x, int):
                return x
            if isinstance(x, float) and x == x and abs(x) != float("inf"):
                return int(x)
            raise Unfoldable("integer conversion of a non-finite or complex value")

        return _ew(g, v)
    if short in COMPLEX_DTYPES:
        return _ew(lambda x: complex(x), v)
    if short == "bool":
        return _mask(_ew(lambda x: int(bool(x)), v)) if isinstance(v, list) else bool(v)
    raise Unfoldable(f"conversion to {dtype_name}")


class BuiltinRef:
    """A builtin handed around as a value (`label_of = int`)."""

    def __init__(self, name: str):
        self.name = name


class BoolList(list):
    """A boolean tensor (result of a comparison / all / any / ~): used as an index it is a mask, not a list of positions."""


def _vreal(z):
    """complex tensor -> real tensor with a trailing axis (re, im)"""
    return [_vreal(e) for e in z] if isinstance(z, list) else [complex(z).real, complex(z).imag]


def _mask(z):
    """z as a boolean tensor at every level (rows of a mask are masks too)"""
    return BoolList([_mask(e) for e in z]) if isinstance(z, list) else z


class PySeq(list):
    """A python sequence (tuple / list display, range, shape) as opposed to a tensor value: true iff non-empty."""

    def __add__(self, other):
        return PySeq(list(self) + list(other))

    def __getitem__(self, i):
        r = list.__getitem__(self, i)
        return PySeq(r) if isinstance(i, slice) else r


class PyTuple(PySeq):
    """A python TUPLE (tuple display, shape, element of product / combinations / zip): used as a subscript it is one index
    per axis, whereas a python list used as a subscript selects along the first axis."""

    def __add__(self, other):
        return PyTuple(list(self) + list(other)) if isinstance(other, PyTuple) else PySeq(list(self) + list(other))

    def __getitem__(self, i):
        r = list.__getitem__(self, i)
        return PyTuple(r) if isinstance(i, slice) else r


def truth(t) -> bool:
    """Truth value of an evaluated condition; Unfoldable where python / torch would not give one."""
    if isinstance(t, PySeq):
        return len(t) > 0
    if isinstance(t, list):
        if len(t) == 1 and not isinstance(t[0], list):
            return bool(t[0])  # one-element tensor
        raise Unfoldable("tensor-valued condition")
    return bool(t)


def _depth(z) -> int:
    d = 0
    while isinstance(z, list):
        d += 1
        z = z[0] if z else None
    return d


def _shape(z) -> List[int]:
    dims = []
    while isinstance(z, list):
        dims.append(len(z))
        z = z[0] if z else None
    return dims


def _reduce_axes(v, axes, keepdim: bool, op: str):
    """sum / mean of a nested list over the given axes (empty = all axes, as torch does for dim=())"""
    shp = _shape(v)
    rank = len(shp)
    if rank == 0 or any(isinstance(a, bool) or not isinstance(a, int) or not (-rank <= a < rank) for a in axes) or len({a % rank for a in axes}) != len(list(axes)):
        raise Unfoldable("reduction axes out of range or repeated")
    axes = sorted({a % rank for a in axes}) if axes else list(range(rank))

    def get(idx):
        t = v
        for i in idx:
            t = t[i]
        return t

    import itertools

    out_axes = [a for a in range(rank) if a not in axes]
    count = 1
    for a in axes:
        count *= shp[a]
    if count == 0:
        raise Unfoldable("reduction over an empty axis")

    def build(prefix, level):
        if level == rank:
            fixed = dict(zip(out_axes, prefix))
            tot = 0
            for combo in itertools.product(*[range(shp[a]) for a in axes]):
                idx = [None] * rank
                for a, i in fixed.items():
                    idx[a] = i
                for a, i in zip(axes, combo):
                    idx[a] = i
                tot = tot + get(idx)
            return tot / count if op == "mean" else tot
        if level in axes:
            inner = build(prefix, level + 1)
            return [inner] if keepdim else inner
        return [build(prefix + [i], level + 1) for i in range(shp[level])]

    return build([], 0)


def _flat(z) -> list:
    return [y for t in z for y in _flat(t)] if isinstance(z, list) else [z]


def _build(flat: list, shape: List[int]):
    if not shape:
        return flat[0]
    if len(shape) == 1:
        return list(flat[: shape[0]])
    step = 1
    for d in shape[1:]:
        step *= d
    return [_build(flat[i * step : (i + 1) * step], shape[1:]) for i in range(shape[0])]


def _fibers(v, d: int, fn, keepdim: bool = False):
    """apply fn to every 1-D fibre of the nested list v along axis d (any rank); the axis is removed (or kept with length 1)"""
    shp = _shape(v)
    rank = len(shp)
    if rank == 0 or isinstance(d, bool) or not isinstance(d, int) or not (-rank <= d < rank):
        raise Unfoldable("reduction axis out of range")
    d %= rank
    if shp[d] == 0:
        raise Unfoldable("reduction over an empty axis")

    def fibre(t, idx):
        # idx: indices for all axes except d
        cur = t
        out = []
        for k in range(shp[d]):
            cur = t
            j = 0
            for ax in range(rank):
                cur = cur[k] if ax == d else cur[idx[j]]
                if ax != d:
                    j += 1
            out.append(cur)
        return out

    other = [shp[a] for a in range(rank) if a != d]

    def build(prefix, level):
        if level == len(other):
            r = fn(fibre(v, prefix))
            return r
        return [build(prefix + [i], level + 1) for i in range(other[level])]

    try:
        res = build([], 0)
    except (IndexError, TypeError) as exc:
        raise Unfoldable(f"ragged value: {exc}")
    if keepdim:
        # re-insert the reduced axis with length 1
        def ins(t, level):
            if level == d:
                return [t]
            return [ins(x, level + 1) for x in t]

        res = ins(res, 0)
    return res


def _at(v, idx):
    for i in idx:
        v = v[i]
    return v


def _build_from(shape: List[int], fn, prefix=()):
    """nested list of the given shape with entry fn(index tuple)"""
    if not shape:
        return fn(tuple(prefix))
    return [_build_from(shape[1:], fn, tuple(prefix) + (i,)) for i in range(shape[0])]


def _regular(v) -> List[int]:
    """shape of a nested list, refusing ragged values"""
    shp = _shape(v)

    def ok(t, level):
        if level == len(shp):
            return not isinstance(t, list)
        return isinstance(t, list) and len(t) == shp[level] and all(ok(x, level + 1) for x in t)

    if not ok(v, 0):
        raise Unfoldable("ragged value")
    return shp


def _permute(v, perm: List[int]):
    shp = _regular(v)
    rank = len(shp)
    if len(perm) != rank or any(isinstance(a, bool) or not isinstance(a, int) or not (-rank <= a < rank) for a in perm):
        raise Unfoldable("permute arguments")
    perm = [a % rank for a in perm]
    if sorted(perm) != list(range(rank)):
        raise Unfoldable("permute arguments")
    if 0 in shp:
        raise Unfoldable("permute of an empty tensor")

    def entry(idx):
        old = [0] * rank
        for j, a in enumerate(perm):
            old[a] = idx[j]
        return _at(v, old)

    return _build_from([shp[a] for a in perm], entry)


def _map_fibres(v, d: int, fn):
    """replace every 1-D fibre along axis d by fn(fibre) (same or different length)"""
    shp = _regular(v)
    rank = len(shp)
    if rank == 0 or isinstance(d, bool) or not isinstance(d, int) or not (-rank <= d < rank):
        raise Unfoldable("axis out of range")
    d %= rank
    perm = [a for a in range(rank) if a != d] + [d]
    moved = _permute(v, perm) if rank > 1 else v

    def rows(t, level):
        if level == rank - 1:
            return list(fn(list(t)))
        return [rows(x, level + 1) for x in t]

    res = rows(moved, 0)
    if rank == 1:
        return res
    inv = [perm.index(a) for a in range(rank)]
    return _permute(res, inv)


def _reshape(v, dims: List[int]):
    flat = _flat(v)
    dims = list(dims)
    if dims.count(-1) > 1 or not all(isinstance(d, int) and not isinstance(d, bool) for d in dims):
        raise Unfoldable("reshape arguments")
    known = 1
    for d in dims:
        if d != -1:
            known *= d
    if -1 in dims:
        if known == 0 or len(flat) % known:
            raise Unfoldable("reshape does not divide")
        dims[dims.index(-1)] = len(flat) // known
    elif known != len(flat):
        raise Unfoldable("reshape changes the number of elements")
    return _build(flat, dims)


def _cat(parts: list, dim: int):
    if dim == 0:
        return [x for p_ in parts for x in p_]
    n = {len(p_) for p_ in parts}
    if len(n) != 1:
        raise Unfoldable("cat: leading sizes differ")
    return [_cat([p_[i] for p_ in parts], dim - 1) for i in range(n.pop())]


def _stack(parts: list, dim: int):
    shp = _shape(parts[0])
    if any(_shape(p_) != shp for p_ in parts):
        raise Unfoldable("stack: shapes differ")
    rank = len(shp)
    dim = dim % (rank + 1)

    def un(z, level):
        # insert a length-1 axis at position `dim`
        if level == dim:
            return [z]
        return [un(t, level + 1) for t in z]

    return _cat([un(p_, 0) for p_ in parts], dim)


def _ew(f, a, b=None):
    """elementwise application with scalar broadcasting"""
    if b is None:
        if isinstance(a, list):
            return [_ew(f, x) for x in a]
        return f(a)
    if isinstance(a, list) and isinstance(b, list):
        if (not a and _depth(b) <= 1 and len(b) != 0) or (not b and _depth(a) <= 1 and len(a) != 0):
            # zero selected rows, written [], combined with one row: (0, n) op (n,) is (0, n) - still no rows
            return []
        da, db = _depth(a), _depth(b)
        while da < db:  # broadcasting aligns trailing axes: (n,) against (m, n) is (1, n)
            a, da = [a], da + 1
        while db < da:
            b, db = [b], db + 1
        if len(a) != len(b) and len(a) == 1:
            return [_ew(f, a[0], y) for y in b]
        if len(a) != len(b) and len(b) == 1:
            return [_ew(f, x, b[0]) for x in a]
        if len(a) != len(b):
            raise Unfoldable("length mismatch")
        return [_ew(f, x, y) for x, y in zip(a, b)]
    if isinstance(a, list):
        return [_ew(f, x, b) for x in a]
    if isinstance(b, list):
        return [_ew(f, a, y) for y in b]
    return f(a, b)


class Folder:
    def _flush_shared(self):
        """inside a closure that mutates enclosing variables: hand their current values to the defining environment before
        another local function is called (it reads them there)"""
        home = self.names.get("__kv_home__")
        if isinstance(home, dict):
            for n_ in self.names.get("__kv_shared__", ()):
                if n_ in self.names:
                    home[n_] = self.names[n_]

    def _refresh_shared(self):
        """... and take them back afterwards"""
        home = self.names.get("__kv_home__")
        if isinstance(home, dict):
            for n_ in self.names.get("__kv_shared__", ()):
                if n_ in home:
                    self.names[n_] = home[n_]

    def __init__(self, names: Optional[Dict[str, Any]] = None, attrs: Optional[Dict[str, Any]] = None, decide: Optional[Callable[[ast.expr], Optional[bool]]] = None):
        self.names = dict(names or {})
        self.attrs = dict(attrs or {})
        self.decide = decide
        #: repository functions that may be evaluated when called by bare name: name -> ast.FunctionDef (set by the caller)
        self.funcs: Dict[str, ast.FunctionDef] = {}
        #: torch.zeros / torch.ones with integer sizes give a nested list of that shape instead of a broadcasting scalar
        self.materialise = False
        #: class names of the analysed program that the caller models by own Python classes: name -> constructor
        self.ctors: Dict[str, Any] = {}

    def _bind_target(self, t: ast.AST, v) -> None:
        if isinstance(t, ast.Name):
            self.names[t.id] = v
        elif isinstance(t, (ast.Tuple, ast.List)) and isinstance(v, list) and len(v) == len(t.elts):
            for e, x in zip(t.elts, v):
                self._bind_target(e, x)
        else:
            raise Unfoldable("comprehension target")

    def _peek(self, node: ast.AST):
        try:
            return self.fold(node)
        except Unfoldable:
            return None

    #: operations that rearrange / select elements: a boolean tensor stays boolean
    _MASK_KEEP = frozenset({"reshape", "view", "flatten", "clone", "contiguous", "detach", "cpu", "cuda", "squeeze", "unsqueeze", "permute", "transpose", "swapaxes", "t", "expand", "repeat", "repeat_interleave", "tile", "flip", "unbind", "roll", "T", "mT", "bool", "logical_not"})
    #: conversions to a numeric type: the result is numbers, not a mask
    _MASK_DROP = frozenset({"float", "long", "int", "double", "half", "to", "type", "sum", "cumsum"})

    def fold(self, node: ast.AST):
        """_fold plus dtype bookkeeping for boolean tensors: used as an index a boolean tensor is a mask and a numeric tensor a
        list of positions, so rearrangements of a mask must stay masks and numeric conversions of a mask must not."""
        recv = None
        if isinstance(node, ast.Call) and isinstance(node.func, ast.Attribute) and (node.func.attr in self._MASK_KEEP or node.func.attr in self._MASK_DROP) and not (isinstance(node.func.value, ast.Name) and node.func.value.id in ("torch", "np", "numpy", "math", "self")):
            recv, kind = node.func.value, "method"
        elif isinstance(node, ast.Attribute) and node.attr in ("T", "mT"):
            recv, kind = node.value, "attr"
        elif isinstance(node, ast.Subscript):
            recv, kind = node.value, "sub"
        elif isinstance(node, ast.Call) and isinstance(node.func, ast.Attribute) and isinstance(node.func.value, ast.Name) and node.func.value.id == "torch" and node.func.attr in ("reshape", "flatten", "squeeze", "unsqueeze", "permute", "transpose", "flip", "clone", "roll", "logical_not", "logical_and", "logical_or", "logical_xor", "stack", "cat", "eq", "ne", "gt", "lt", "ge", "le", "isclose") and node.args:
            kind = "torchfn"
            r = self._fold(node)
            if node.func.attr in ("logical_and", "logical_or", "logical_xor", "logical_not", "eq", "ne", "gt", "lt", "ge", "le", "isclose"):
                return _mask(r) if isinstance(r, list) and not isinstance(r, PySeq) else r
            a0 = self._peek(node.args[0])
            is_mask = isinstance(a0, BoolList) or (isinstance(a0, list) and a0 and all(isinstance(x_, BoolList) for x_ in a0))
            return _mask(r) if is_mask and isinstance(r, list) and not isinstance(r, PySeq) else r
        if recv is None:
            return self._fold(node)
        try:
            rv = self.fold(recv)
        except Unfoldable:
            return self._fold(node)  # receivers outside the value domain (modules, objects handled by hooks)
        if not isinstance(rv, (list, int, float, complex, bool)) or isinstance(rv, (PySeq, str)):
            return self._fold(node)
        if isinstance(recv, ast.Name) and recv.id in self.names:
            node2 = node
        else:
            # evaluate the receiver once: bind it to a temporary and evaluate the operation on that
            self._tmp_depth = getattr(self, "_tmp_depth", 0) + 1
            tmp = f"__recv{self._tmp_depth}"
            self.names[tmp] = rv
            nm_ = ast.Name(id=tmp, ctx=ast.Load())
            if kind == "method":
                node2 = ast.Call(func=ast.Attribute(value=nm_, attr=node.func.attr, ctx=ast.Load()), args=node.args, keywords=node.keywords)
            elif kind == "attr":
                node2 = ast.Attribute(value=nm_, attr=node.attr, ctx=ast.Load())
            else:
                node2 = ast.Subscript(value=nm_, slice=node.slice, ctx=ast.Load())
            ast.copy_location(node2, node)
        try:
            r = self._fold(node2)
        finally:
            if node2 is not node:
                self.names.pop(tmp, None)
                self._tmp_depth -= 1
        if isinstance(rv, BoolList) and isinstance(r, list) and not isinstance(r, PySeq):
            drop = kind == "method" and node.func.attr in self._MASK_DROP and not (node.func.attr in ("to", "type") and not any(unparse(a_).split(".")[-1] in ("long", "int", "int8", "int16", "int32", "int64", "uint8", "float", "float16", "float32", "float64", "double", "half", "bfloat16", "complex64") for a_ in list(node.args) + [k.value for k in node.keywords]))
            if drop:

                def _num(z):
                    return [_num(e) for e in z] if isinstance(z, list) else (int(z) if isinstance(z, bool) else z)

                return _num(r)
            return _mask(r)
        return r

    def _fold(self, node: ast.AST):
        if isinstance(node, ast.Call) and isinstance(node.func, ast.Attribute) and self.ctors:
            ch_ = attr_chain(node.func)
            if ch_ is not None and ch_ in self.ctors:
                # a call the caller models itself (a random draw, a method of a collaborating object), whatever its receiver;
                # *args / **kwargs of the call site are spread as python does
                pos_, kws_ = [], {}
                for a in node.args:
                    if isinstance(a, ast.Starred):
                        v_ = self.fold(a.value)
                        if not isinstance(v_, (list, tuple)):
                            raise Unfoldable("starred argument that is not a sequence")
                        pos_ += list(v_)
                    else:
                        pos_.append(self.fold(a))
                for k in node.keywords:
                    if k.arg is None:
                        d_ = self.fold(k.value)
                        if not isinstance(d_, dict):
                            raise Unfoldable("** argument that is not a dictionary")
                        kws_.update(d_)
                    else:
                        kws_[k.arg] = self.fold(k.value)
                try:
                    return self.ctors[ch_](*pos_, **kws_)
                except (TypeError, ValueError) as exc:
                    raise Unfoldable(str(exc))
        if isinstance(node, ast.Constant):
            if isinstance(node.value, (int, float, complex, bool, str)) or node.value is None:
                return node.value
            raise Unfoldable(f"constant {node.value!r}")
        if isinstance(node, (ast.List, ast.Tuple)):
            out = PyTuple() if isinstance(node, ast.Tuple) else PySeq()
            for e in node.elts:
                if isinstance(e, ast.Starred):
                    t = self.fold(e.value)
                    if not isinstance(t, list):
                        raise Unfoldable("starred element")
                    out.extend(t)
                else:
                    out.append(self.fold(e))
            return out
        if isinstance(node, ast.Dict) and all(k is not None for k in node.keys):
            out_d = {}
            for k_, v_ in zip(node.keys, node.values):
                kk = self.fold(k_)
                if isinstance(kk, list):
                    raise Unfoldable("unhashable dictionary key")
                out_d[kk] = self.fold(v_)
            return out_d
        if isinstance(node, (ast.ListComp, ast.GeneratorExp, ast.SetComp, ast.DictComp)) and not any(g.is_async for g in node.generators):
            items_: list = []
            saved = dict(self.names)

            def _gen(k):
                if k == len(node.generators):
                    items_.append((self.fold(node.key), self.fold(node.value)) if isinstance(node, ast.DictComp) else self.fold(node.elt))
                    return
                g_ = node.generators[k]
                seq_ = self.fold(g_.iter)
                if isinstance(seq_, (set, frozenset)):
                    seq_ = sorted(seq_) if all(isinstance(x_, (int, float, str)) for x_ in seq_) else list(seq_)
                if isinstance(seq_, dict):
                    seq_ = list(seq_)
                if not isinstance(seq_, (list, str)):
                    raise Unfoldable("comprehension over a non-sequence")
                for item_ in seq_:
                    self._bind_target(g_.target, item_)
                    if all(truth(self.fold(c_)) for c_ in g_.ifs):
                        _gen(k + 1)
                        if len(items_) > 200000:
                            raise Unfoldable("comprehension too long")

            try:
                _gen(0)
            finally:
                self.names = saved
            if isinstance(node, ast.DictComp):
                if any(isinstance(k_, list) for k_, _ in items_):
                    raise Unfoldable("dictionary key")
                return dict(items_)
            if isinstance(node, ast.SetComp):
                if any(isinstance(x_, list) for x_ in items_):
                    raise Unfoldable("set element")
                return set(items_)
            return PySeq(items_)
        if isinstance(node, ast.JoinedStr):
            out = ""
            for part in node.values:
                if isinstance(part, ast.Constant) and isinstance(part.value, str):
                    out += part.value
                elif isinstance(part, ast.FormattedValue) and part.conversion == -1:
                    v = self.fold(part.value)
                    spec = self.fold(part.format_spec) if part.format_spec is not None else ""
                    if isinstance(v, list) or not isinstance(spec, str):
                        raise Unfoldable("formatted value")
                    try:
                        out += format(v, spec)
                    except (ValueError, TypeError) as exc:
                        raise Unfoldable(str(exc))
                else:
                    raise Unfoldable("f-string part")
            return out
        if isinstance(node, ast.Name):
            if node.id in self.names:
                v = self.names[node.id]
                if isinstance(v, (ast.FunctionDef, ast.Lambda)):
                    return v  # a local function handed around as a value
                return self.fold(v) if isinstance(v, ast.AST) else v
            if node.id in self.funcs:
                return self.funcs[node.id]  # a module-level function used as a value
            if node.id in ("int", "float", "abs", "len", "bool", "str"):
                return BuiltinRef(node.id)
            raise Unfoldable(f"name {node.id}")
        if isinstance(node, ast.Attribute):
            ch = attr_chain(node)
            if ch in ("torch.pi", "math.pi", "np.pi", "numpy.pi"):
                return math.pi
            if ch in self.attrs:
                v = self.attrs[ch]
                return self.fold(v) if isinstance(v, ast.AST) else v
            if ch is not None and ch.startswith("torch.") and ch.split(".")[-1] in ("int8", "int16", "int32", "int64", "uint8", "long", "int", "float16", "float32", "float64", "float", "double", "bool", "complex64", "complex128", "bfloat16"):
                return ch
            if node.attr == "dtype":
                v = self.fold(node.value)
                flat = []

                def _fl(z):
                    if isinstance(z, list):
                        for y in z:
                            _fl(y)
                    else:
                        flat.append(z)

                _fl(v)
                if any(isinstance(x, complex) for x in flat):
                    return "torch.complex64"
                if any(isinstance(x, float) for x in flat):
                    return "torch.float32"
                if flat and all(isinstance(x, bool) for x in flat):
                    return "torch.bool"
                return "torch.int64"
            try:
                base_obj = self.fold(node.value) if isinstance(node.value, (ast.Name, ast.Attribute, ast.Call, ast.Subscript, ast.BinOp, ast.IfExp)) else None
            except Unfoldable:
                base_obj = None
            if base_obj is not None and getattr(type(base_obj), "_kv_eval_obj", False) and node.attr == "__class__" and not isinstance(base_obj, ModelClass):
                return ModelClass(type(base_obj))
            if base_obj is not None and getattr(type(base_obj), "_kv_eval_obj", False) and not node.attr.startswith("__") and hasattr(base_obj, node.attr) and (not callable(getattr(base_obj, node.attr)) or getattr(type(getattr(base_obj, node.attr)), "_kv_eval_obj", False)):
                return getattr(base_obj, node.attr)
            if node.attr == "shape":
                v = self.fold(node.value)
                dims = []
                while isinstance(v, list):
                    dims.append(len(v))
                    v = v[0] if v else None
                return PyTuple(dims)
            if node.attr in ("T", "mT"):
                v = self.fold(node.value)
                if isinstance(v, list) and _depth(v) > 2:
                    raise Unfoldable("transpose of a tensor of rank above 2")
                if isinstance(v, list) and v and isinstance(v[0], list):
                    return [[row[j] for row in v] for j in range(len(v[0]))]
                raise Unfoldable("transpose of a non-matrix")
            if node.attr in ("device", "is_cuda", "requires_grad"):
                v = self.fold(node.value)
                if isinstance(v, (list, int, float, complex)) and not isinstance(v, (PySeq, bool)):
                    return "cpu" if node.attr == "device" else False
                raise Unfoldable(f"{node.attr} of a non-tensor")
            if node.attr == "ndim":
                v = self.fold(node.value)
                d = 0
                while isinstance(v, list):
                    d += 1
                    v = v[0] if v else None
                return d
            if node.attr in ("values", "indices"):
                v = self.fold(node.value)
                if isinstance(v, list) and len(v) == 2:
                    return v[0] if node.attr == "values" else v[1]
                raise Unfoldable(f"attribute {node.attr}")
            if node.attr in ("real", "imag"):
                v = self.fold(node.value)
                return _ew(lambda x: (x.real if node.attr == "real" else x.imag) if isinstance(x, complex) else (x if node.attr == "real" else 0.0), v)
            raise Unfoldable(f"attribute {ch}")
        if isinstance(node, ast.UnaryOp):
            v = self.fold(node.operand)
            if isinstance(node.op, ast.USub):
                return _ew(lambda x: -x, v)
            if isinstance(node.op, ast.UAdd):
                return v
            if isinstance(node.op, ast.Not):
                return not truth(v)
            if isinstance(node.op, ast.Invert):
                if isinstance(v, (BoolList, bool)):
                    r_ = _ew(lambda x: (not x) if isinstance(x, bool) else 1 - x, v)  # logical not of a boolean tensor
                    return _mask(r_) if isinstance(v, BoolList) else r_
                try:
                    return _ew(lambda x: ~x, v)  # bitwise complement of integers
                except TypeError as exc:
                    raise Unfoldable(str(exc))
            raise Unfoldable("unary")
        if isinstance(node, ast.BinOp):
            a, b = self.fold(node.left), self.fold(node.right)
            ops = {
                ast.Add: lambda x, y: x + y, ast.Sub: lambda x, y: x - y, ast.Mult: lambda x, y: x * y, ast.Div: lambda x, y: x / y, ast.Pow: lambda x, y: x**y,
                ast.FloorDiv: lambda x, y: x // y, ast.Mod: lambda x, y: x % y, ast.BitXor: lambda x, y: x ^ y, ast.BitAnd: lambda x, y: x & y, ast.BitOr: lambda x, y: x | y, ast.RShift: lambda x, y: x >> y, ast.LShift: lambda x, y: x << y,
            }
            if isinstance(node.op, ast.Mult) and ((isinstance(a, PySeq) and isinstance(b, int) and not isinstance(b, bool)) or (isinstance(b, PySeq) and isinstance(a, int) and not isinstance(a, bool))):
                seq_, cnt_ = (a, b) if isinstance(a, PySeq) else (b, a)
                if cnt_ > 4096:
                    raise Unfoldable("sequence repetition too long")
                return type(seq_)(list(seq_) * max(cnt_, 0))  # python sequence repetition, not element-wise product
            if isinstance(node.op, ast.Add) and isinstance(a, PySeq) and isinstance(b, PySeq):
                if isinstance(a, PyTuple) != isinstance(b, PyTuple):
                    raise Unfoldable("concatenation of a list and a tuple")
                return a + b  # tuple + tuple is a tuple, list + list a list
            f = ops.get(type(node.op))
            if isinstance(a, BoolList) and isinstance(b, BoolList) and isinstance(node.op, (ast.Add, ast.Sub, ast.Mult, ast.Div, ast.Pow, ast.Mod, ast.FloorDiv)):
                raise Unfoldable("arithmetic between two boolean tensors (torch keeps the boolean type: + is OR, * is AND, - is an error)")
            if isinstance(node.op, ast.MatMult):
                return self.fold(ast.Call(func=ast.Attribute(value=ast.Name(id="torch", ctx=ast.Load()), attr="matmul", ctx=ast.Load()), args=[node.left, node.right], keywords=[]))
            if f is None:
                raise Unfoldable("operator")
            try:
                r_ = _ew(f, a, b)
            except (TypeError, ZeroDivisionError) as exc:
                raise Unfoldable(str(exc))
            if isinstance(node.op, (ast.BitAnd, ast.BitOr, ast.BitXor)) and isinstance(r_, list) and all(isinstance(x_, (BoolList, bool)) for x_ in (a, b)):
                # a logical combination of masks is a mask

                def _bl(z):
                    return BoolList([_bl(e) for e in z]) if isinstance(z, list) else int(bool(z))

                return _bl(r_)
            return r_
        if isinstance(node, ast.BoolOp):
            # short-circuit evaluation, as python does it: later operands are not evaluated once the result is known
            last_ = None
            for vn_ in node.values:
                last_ = self.fold(vn_)
                if isinstance(last_, list) and not isinstance(last_, PySeq):
                    raise Unfoldable("boolean operator on a tensor")
                t_ = truth(last_) if isinstance(last_, PySeq) else bool(last_)
                if isinstance(node.op, ast.And) and not t_:
                    return last_
                if isinstance(node.op, ast.Or) and t_:
                    return last_
            return last_
        if isinstance(node, ast.IfExp):
            d = self.decide(node.test) if self.decide else None
            if d is None:
                d = truth(self.fold(node.test))
            return self.fold(node.body if d else node.orelse)
        if isinstance(node, ast.Subscript):
            base = self.fold(node.value)
            sl = node.slice
            if isinstance(base, dict):
                key = self.fold(sl)
                if isinstance(key, list) or key not in base:
                    raise Unfoldable("dictionary key")
                return base[key]
            if isinstance(sl, ast.Tuple) and len(sl.elts) == 2 and not (isinstance(sl.elts[0], ast.Constant) and sl.elts[0].value is Ellipsis) and isinstance(base, list) and base and isinstance(base[0], list):
                # matrix[r, c] with r, c integers or slices
                def part(e):
                    if isinstance(e, ast.Slice):
                        lo = self.fold(e.lower) if e.lower is not None else None
                        hi = self.fold(e.upper) if e.upper is not None else None
                        st_ = self.fold(e.step) if e.step is not None else None
                        if not all(v is None or (isinstance(v, int) and not isinstance(v, bool)) for v in (lo, hi, st_)) or (st_ is not None and st_ <= 0):
                            raise Unfoldable("slice")
                        return slice(lo, hi, st_)
                    v = self.fold(e)
                    if isinstance(v, int) and not isinstance(v, bool):
                        return v
                    if isinstance(v, BoolList) and not any(isinstance(t, list) for t in v):
                        return [k_ for k_, m_ in enumerate(v) if m_]  # a 1-D mask along this axis
                    if isinstance(v, list) and not isinstance(v, BoolList) and all(isinstance(t, int) and not isinstance(t, bool) for t in v):
                        return list(v)  # a list of positions (advanced indexing along this axis)
                    raise Unfoldable("matrix index")

                r, c = part(sl.elts[0]), part(sl.elts[1])
                if isinstance(r, list) and isinstance(c, list):
                    raise Unfoldable("two index lists")
                try:
                    rows = base[r] if isinstance(r, slice) else ([base[t] for t in r] if isinstance(r, list) else [base[r]])
                    out = [([row[t] for t in c] if isinstance(c, list) else row[c]) for row in rows]
                except IndexError as exc:
                    raise Unfoldable(str(exc))
                return out if isinstance(r, (slice, list)) else out[0]
            if isinstance(sl, ast.Tuple) and len(sl.elts) >= 3 and isinstance(sl.elts[0], ast.Constant) and sl.elts[0].value is Ellipsis and not any(isinstance(e_, ast.Constant) and e_.value is Ellipsis for e_ in sl.elts[1:]) and isinstance(base, list) and not isinstance(base, PySeq):
                # base[..., i, j] / base[..., i, :] : integer positions (or whole axes) of the trailing axes
                bs_ = _regular(base)
                tr_ = []
                for e_ in sl.elts[1:]:
                    if isinstance(e_, ast.Slice):
                        if e_.lower is not None or e_.upper is not None or e_.step is not None:
                            raise Unfoldable("partial slice after an ellipsis")
                        tr_.append(None)
                    else:
                        j_ = self.fold(e_)
                        if not (isinstance(j_, int) and not isinstance(j_, bool)):
                            raise Unfoldable("index after an ellipsis")
                        tr_.append(j_)
                if len(tr_) > len(bs_):
                    raise Unfoldable("too many indices")
                tail_ = bs_[len(bs_) - len(tr_):]
                for j_, n_ in zip(tr_, tail_):
                    if j_ is not None and not (-n_ <= j_ < n_):
                        raise Unfoldable("index out of range")

                def take_(v_, level):
                    if level < len(bs_) - len(tr_):
                        return [take_(r_, level + 1) for r_ in v_]
                    k_ = level - (len(bs_) - len(tr_))
                    if k_ == len(tr_):
                        return v_
                    if tr_[k_] is None:
                        return [take_(r_, level + 1) for r_ in v_]
                    return take_(v_[tr_[k_]], level + 1)

                return take_(base, 0)
            if isinstance(sl, ast.Tuple) and len(sl.elts) == 2 and isinstance(sl.elts[0], ast.Constant) and sl.elts[0].value is Ellipsis and isinstance(sl.elts[1], ast.Slice):
                e_ = sl.elts[1]
                lo = self.fold(e_.lower) if e_.lower is not None else None
                hi = self.fold(e_.upper) if e_.upper is not None else None
                st_ = self.fold(e_.step) if e_.step is not None else None
                if not all(v is None or (isinstance(v, int) and not isinstance(v, bool)) for v in (lo, hi, st_)) or (st_ is not None and st_ <= 0) or not isinstance(base, list) or isinstance(base, PySeq):
                    raise Unfoldable("slice")
                _regular(base)

                def last_sl(v):
                    if isinstance(v, list) and v and isinstance(v[0], list):
                        return [last_sl(r) for r in v]
                    return v[lo:hi:st_]

                return last_sl(base)
            if isinstance(sl, ast.Tuple) and len(sl.elts) == 2 and isinstance(sl.elts[0], ast.Constant) and sl.elts[0].value is Ellipsis:
                i = self.fold(sl.elts[1])

                def last(v):
                    if isinstance(v, list) and v and isinstance(v[0], list):
                        return [last(r) for r in v]
                    if isinstance(v, list) and isinstance(i, int) and not isinstance(i, bool) and -len(v) <= i < len(v):
                        return v[i]
                    if isinstance(v, list) and isinstance(i, list) and not isinstance(i, BoolList) and all(isinstance(t_, int) and not isinstance(t_, bool) and -len(v) <= t_ < len(v) for t_ in i):
                        return [v[t_] for t_ in i]  # gather along the last axis
                    raise Unfoldable("index")

                return last(base)
            if isinstance(sl, ast.Slice):
                lo = self.fold(sl.lower) if sl.lower is not None else None
                hi = self.fold(sl.upper) if sl.upper is not None else None
                st_ = self.fold(sl.step) if sl.step is not None else None
                if isinstance(base, (list, str)) and all(v is None or (isinstance(v, int) and not isinstance(v, bool)) for v in (lo, hi, st_)) and (st_ is None or st_ > 0 or (isinstance(base, (PySeq, str)) and st_ != 0)):
                    return base[lo:hi:st_]
                raise Unfoldable("slice")
            i = self.fold(sl)
            if isinstance(i, PyTuple) and i and all(t_ is None for t_ in i) and not isinstance(base, PySeq) and (isinstance(base, list) or isinstance(base, (int, float, complex))):
                out_ = base  # t[(None,) * k]: k new leading axes of length 1
                for _ in i:
                    out_ = [out_]
                return out_
            if isinstance(i, PyTuple) and not isinstance(sl, ast.Tuple) and isinstance(base, list) and not isinstance(base, PySeq) and all(isinstance(t_, int) and not isinstance(t_, bool) for t_ in i):
                # a python tuple of integers held in a variable: one index per axis (t[pos]; the empty tuple gives t itself)
                cur_ = base
                for t_ in i:
                    if not isinstance(cur_, list) or not (-len(cur_) <= t_ < len(cur_)):
                        raise Unfoldable("tuple index out of range")
                    cur_ = cur_[t_]
                return cur_
            if isinstance(base, list) and isinstance(i, int) and not isinstance(i, bool) and -len(base) <= i < len(base):
                return base[i]
            if isinstance(base, list) and isinstance(i, BoolList) and len(i) == len(base) and not any(isinstance(t, list) for t in i):
                return [b_ for b_, m_ in zip(base, i) if m_]
            if isinstance(base, list) and not isinstance(base, PySeq) and isinstance(i, BoolList) and any(isinstance(t, list) for t in i):
                # a mask over several leading axes: the selected entries in row-major order
                ms_, bs_ = _regular(i), _regular(base)
                if ms_ == bs_[: len(ms_)]:
                    import itertools as _it

                    return [_at(base, idx_) for idx_ in _it.product(*[range(n_) for n_ in ms_]) if _at(i, idx_)]
                raise Unfoldable("mask shape does not match the leading axes")
            if isinstance(base, list) and isinstance(i, list) and not isinstance(i, BoolList) and all(isinstance(t, int) and not isinstance(t, bool) and -len(base) <= t < len(base) for t in i):
                return [base[t] for t in i]
            if isinstance(base, list) and not isinstance(base, PySeq) and isinstance(i, list) and not isinstance(i, (BoolList, PySeq)) and i and all(isinstance(t, list) for t in i):
                # a tensor of positions of any rank: the result has the index tensor's shape (times the remaining axes)
                flat_ = _flat(i)
                if all(isinstance(t, int) and not isinstance(t, bool) and -len(base) <= t < len(base) for t in flat_):
                    import copy as _cp

                    return _ew(lambda t: _cp.deepcopy(base[t]), i)
            raise Unfoldable("subscript")
        if isinstance(node, ast.Compare) and len(node.ops) > 1:
            # a chained comparison is the conjunction of its links (scalars only: a tensor in the middle has no truth value)
            left_ = node.left
            for op_, right_ in zip(node.ops, node.comparators):
                link_ = self.fold(ast.Compare(left=left_, ops=[op_], comparators=[right_]))
                if isinstance(link_, list):
                    raise Unfoldable("chained comparison of tensors")
                if not link_:
                    return False
                left_ = right_
            return True
        if isinstance(node, ast.Compare) and len(node.ops) == 1 and isinstance(node.ops[0], (ast.In, ast.NotIn)):
            a, b = self.fold(node.left), self.fold(node.comparators[0])
            if not isinstance(b, (list, str, set, frozenset, dict)) or isinstance(a, list):
                raise Unfoldable("membership test")
            r = a in b
            return r if isinstance(node.ops[0], ast.In) else not r
        if isinstance(node, ast.Compare) and len(node.ops) == 1 and isinstance(node.ops[0], (ast.Is, ast.IsNot)):
            a, b = self.fold(node.left), self.fold(node.comparators[0])
            same = (a is b) or (a is None and b is None) or (isinstance(a, bool) and isinstance(b, bool) and a == b)
            return same if isinstance(node.ops[0], ast.Is) else not same
        if isinstance(node, ast.Compare) and len(node.ops) == 1 and isinstance(node.ops[0], (ast.Lt, ast.Gt, ast.LtE, ast.GtE, ast.Eq, ast.NotEq)):
            a, b = self.fold(node.left), self.fold(node.comparators[0])
            if isinstance(a, PySeq) and isinstance(b, PySeq) and isinstance(node.ops[0], (ast.Eq, ast.NotEq)):
                # python sequences (shapes, tuples) compare as wholes
                same_ = list(a) == list(b)
                return same_ if isinstance(node.ops[0], ast.Eq) else not same_
            if isinstance(a, PySeq) and isinstance(b, PySeq):
                try:
                    la_, lb_ = list(a), list(b)
                    return {ast.Lt: la_ < lb_, ast.Gt: la_ > lb_, ast.LtE: la_ <= lb_, ast.GtE: la_ >= lb_}[type(node.ops[0])]  # lexicographic
                except TypeError as exc:
                    raise Unfoldable(str(exc))
            f = {ast.Lt: lambda x, y: int(x < y), ast.Gt: lambda x, y: int(x > y), ast.LtE: lambda x, y: int(x <= y), ast.GtE: lambda x, y: int(x >= y), ast.Eq: lambda x, y: int(x == y), ast.NotEq: lambda x, y: int(x != y)}[type(node.ops[0])]
            try:
                r_ = _ew(f, a, b)
                return _mask(r_) if isinstance(r_, list) else r_
            except TypeError as exc:
                raise Unfoldable(str(exc))
        if isinstance(node, ast.Call) and isinstance(node.func, ast.Call) and (call_name(node.func) or "") in ("itemgetter", "operator.itemgetter") and len(node.args) == 1 and not node.keywords and not node.func.keywords and node.func.args:
            # operator.itemgetter(i, j, ...)(seq): the item for one index, a tuple of items for several
            idx_ = []
            for a_ in node.func.args:
                if isinstance(a_, ast.Starred):
                    many_ = self.fold(a_.value)
                    if not isinstance(many_, list):
                        raise Unfoldable("itemgetter indices")
                    idx_.extend(many_)
                else:
                    idx_.append(self.fold(a_))
            seq_ = self.fold(node.args[0])
            if not isinstance(seq_, (list, dict)) or not idx_:
                raise Unfoldable("itemgetter of a non-sequence")
            try:
                got_ = [seq_[i_] for i_ in idx_]
            except (IndexError, KeyError, TypeError) as exc:
                raise Unfoldable(str(exc))
            return got_[0] if len(idx_) == 1 else PyTuple(got_)
        if isinstance(node, ast.Call) and not node.keywords and isinstance(node.func, (ast.Name, ast.Attribute)):
            try:
                target = self.fold(node.func) if (isinstance(node.func, ast.Name) and node.func.id in self.names) or (isinstance(node.func, ast.Attribute) and (attr_chain(node.func) in self.attrs or node.func.attr == "__class__")) else None
            except Unfoldable:
                target = None
            if target is not None and getattr(type(target), "_kv_eval_obj", False) and callable(target):
                try:
                    return target(*[self.fold(a) for a in node.args])
                except (TypeError, ValueError, IndexError) as exc:
                    raise Unfoldable(str(exc))
        if isinstance(node, ast.Call) and isinstance(node.func, ast.Name) and isinstance(self.names.get(node.func.id), BuiltinRef):
            return self.fold(ast.Call(func=ast.Name(id=self.names[node.func.id].name, ctx=ast.Load()), args=node.args, keywords=node.keywords))
        if isinstance(node, ast.Call) and isinstance(node.func, ast.Name) and node.func.id == "map" and len(node.args) == 2 and not node.keywords:
            seq_ = self.fold(node.args[1])
            if not isinstance(seq_, (list, str)):
                raise Unfoldable("map over a non-sequence")
            out_ = PySeq()
            for it_ in seq_:
                sub_names = dict(self.names)
                sub_names["__map_item"] = it_
                sub = Folder(sub_names, self.attrs)
                sub.funcs, sub.materialise, sub.ctors = self.funcs, self.materialise, self.ctors
                fn_ = node.args[0]
                out_.append(sub.fold(ast.Call(func=fn_, args=[ast.Name(id="__map_item", ctx=ast.Load())], keywords=[])))
            return out_
        if isinstance(node, ast.Call) and isinstance(node.func, ast.Name) and isinstance(self.names.get(node.func.id), (ast.FunctionDef, ast.Lambda)) and not node.keywords:
            fd_ = self.names[node.func.id]
            shared_outer_ = set()
            back_ = {}
            if mutates_outer_state(fd_):
                shared_outer_, par_ = outer_mutations(fd_)
                plist_ = [a.arg for a in fd_.args.args]
                for pm_ in par_:
                    # a parameter mutated in place: the caller's variable handed over by plain name receives the result
                    if pm_ == "*" or pm_ not in plist_ or plist_.index(pm_) >= len(node.args) or not isinstance(node.args[plist_.index(pm_)], ast.Name) or node.args[plist_.index(pm_)].id not in self.names:
                        raise Unfoldable(f"local function {node.func.id} modifies an argument that is not a plain variable (aliasing is not modelled)")
                    back_[pm_] = node.args[plist_.index(pm_)].id
                    if back_[pm_] != pm_ and any(isinstance(x_, ast.Name) and x_.id == back_[pm_] for x_ in ast.walk(fd_)):
                        raise Unfoldable(f"local function {node.func.id} sees one object under two names (aliasing is not modelled)")
                if len(set(back_.values())) != len(back_) or set(back_.values()) & shared_outer_:
                    raise Unfoldable(f"local function {node.func.id}: one variable reaches it twice (aliasing is not modelled)")
                home0_ = getattr(fd_, "_kv_env", None) if isinstance(getattr(fd_, "_kv_env", None), dict) else self.names
                if isinstance(fd_, ast.Lambda) or any(n_ not in home0_ for n_ in shared_outer_) or not (shared_outer_ or back_):
                    raise Unfoldable(f"local function {node.func.id} modifies its arguments (aliasing is not modelled)")
            argv = [self.fold(a) for a in node.args]
            params_ = [a.arg for a in fd_.args.args]
            if len(argv) != len(params_):
                raise Unfoldable("local function arity")
            if shared_outer_ or back_:
                # a closure over enclosing variables it mutates in place (a scratch buffer, a result list): its body runs in an
                # environment of its own, and the mutated enclosing variables are handed back when it finishes
                if any(p_ in shared_outer_ for p_ in params_):
                    raise Unfoldable("parameter shadows a mutated enclosing variable")
                from .frag import FragReturn, run_fragment

                home_ = getattr(fd_, "_kv_env", None)
                home_ = home_ if isinstance(home_, dict) else self.names
                self._flush_shared()
                sub_env_ = dict(home_)
                sub_env_.update(zip(params_, argv))
                sub_env_["__kv_home__"], sub_env_["__kv_shared__"] = home_, frozenset(shared_outer_)
                val_ = None
                try:
                    run_fragment(fd_.body, sub_env_, self.attrs, funcs=self.funcs, materialise=self.materialise, ctors=self.ctors, attrs_live=True, share_env=True)
                except FragReturn as r_:
                    val_ = r_.value
                for n_ in shared_outer_:
                    if n_ not in sub_env_:
                        raise Unfoldable(f"enclosing variable {n_} lost its value inside {node.func.id}")
                    home_[n_] = sub_env_[n_]
                self._refresh_shared()
                for pm_, an_ in back_.items():
                    if pm_ not in sub_env_:
                        raise Unfoldable(f"argument {pm_} lost its value inside {node.func.id}")
                    self.names[an_] = sub_env_[pm_]
                return val_
            if isinstance(fd_, ast.Lambda):
                sub = Folder(dict(self.names, **dict(zip(params_, argv))), self.attrs)
                sub.funcs, sub.materialise, sub.ctors = self.funcs, self.materialise, self.ctors
                return sub.fold(fd_.body)
            from .frag import FragReturn, run_fragment

            home1_ = getattr(fd_, "_kv_env", None)
            home1_ = home1_ if isinstance(home1_, dict) else self.names
            self._flush_shared()
            env1_ = dict(home1_, **dict(zip(params_, argv)))
            env1_.pop("__kv_home__", None)
            env1_.pop("__kv_shared__", None)
            try:
                run_fragment(fd_.body, env1_, self.attrs, funcs=self.funcs, materialise=self.materialise, ctors=self.ctors, attrs_live=True)
            except FragReturn as r_:
                self._refresh_shared()
                return r_.value
            raise Unfoldable("local function returns nothing")
        if isinstance(node, ast.Call) and isinstance(node.func, ast.Attribute) and not node.keywords and not node.func.attr.startswith("_"):
            # a public method of a model object (field element .inverse(), ...)
            try:
                recv_ = self.fold(node.func.value) if isinstance(node.func.value, (ast.Name, ast.Attribute, ast.Subscript, ast.Call)) else None
            except Unfoldable:
                recv_ = None
            if recv_ is not None and getattr(type(recv_), "_kv_eval_obj", False) and callable(getattr(recv_, node.func.attr, None)):
                try:
                    return getattr(recv_, node.func.attr)(*[self.fold(a) for a in node.args])
                except (TypeError, ValueError, ZeroDivisionError, IndexError) as exc:
                    raise Unfoldable(str(exc))
        if isinstance(node, ast.Call) and isinstance(node.func, ast.Attribute) and self.funcs and attr_chain(node.func) in self.funcs:
            # a method of the analysed class the caller allows to be followed (`self._helper(...)`)
            fake = ast.Call(func=ast.Name(id=attr_chain(node.func), ctx=ast.Load()), args=node.args, keywords=node.keywords)
            return self.fold(fake)
        if isinstance(node, ast.Call) and self.attrs and unparse(node) in self.attrs:
            # a call the caller has bound to a value (e.g. `self.field.primitive_element()`)
            return self.attrs[unparse(node)]
        if isinstance(node, ast.Call) and isinstance(node.func, ast.Attribute) and not (call_name(node) or "").startswith(("torch.", "math.", "np.", "numpy.", "F.", "cmath.", "itertools.", "chain.")):
            # method form on a foldable receiver: x.abs(), x.sum(dim=..), x.min(dim=..), x.to(..), x.float()
            m = node.func.attr
            if m == "count" and len(node.args) == 1 and not node.keywords and isinstance(node.func.value, ast.Call) and isinstance(node.func.value.func, ast.Name) and node.func.value.func.id == "bin" and len(node.func.value.args) == 1:
                # bin(v).count("1"): the number of set bits of an integer
                v = self.fold(node.func.value.args[0])
                sub_ = self.fold(node.args[0])
                if isinstance(v, int) and not isinstance(v, bool) and isinstance(sub_, str):
                    return bin(v).count(sub_)
                raise Unfoldable("bin(...).count of a non-integer")
            if m == "bit_length" and not node.args:
                v = self.fold(node.func.value)
                if isinstance(v, int) and not isinstance(v, bool):
                    return v.bit_length()
                raise Unfoldable("bit_length of a non-integer")
            if m in ("t",) and not node.args:
                v = self.fold(node.func.value)
                if isinstance(v, list) and _depth(v) > 2:
                    raise Unfoldable("transpose of a tensor of rank above 2")
                if isinstance(v, list) and v and isinstance(v[0], list):
                    return [[row[j] for row in v] for j in range(len(v[0]))]
                raise Unfoldable("transpose of a non-matrix")
            if m in ("items", "keys", "values") and not node.args and not node.keywords:
                d_ = self.fold(node.func.value)
                if isinstance(d_, dict):
                    return PySeq([PySeq([k_, v_]) for k_, v_ in d_.items()] if m == "items" else (list(d_) if m == "keys" else list(d_.values())))
                raise Unfoldable(f"{m} of a non-dictionary")
            if m == "get" and 1 <= len(node.args) <= 2 and not node.keywords:
                d_ = self.fold(node.func.value)
                if isinstance(d_, dict):
                    key = self.fold(node.args[0])
                    if isinstance(key, list):
                        raise Unfoldable("dictionary key")
                    return d_[key] if key in d_ else (self.fold(node.args[1]) if len(node.args) == 2 else None)
                raise Unfoldable("get on a non-dictionary")
            if m == "tolist" and not node.args:
                v = self.fold(node.func.value)
                return PySeq(v) if isinstance(v, list) else v
            if m == "bool" and not node.args and not node.keywords:
                v = self.fold(node.func.value)
                if isinstance(v, BoolList) or isinstance(v, bool):
                    return v
                if isinstance(v, list) and not isinstance(v, PySeq):

                    def _nz(t):
                        return BoolList([_nz(e) for e in t]) if isinstance(t, list) else bool(t)

                    return _nz(v)
                if isinstance(v, (int, float)):
                    return bool(v)
                raise Unfoldable("bool() of a non-tensor")
            if m == "is_complex" and not node.args and not node.keywords:
                v = self.fold(node.func.value)

                def _anyc(t):
                    return any(_anyc(e) for e in t) if isinstance(t, list) else isinstance(t, complex)

                if isinstance(v, PySeq) or not isinstance(v, (list, int, float, complex)) or isinstance(v, bool):
                    raise Unfoldable("is_complex of a non-tensor")
                return _anyc(v)
            if m in ("to", "float", "int", "long", "double", "type", "clone", "contiguous", "item", "detach", "cpu", "cuda"):
                v = self.fold(node.func.value)
                if not isinstance(v, PySeq) and isinstance(v, (list, int, float, complex)) and not isinstance(v, bool):
                    # a conversion that names a dtype - literally or through a value (`x.to(input_dtype)`) - is applied
                    dt_ = {"float": "torch.float32", "double": "torch.float64"}.get(m)
                    if m in ("to", "type"):
                        for a_ in list(node.args) + [k.value for k in node.keywords if k.arg in ("dtype", None)]:
                            try:
                                cand_ = self.fold(a_)
                            except Unfoldable:
                                if "dtype" in unparse(a_):
                                    raise Unfoldable(f"conversion to an unknown dtype `{unparse(a_)[:40]}`")
                                continue
                            if isinstance(cand_, str) and cand_.startswith("torch.") and cand_.split(".")[-1] in (REAL_DTYPES | INT_DTYPES | COMPLEX_DTYPES | {"bool"}):
                                dt_ = cand_
                    if dt_ is not None and dt_.split(".")[-1] in (REAL_DTYPES | COMPLEX_DTYPES):
                        return apply_dtype(v, dt_)
                to_int = m in ("int", "long") or (m in ("to", "type") and any(unparse(a_).split(".")[-1] in ("long", "int", "int8", "int16", "int32", "int64", "uint8") for a_ in list(node.args) + [k.value for k in node.keywords]))
                if to_int and not isinstance(v, PySeq):
                    # conversion to an integer type truncates toward zero

                    def _tr(x):
                        if isinstance(x, bool):
                            return int(x)
                        if isinstance(x, int):
                            return x
                        if isinstance(x, float) and x == x and abs(x) != float("inf"):
                            return int(x)
                        raise Unfoldable("integer conversion of a non-finite or complex value")

                    r_ = _ew(_tr, v)
                    return r_
                return v
            if m == "size" and len(node.args) <= 1 and not node.keywords:
                dims = self.fold(ast.Attribute(value=node.func.value, attr="shape", ctx=ast.Load()))
                if not node.args:
                    return dims
                i = self.fold(node.args[0])
                if isinstance(i, int) and not isinstance(i, bool) and -len(dims) <= i < len(dims):
                    return dims[i]
                raise Unfoldable("size index")
            if m in ("reshape", "view") and node.args and not (len(node.args) == 1 and isinstance(node.args[0], ast.UnaryOp) and unparse(node.args[0]) == "-1"):
                v = self.fold(node.func.value)
                dims: List[Any] = []
                for a in node.args:
                    if isinstance(a, ast.Starred):
                        t = self.fold(a.value)
                        if not isinstance(t, list):
                            raise Unfoldable("starred argument")
                        dims += list(t)
                    else:
                        t = self.fold(a)
                        dims += list(t) if isinstance(t, list) else [t]
                if isinstance(v, list):
                    return _reshape(v, dims)
                if isinstance(v, (int, float, complex)) and not isinstance(v, bool) and dims and all(d_ in (1, -1) for d_ in dims) and sum(1 for d_ in dims if d_ == -1) <= 1:
                    out_ = v  # a 0-dim value viewed with axes of length 1
                    for _ in dims:
                        out_ = [out_]
                    return out_
                if isinstance(v, (int, float, complex)) and not isinstance(v, bool) and not dims:
                    return v
                raise Unfoldable("reshape of a scalar")
            if m == "squeeze" and len(node.args) <= 1 and not node.keywords:
                v = self.fold(node.func.value)
                if not node.args:
                    if not isinstance(v, list):
                        return v
                    dims_ = [n_ for n_ in _shape(v) if n_ != 1]
                    return _reshape(v, dims_) if dims_ else _flat(v)[0]
                d = self.fold(node.args[0])
                if isinstance(v, list) and not isinstance(v, PySeq) and isinstance(d, int) and not isinstance(d, bool):
                    shp_ = _regular(v)
                    if -len(shp_) <= d < len(shp_) and 0 not in shp_:
                        d_ = d % len(shp_)
                        if shp_[d_] != 1:
                            return v
                        rest_ = shp_[:d_] + shp_[d_ + 1:]
                        return _reshape(v, rest_) if rest_ else _flat(v)[0]
                if isinstance(v, list) and d == 0:
                    return v[0] if len(v) == 1 else v
                if isinstance(v, list) and d in (-1, _depth(v) - 1):
                    def sq(z, lvl):
                        if lvl == _depth(v) - 2:
                            return [t[0] if isinstance(t, list) and len(t) == 1 else t for t in z] if all(isinstance(t, list) and len(t) == 1 for t in z) else z
                        return [sq(t, lvl + 1) for t in z]
                    return sq(v, 0) if _depth(v) >= 2 else (v[0] if len(v) == 1 else v)
                raise Unfoldable("squeeze axis")
            if m == "unsqueeze" and len(node.args) == 1:
                v, d = self.fold(node.func.value), self.fold(node.args[0])
                if d == 0:
                    return [v]
                if not isinstance(v, list) and isinstance(v, (int, float, complex)) and d == -1:
                    return [v]  # a 0-dim value has the single axis position 0 == -1
                if isinstance(v, list) and not any(isinstance(x, list) for x in v) and d in (1, -1):
                    return [[x] for x in v]
                if isinstance(v, list) and not isinstance(v, PySeq) and isinstance(d, int) and not isinstance(d, bool):
                    shp_ = _regular(v)
                    if -(len(shp_) + 1) <= d <= len(shp_) and 0 not in shp_:
                        d_ = d % (len(shp_) + 1)
                        return _reshape(v, shp_[:d_] + [1] + shp_[d_:])
                raise Unfoldable("unsqueeze")
            if m == "gather" and len(node.args) == 2 and not node.keywords:
                v = self.fold(node.func.value)
                d_, ix_ = self.fold(node.args[0]), self.fold(node.args[1])
                if isinstance(v, list) and not isinstance(v, PySeq) and isinstance(ix_, list) and not isinstance(ix_, (PySeq, BoolList)) and isinstance(d_, int) and not isinstance(d_, bool):
                    sv_, si_ = _regular(v), _regular(ix_)
                    if len(sv_) == len(si_) and -len(sv_) <= d_ < len(sv_) and 0 not in si_:
                        d_ %= len(sv_)

                        def _g(idx):
                            j_ = _at(ix_, idx)
                            if isinstance(j_, bool) or not isinstance(j_, int) or not (0 <= j_ < sv_[d_]):
                                raise Unfoldable("gather index out of range")
                            src_ = list(idx)
                            src_[d_] = j_
                            if any(a_ >= b_ for k_, (a_, b_) in enumerate(zip(src_, sv_)) if k_ != d_):
                                raise Unfoldable("gather index tensor larger than the source")
                            return _at(v, src_)

                        return _build_from(si_, _g)
                raise Unfoldable("gather arguments")
            if m in ("eq", "ne", "gt", "lt", "ge", "le") and len(node.args) == 1 and not node.keywords:
                op_ = {"eq": ast.Eq, "ne": ast.NotEq, "gt": ast.Gt, "lt": ast.Lt, "ge": ast.GtE, "le": ast.LtE}[m]()
                return self.fold(ast.Compare(left=node.func.value, ops=[op_], comparators=[node.args[0]]))
            if m in ("logical_and", "logical_or", "logical_xor") and len(node.args) == 1 and not node.keywords:
                return self.fold(ast.Call(func=ast.Attribute(value=ast.Name(id="torch", ctx=ast.Load()), attr=m, ctx=ast.Load()), args=[node.func.value, node.args[0]], keywords=[]))
            if m == "logical_not" and not node.args and not node.keywords:
                return self.fold(ast.Call(func=ast.Attribute(value=ast.Name(id="torch", ctx=ast.Load()), attr=m, ctx=ast.Load()), args=[node.func.value], keywords=[]))
            if m == "masked_fill" and len(node.args) == 2 and not node.keywords:
                v = self.fold(node.func.value)
                mk_, val_ = self.fold(node.args[0]), self.fold(node.args[1])
                if isinstance(v, PySeq) or not isinstance(mk_, (BoolList, bool)) or isinstance(val_, list):
                    raise Unfoldable("masked_fill arguments")
                try:
                    return _ew(lambda x, c: val_ if c else x, v, mk_)
                except TypeError as exc:
                    raise Unfoldable(str(exc))
            if m == "unbind" and len(node.args) + len(node.keywords) <= 1 and all(k.arg == "dim" for k in node.keywords):
                v = self.fold(node.func.value)
                d_ = self.fold(node.args[0]) if node.args else (self.fold(node.keywords[0].value) if node.keywords else 0)
                if isinstance(v, list) and not isinstance(v, PySeq) and isinstance(d_, int) and not isinstance(d_, bool):
                    rank_ = _depth(v)
                    if -rank_ <= d_ < rank_:
                        d_ %= rank_
                        moved_ = _permute(v, [d_] + [a_ for a_ in range(rank_) if a_ != d_]) if rank_ > 1 else v
                        return PySeq(list(moved_))
                raise Unfoldable("unbind arguments")
            if m in ("transpose", "swapaxes") and len(node.args) == 2 and not node.keywords:
                v = self.fold(node.func.value)
                a_, b_ = self.fold(node.args[0]), self.fold(node.args[1])
                if isinstance(v, list) and not isinstance(v, PySeq) and all(isinstance(t_, int) and not isinstance(t_, bool) for t_ in (a_, b_)):
                    rank_ = _depth(v)
                    if -rank_ <= a_ < rank_ and -rank_ <= b_ < rank_:
                        perm_ = list(range(rank_))
                        perm_[a_ % rank_], perm_[b_ % rank_] = perm_[b_ % rank_], perm_[a_ % rank_]
                        return _permute(v, perm_)
                raise Unfoldable("transpose arguments")
            if m == "permute" and node.args and not node.keywords:
                v = self.fold(node.func.value)
                perm_ = []
                for a_ in node.args:
                    t_ = self.fold(a_.value) if isinstance(a_, ast.Starred) else self.fold(a_)
                    perm_ += list(t_) if isinstance(t_, list) else [t_]
                if isinstance(v, list) and not isinstance(v, PySeq):
                    return _permute(v, perm_)
                raise Unfoldable("permute of a non-tensor")
            if m == "count_nonzero" and len(node.args) <= 1 and all(k.arg == "dim" for k in node.keywords) and not isinstance(self._peek(node.func.value), PySeq):
                cmp_ = ast.Compare(left=node.func.value, ops=[ast.NotEq()], comparators=[ast.Constant(value=0)])
                call_ = ast.Call(func=ast.Attribute(value=cmp_, attr="sum", ctx=ast.Load()), args=list(node.args), keywords=list(node.keywords))
                return self.fold(ast.fix_missing_locations(ast.copy_location(call_, node)))
            if m == "index_select" and len(node.args) == 2 and not node.keywords and not isinstance(self._peek(node.func.value), PySeq):
                v = self.fold(node.func.value)
                d = self.fold(node.args[0])
                ix = self.fold(node.args[1])
                if isinstance(v, list) and isinstance(d, int) and not isinstance(d, bool) and isinstance(ix, list) and all(isinstance(i_, int) and not isinstance(i_, bool) for i_ in ix):
                    def _sel(f_):
                        if any(not (0 <= i_ < len(f_)) for i_ in ix):
                            raise Unfoldable("index_select out of range")
                        return [f_[i_] for i_ in ix]

                    return _map_fibres(v, d, _sel)
                raise Unfoldable("index_select with a non-literal index")
            if m in ("cumsum", "cumprod") and not isinstance(self._peek(node.func.value), PySeq) and (len(node.args) == 1 or (not node.args and len(node.keywords) == 1 and node.keywords[0].arg == "dim")):
                v = self.fold(node.func.value)
                d = self.fold(node.args[0] if node.args else node.keywords[0].value)
                if isinstance(v, list):

                    def _cs(f_, mul_=(m == "cumprod")):
                        out_, tot_ = [], (1 if mul_ else 0)
                        for x_ in f_:
                            tot_ = tot_ * x_ if mul_ else tot_ + x_
                            out_.append(tot_)
                        return out_

                    return _map_fibres(v, d, _cs)
                raise Unfoldable(f"{m} of a non-tensor")
            if (m in ("view", "reshape") and len(node.args) == 1 and isinstance(node.args[0], ast.UnaryOp) and unparse(node.args[0]) == "-1") or (m == "flatten" and not node.args):
                return _flat(self.fold(node.func.value))
            if m in ("any", "all") and (node.args or node.keywords):
                v = self.fold(node.func.value)
                d = self.fold(node.args[0] if node.args else node.keywords[0].value)
                kd_ = bool(next((self.fold(k.value) for k in node.keywords if k.arg == "keepdim"), False))
                if isinstance(v, list) and not isinstance(v, PySeq) and isinstance(d, int) and not isinstance(d, bool):
                    shp_ = _shape(v)
                    if not (-len(shp_) <= d < len(shp_)) or shp_[d % len(shp_)] == 0:
                        raise Unfoldable("any/all over an axis")
                    size_ = shp_[d % len(shp_)]
                    try:
                        cnt_ = _reduce_axes(_ew(lambda x: 1 if x else 0, v), [d], kd_, "sum")
                    except (TypeError, IndexError) as exc:
                        raise Unfoldable(f"any/all over an axis: {exc}")
                    res_ = _ew((lambda c: int(c > 0)) if m == "any" else (lambda c: int(c == size_)), cnt_)
                    return _mask(res_) if isinstance(res_, list) else bool(res_)
                raise Unfoldable("any/all over an axis")
            if m in ("expand", "expand_as", "broadcast_to") and node.args:
                v = self.fold(node.func.value)
                dims = []
                for a_ in node.args:
                    t_ = self.fold(a_.value) if isinstance(a_, ast.Starred) else self.fold(a_)
                    dims += list(t_) if isinstance(t_, list) else [t_]
                if m == "expand_as":
                    raise Unfoldable("expand_as")
                if not all(isinstance(d, int) and not isinstance(d, bool) for d in dims):
                    raise Unfoldable("expand sizes")
                cur = v
                shp = _shape(cur) if isinstance(cur, list) else []  # a number is a 0-dim value
                if len(shp) > len(dims):
                    raise Unfoldable("expand to fewer axes")
                while len(shp) < len(dims):
                    cur, shp = [cur], [1] + shp

                def ex(z, ds, sh):
                    if not ds:
                        return z
                    d, s0 = ds[0], sh[0]
                    if d == -1 or d == s0:
                        return [ex(t, ds[1:], sh[1:]) for t in z]
                    if s0 == 1:
                        return [ex(z[0], ds[1:], sh[1:]) for _ in range(d)]
                    raise Unfoldable("expand: incompatible sizes")

                return ex(cur, dims, shp)
            if m in ("repeat_interleave", "repeat", "tile"):
                v = self.fold(node.func.value)
                cnt = [self.fold(a) for a in node.args]
                if isinstance(v, list) and not any(isinstance(x, list) for x in v) and len(cnt) == 1 and isinstance(cnt[0], int) and not isinstance(cnt[0], bool) and not [k for k in node.keywords if not (k.arg == "dim" and self.fold(k.value) in (0, -1))]:
                    return [x for x in v for _ in range(cnt[0])] if m == "repeat_interleave" else list(v) * cnt[0]
                if m == "repeat_interleave" and isinstance(v, list) and not isinstance(v, PySeq) and len(cnt) == 1 and isinstance(cnt[0], int) and not isinstance(cnt[0], bool) and cnt[0] >= 1 and len(node.keywords) == 1 and node.keywords[0].arg == "dim":
                    d_ = self.fold(node.keywords[0].value)
                    return _map_fibres(v, d_, lambda f_: [x for x in f_ for _ in range(cnt[0])])
                if m == "repeat" and isinstance(v, list) and not isinstance(v, PySeq) and not node.keywords:
                    sizes_ = []
                    for a_, c_ in zip(node.args, cnt):
                        sizes_ += list(c_) if isinstance(c_, list) else [c_]
                    shp_ = _regular(v)
                    if len(sizes_) >= len(shp_) and all(isinstance(c_, int) and not isinstance(c_, bool) and 1 <= c_ <= 64 for c_ in sizes_) and 0 not in shp_:
                        shp2_ = [1] * (len(sizes_) - len(shp_)) + shp_
                        base_ = _reshape(v, shp2_)
                        return _build_from([a_ * b_ for a_, b_ in zip(shp2_, sizes_)], lambda idx: _at(base_, [i_ % n_ for i_, n_ in zip(idx, shp2_)]))
                raise Unfoldable(f"method {m} beyond 1-D")
            if m == "nonzero" and not node.args and all(k.arg == "as_tuple" for k in node.keywords):
                return self.fold(ast.Call(func=ast.Attribute(value=ast.Name(id="torch", ctx=ast.Load()), attr="nonzero", ctx=ast.Load()), args=[node.func.value], keywords=list(node.keywords)))
            if m in ("clip", "clamp", "log1p", "minimum", "maximum", "flip", "fliplr", "flipud", "angle"):
                fake = ast.Call(func=ast.Attribute(value=ast.Name(id="torch", ctx=ast.Load()), attr=m, ctx=ast.Load()), args=[node.func.value] + list(node.args), keywords=list(node.keywords))
                return self.fold(fake)
            if m in ("abs", "sum", "prod", "min", "max", "sign", "tanh", "sqrt", "exp", "argmin", "argmax", "amin", "amax", "all", "any", "numel", "dim", "conj", "mean"):
                fake = ast.Call(func=ast.Attribute(value=ast.Name(id="torch", ctx=ast.Load()), attr=m, ctx=ast.Load()), args=[node.func.value] + list(node.args), keywords=list(node.keywords))
                return self.fold(fake)
            raise Unfoldable(f"method {m}")
        if isinstance(node, ast.Call) and isinstance(node.func, ast.Attribute) and self.ctors and attr_chain(node.func) in self.ctors and all(k.arg is not None for k in node.keywords):
            # a library call the caller models itself (e.g. a random draw replaced by a fixed table of draws)
            try:
                return self.ctors[attr_chain(node.func)](*[self.fold(a) for a in node.args], **{k.arg: self.fold(k.value) for k in node.keywords})
            except (TypeError, ValueError) as exc:
                raise Unfoldable(str(exc))
        if isinstance(node, ast.Call) and isinstance(node.func, ast.Name) and node.func.id in self.ctors and all(k.arg is not None for k in node.keywords):
            try:
                return self.ctors[node.func.id](*[self.fold(a) for a in node.args], **{k.arg: self.fold(k.value) for k in node.keywords})
            except (TypeError, ValueError) as exc:
                raise Unfoldable(str(exc))
        if isinstance(node, ast.Call) and isinstance(node.func, ast.Name) and node.func.id == "hasattr" and len(node.args) == 2 and not node.keywords and isinstance(node.args[1], ast.Constant) and isinstance(node.args[1].value, str):
            ch_ = attr_chain(node.args[0]) if isinstance(node.args[0], (ast.Name, ast.Attribute)) else None
            if ch_ is not None and f"{ch_}.{node.args[1].value}" in self.attrs:
                return True
            if ch_ == "self" and "self" not in self.names and node.args[1].value.startswith("_") and not node.args[1].value.startswith("__") and any(k_.startswith("self.") for k_ in self.attrs):
                # the object is described by the attribute table: a private attribute that is not in it is a cache not filled yet
                return False
            obj_ = self.fold(node.args[0])
            if getattr(type(obj_), "_kv_eval_obj", False):
                return hasattr(obj_, node.args[1].value)
            if isinstance(obj_, (int, float, complex)) and not isinstance(obj_, bool):
                # a number stands for a python number or a 0-dim tensor: answered only where neither has the attribute
                nm_ = node.args[1].value
                TENSOR_ATTRS = {"shape", "dtype", "device", "real", "imag", "T", "mT", "data", "grad", "requires_grad", "ndim", "is_cuda", "layout", "names", "H", "mH", "itemsize", "nbytes"}
                if nm_ not in TENSOR_ATTRS and not hasattr(obj_, nm_) and not nm_.startswith("__") and nm_ not in ("item", "dim", "size", "numel", "tolist", "numpy", "clone", "detach", "to", "float", "long", "int", "sum", "abs"):
                    return False
            raise Unfoldable("hasattr of a value outside the model objects")
        if isinstance(node, ast.Call) and isinstance(node.func, ast.Name) and node.func.id == "isinstance" and len(node.args) == 2 and isinstance(node.args[1], ast.Name) and node.args[1].id in self.ctors:
            return isinstance(self.fold(node.args[0]), self.ctors[node.args[1].id])
        if isinstance(node, ast.Call) and isinstance(node.func, ast.Name) and node.func.id in self.funcs:
            from .frag import FragReturn, run_fragment

            fd = self.funcs[node.func.id]
            if mutates_outer_state(fd):
                raise Unfoldable(f"function {node.func.id} modifies its arguments (aliasing is not modelled)")
            params = [a.arg for a in fd.args.args]
            recv_obj = None
            if "." in node.func.id and params and params[0] in ("self", "cls"):
                # a method followed on a receiver that is a model object in this environment (not an attribute table):
                # the callee sees the same object under its own first parameter
                rn_ = node.func.id.split(".")[0]
                from .gf2 import EvalObj as _EvalObj

                if rn_ in self.names and isinstance(self.names[rn_], _EvalObj):
                    recv_obj = (params[0], self.names[rn_])
                params = params[1:]
            if len(node.args) > len(params) or node.keywords and any(k.arg not in params for k in node.keywords):
                raise Unfoldable(f"call {node.func.id}: arguments do not bind")
            env: Dict[str, Any] = {}
            if recv_obj is not None:
                env[recv_obj[0]] = recv_obj[1]
            for p_, a in zip(params, node.args):
                env[p_] = self.fold(a)
            for k in node.keywords:
                env[k.arg] = self.fold(k.value)
            defaults = fd.args.defaults
            for p_, d in zip(params[len(params) - len(defaults):], defaults):
                if p_ not in env:
                    env[p_] = self.fold(d)
            if any(p_ not in env for p_ in params):
                raise Unfoldable(f"call {node.func.id}: missing argument")
            try:
                run_fragment(fd.body, env, self.attrs, funcs={k: v for k, v in self.funcs.items() if k != node.func.id}, materialise=self.materialise, ctors=self.ctors, attrs_live=True)
            except FragReturn as r:
                return r.value
            raise Unfoldable(f"call {node.func.id}: no return value")
        if isinstance(node, ast.Call):
            nm = call_name(node) or ""
            short = nm.split(".")[-1]
            if short in ("atleast_1d", "atleast_2d", "atleast_3d") and nm.startswith("torch.") and len(node.args) == 1 and not node.keywords:
                v_ = self.fold(node.args[0])
                want_ = int(short[8])
                if isinstance(v_, PySeq) or isinstance(v_, (str, dict, set)) or v_ is None:
                    raise Unfoldable(f"{short} of a non-tensor")
                d0_ = _depth(v_) if isinstance(v_, list) else 0
                if isinstance(v_, list):
                    _regular(v_)
                if d0_ >= want_:
                    return v_
                if d0_ == 0:
                    out_ = [v_]
                    for _ in range(want_ - 1):
                        out_ = [out_]
                    return out_
                if d0_ == 1:
                    return [v_] if want_ == 2 else [[[x_] for x_ in v_]]  # (n,) -> (1, n) / (1, n, 1)
                return [[[x_] for x_ in r_] for r_ in v_]  # (a, b) -> (a, b, 1)
            if short == "kron" and nm.startswith(("torch.", "np.", "numpy.")) and len(node.args) == 2 and not node.keywords:
                a_, b_ = self.fold(node.args[0]), self.fold(node.args[1])
                if all(isinstance(t_, list) and not isinstance(t_, PySeq) and _depth(t_) == 2 and len(_regular(t_)) == 2 and 0 not in _shape(t_) for t_ in (a_, b_)):
                    return [[x * y for x in ra for y in rb] for ra in a_ for rb in b_]
                raise Unfoldable("kron of operands that are not both matrices")
            if short == "stack" and nm.startswith("torch.") and node.args:
                parts = self.fold(node.args[0])
                dim = next((self.fold(k.value) for k in node.keywords if k.arg == "dim"), self.fold(node.args[1]) if len(node.args) > 1 else 0)
                if isinstance(parts, list) and parts and isinstance(dim, int):
                    try:
                        return _stack([p_ if isinstance(p_, list) else p_ for p_ in parts], dim) if all(isinstance(p_, list) for p_ in parts) else list(parts)
                    except (IndexError, TypeError) as exc:
                        raise Unfoldable(str(exc))
                raise Unfoldable("stack")
            if short in ("cat", "concat", "concatenate", "hstack") and nm.startswith("torch.") and node.args:
                parts = self.fold(node.args[0])
                dim = next((self.fold(k.value) for k in node.keywords if k.arg == "dim"), self.fold(node.args[1]) if len(node.args) > 1 else 0)
                if not (isinstance(parts, list) and all(isinstance(p_, list) for p_ in parts)):
                    raise Unfoldable("cat of non-lists")
                depths = {_depth(p_) for p_ in parts if p_ != []}
                if len(depths) > 1:
                    raise Unfoldable("cat of different ranks")
                d_ = depths.pop() if depths else 1
                if not isinstance(dim, int) or not (-d_ <= dim < d_):
                    raise Unfoldable("cat axis")
                return _cat([p_ for p_ in parts if p_ != []] or [[]], dim % d_)
            if nm == "isinstance" and len(node.args) == 2:
                v = self.fold(node.args[0])
                tn = unparse(node.args[1])
                table = {"str": str, "int": int, "float": float, "bool": bool, "list": PySeq, "tuple": PySeq, "(list, tuple)": PySeq, "(tuple, list)": PySeq, "torch.Tensor": list, "dict": dict, "set": set}
                if tn in table:
                    if table[tn] is int:
                        return isinstance(v, int) and not isinstance(v, bool)
                    if tn == "torch.Tensor":
                        return isinstance(v, list) and not isinstance(v, PySeq)
                    return isinstance(v, table[tn])
                raise Unfoldable(f"isinstance against {tn}")
            if short == "count_nonzero" and nm.startswith("torch.") and node.args and all(k.arg == "dim" for k in node.keywords) and len(node.args) <= 2:
                # count_nonzero(t[, dim]) is (t != 0).sum([dim])
                cmp_ = ast.Compare(left=node.args[0], ops=[ast.NotEq()], comparators=[ast.Constant(value=0)])
                call_ = ast.Call(func=ast.Attribute(value=cmp_, attr="sum", ctx=ast.Load()), args=list(node.args[1:]), keywords=list(node.keywords))
                return self.fold(ast.fix_missing_locations(ast.copy_location(call_, node)))
            if short == "index_select" and nm.startswith("torch.") and len(node.args) == 3 and not node.keywords:
                return self.fold(ast.copy_location(ast.Call(func=ast.copy_location(ast.Attribute(value=node.args[0], attr=short, ctx=ast.Load()), node), args=list(node.args[1:]), keywords=[]), node))
            if short in ("cumsum", "cumprod") and nm.startswith("torch.") and node.args and (len(node.args) == 2 or (len(node.args) == 1 and len(node.keywords) == 1 and node.keywords[0].arg == "dim")):
                # torch.cumsum(x, dim) is x.cumsum(dim)
                return self.fold(ast.copy_location(ast.Call(func=ast.copy_location(ast.Attribute(value=node.args[0], attr=short, ctx=ast.Load()), node), args=list(node.args[1:]), keywords=list(node.keywords)), node))
            if short in ("flip", "fliplr", "flipud") and node.args:
                v = self.fold(node.args[0])
                if short == "flip":
                    dv = self.fold(node.args[1] if len(node.args) > 1 else next((k.value for k in node.keywords if k.arg == "dims"), ast.Constant(value=None)))
                    dims = dv if isinstance(dv, list) else [dv]
                else:
                    dims = [1] if short == "fliplr" else [0]
                if not isinstance(v, list) or not all(isinstance(d, int) for d in dims):
                    raise Unfoldable("flip")
                depth = 0
                t = v
                while isinstance(t, list):
                    depth += 1
                    t = t[0] if t else None
                dims = sorted({d % depth for d in dims})

                def _flip(z, level):
                    if not isinstance(z, list):
                        return z
                    out = [_flip(y, level + 1) for y in z]
                    return out[::-1] if level in dims else out

                return _flip(v, 0)
            if short in ("clip", "clamp") and node.args:
                v = self.fold(node.args[0])
                lo = self.fold(node.args[1]) if len(node.args) > 1 else next((self.fold(k.value) for k in node.keywords if k.arg == "min"), None)
                hi = self.fold(node.args[2]) if len(node.args) > 2 else next((self.fold(k.value) for k in node.keywords if k.arg == "max"), None)
                return _ew(lambda x: (min(hi, x) if hi is not None else x) if lo is None else max(lo, min(hi, x) if hi is not None else x), v)
            if short in ("bitwise_xor", "bitwise_and", "bitwise_or", "bitwise_right_shift", "bitwise_left_shift") and len(node.args) == 2:
                f = {"bitwise_xor": lambda x, y: x ^ y, "bitwise_and": lambda x, y: x & y, "bitwise_or": lambda x, y: x | y, "bitwise_right_shift": lambda x, y: x >> y, "bitwise_left_shift": lambda x, y: x << y}[short]
                try:
                    return _ew(f, self.fold(node.args[0]), self.fold(node.args[1]))
                except TypeError as exc:
                    raise Unfoldable(str(exc))
            if short in ("floor", "ceil", "trunc", "round") and len(node.args) == 1 and nm.startswith(("torch.", "math.")):
                f = {"floor": math.floor, "ceil": math.ceil, "trunc": math.trunc, "round": round}[short]
                return _ew(lambda x: float(f(x)) if nm.startswith("torch.") and isinstance(x, float) else f(x), self.fold(node.args[0]))
            if short in ("div", "floor_divide") and len(node.args) == 2 and nm.startswith("torch."):
                mode = next((self.fold(k.value) for k in node.keywords if k.arg == "rounding_mode"), "floor" if short == "floor_divide" else None)
                a, b = self.fold(node.args[0]), self.fold(node.args[1])
                try:
                    if mode == "floor":
                        return _ew(lambda x, y: x // y, a, b)
                    if mode is None:
                        return _ew(lambda x, y: x / y, a, b)
                except (TypeError, ZeroDivisionError) as exc:
                    raise Unfoldable(str(exc))
                raise Unfoldable("div rounding mode")
            if short == "angle" and node.args:
                return _ew(lambda z: cmath.phase(complex(z)), self.fold(node.args[0]))
            if short in ("log1p", "expm1") and node.args:
                try:
                    return _ew(math.log1p if short == "log1p" else math.expm1, self.fold(node.args[0]))
                except (ValueError, TypeError, OverflowError) as exc:
                    raise Unfoldable(str(exc))
            if short in ("minimum", "maximum") and len(node.args) == 2:
                return _ew(min if short == "minimum" else max, self.fold(node.args[0]), self.fold(node.args[1]))
            if short == "conj" and node.args:
                return _ew(lambda x: x.conjugate() if isinstance(x, complex) else x, self.fold(node.args[0]))
            if short in ("tanh", "arctanh", "atanh", "sign", "log2", "log") and node.args:
                fn = {"tanh": math.tanh, "arctanh": math.atanh, "atanh": math.atanh, "sign": lambda x: (x > 0) - (x < 0), "log2": lambda x: cmath.log(x) / math.log(2) if isinstance(x, complex) or x <= 0 else math.log2(x), "log": lambda x: cmath.log(x) if isinstance(x, complex) or x <= 0 else math.log(x)}[short]
                try:
                    return _ew(fn, self.fold(node.args[0]))
                except (ValueError, TypeError) as exc:
                    raise Unfoldable(str(exc))
            if short in ("all", "any") and nm.startswith("torch.") and node.args and (len(node.args) == 2 or any(k.arg == "dim" for k in node.keywords)):
                fake = ast.Call(func=ast.Attribute(value=node.args[0], attr=short, ctx=ast.Load()), args=list(node.args[1:]), keywords=[k for k in node.keywords if k.arg == "dim"])
                return self.fold(fake)
            if short in ("matmul", "mm") and len(node.args) == 2:
                a, b = self.fold(node.args[0]), self.fold(node.args[1])

                def _mm(a, b):
                    if not (isinstance(a, list) and isinstance(b, list) and a and b) or isinstance(a, PySeq) or isinstance(b, PySeq):
                        raise Unfoldable("matmul operands")
                    sa, sb = _regular(a), _regular(b)
                    if len(sa) > 2 or len(sb) > 2:
                        if short == "mm":
                            raise Unfoldable("mm of batched operands")
                        if len(sa) > 2 and len(sb) > 2 and len(sa) == len(sb) and sa[0] == sb[0]:
                            return [_mm(x, y) for x, y in zip(a, b)]
                        if len(sa) > 2 and len(sb) <= 2:
                            return [_mm(x, b) for x in a]
                        if len(sb) > 2 and len(sa) == 2:
                            return [_mm(a, y) for y in b]
                        raise Unfoldable("matmul broadcasting")
                    if len(sb) == 1:
                        if sa[-1] != sb[0]:
                            raise Unfoldable("matmul shapes")
                        return sum(x * y for x, y in zip(a, b)) if len(sa) == 1 else [sum(x * y for x, y in zip(r_, b)) for r_ in a]
                    rows = a if len(sa) == 2 else [a]
                    if any(len(r_) != len(b) for r_ in rows):
                        raise Unfoldable("matmul shapes")
                    out = [[sum(r_[t] * b[t][j] for t in range(len(b))) for j in range(len(b[0]))] for r_ in rows]
                    return out if len(sa) == 2 else out[0]

                return _mm(a, b)
            if short in ("all", "any", "numel", "dim") and len(node.args) == 1 and not node.keywords:
                v = self.fold(node.args[0])

                def flat(z):
                    return [y for x in z for y in flat(x)] if isinstance(z, list) else [z]

                def depth(z):
                    return 1 + (depth(z[0]) if z else 0) if isinstance(z, list) else 0

                if short == "all":
                    return all(bool(t) for t in flat(v))
                if short == "any":
                    return any(bool(t) for t in flat(v))
                if short == "numel":
                    return len(flat(v))
                return depth(v)
            if short == "remainder" and len(node.args) == 2:
                a, b = self.fold(node.args[0]), self.fold(node.args[1])
                try:
                    return _ew(lambda x, y: x % y, a, b)
                except (TypeError, ZeroDivisionError) as exc:
                    raise Unfoldable(str(exc))
            if short == "fmod" and len(node.args) == 2:
                a, b = self.fold(node.args[0]), self.fold(node.args[1])
                return _ew(lambda x, y: math.fmod(x, y) if isinstance(x, float) or isinstance(y, float) else (x % y if x >= 0 else -((-x) % y)), a, b)
            if short == "where" and nm.startswith("torch.") and len(node.args) == 3 and not node.keywords:
                c_, a_, b_ = (self.fold(x_) for x_ in node.args)
                if any(isinstance(x_, PySeq) for x_ in (c_, a_, b_)):
                    raise Unfoldable("where on python sequences")
                try:
                    pair_ = _ew(lambda x, y: (x, y), a_, b_)
                    return _ew(lambda c, ab: ab[0] if c else ab[1], c_, pair_)
                except TypeError as exc:
                    raise Unfoldable(str(exc))
            if short in ("where", "nonzero") and len(node.args) == 1 and all(k.arg == "as_tuple" for k in node.keywords):
                v = self.fold(node.args[0])
                as_tuple = any(self.fold(k.value) is True for k in node.keywords)
                if isinstance(v, list) and not any(isinstance(x, list) for x in v):
                    idx = [i for i, t in enumerate(v) if t]
                    return PySeq([idx]) if (short == "where" or as_tuple) else [[i] for i in idx]
                if isinstance(v, list) and not isinstance(v, PySeq) and v:
                    # any rank: the index tuples of the non-zero entries in row-major order
                    import itertools as _it

                    shp_ = _regular(v)
                    hits_ = [list(ix_) for ix_ in _it.product(*[range(n_) for n_ in shp_]) if _at(v, ix_)]
                    if short == "where" or as_tuple:
                        return PyTuple([[h_[a_] for h_ in hits_] for a_ in range(len(shp_))])
                    return hits_ if hits_ else []
                raise Unfoldable(f"{short} of a matrix")
            if nm == "sum" and 1 <= len(node.args) <= 2 and not node.keywords and isinstance(self._peek(node.args[0]), PySeq):
                # the builtin over a python sequence (of numbers or of model objects): left fold with +
                seq_ = self.fold(node.args[0])
                acc_ = self.fold(node.args[1]) if len(node.args) == 2 else 0
                try:
                    for it_ in seq_:
                        if isinstance(it_, list) or isinstance(acc_, list):
                            raise Unfoldable("builtin sum over tensors")
                        acc_ = acc_ + it_
                except TypeError as exc:
                    raise Unfoldable(str(exc))
                return acc_
            if short in ("argmax", "argmin") and node.args and (len(node.args) == 2 or any(k.arg == "dim" for k in node.keywords)):
                v = self.fold(node.args[0])
                d = self.fold(node.args[1] if len(node.args) == 2 else next(k.value for k in node.keywords if k.arg == "dim"))
                pick = max if short == "argmax" else min
                kd_ = bool(next((self.fold(k.value) for k in node.keywords if k.arg == "keepdim"), False))
                if isinstance(v, list) and not isinstance(v, PySeq) and v:
                    return _fibers(v, d, lambda f_: f_.index(pick(f_)), kd_)
                raise Unfoldable("arg-reduction over an axis")
            if short in ("sum", "mean") and node.args and (any(k.arg == "dim" for k in node.keywords) or len(node.args) == 2) and (any(k.arg == "keepdim" for k in node.keywords) or isinstance(self._peek(node.args[1] if len(node.args) == 2 else next(k.value for k in node.keywords if k.arg == "dim")), list)):
                v = self.fold(node.args[0])
                d = self.fold(node.args[1] if len(node.args) == 2 else next(k.value for k in node.keywords if k.arg == "dim"))
                kd = bool(next((self.fold(k.value) for k in node.keywords if k.arg == "keepdim"), False))
                if isinstance(v, list) and (isinstance(d, list) and all(isinstance(a, int) for a in d) or isinstance(d, int)):
                    return _reduce_axes(v, d if isinstance(d, list) else [d], kd, short)
                raise Unfoldable("reduction axes")
            if short == "sum" and node.args and (any(k.arg == "dim" for k in node.keywords) or len(node.args) == 2):
                v = self.fold(node.args[0])
                d = self.fold(node.args[1] if len(node.args) == 2 else next(k.value for k in node.keywords if k.arg == "dim"))
                if isinstance(v, list) and not isinstance(v, PySeq) and isinstance(d, int) and not isinstance(d, bool):
                    shp_ = _shape(v)
                    if not (-len(shp_) <= d < len(shp_)):
                        raise Unfoldable("sum over an axis")
                    if shp_[d % len(shp_)] == 0 and len(shp_) == 1:
                        return 0
                    try:
                        return _reduce_axes(v, [d], False, "sum")
                    except (TypeError, IndexError) as exc:
                        raise Unfoldable(f"sum over an axis: {exc}")
                raise Unfoldable("sum over an axis")
            if short in ("amin", "amax") and nm.startswith("torch.") and node.args and (len(node.args) == 2 or any(k.arg == "dim" for k in node.keywords)):
                v_ = self.fold(node.args[0])
                d_ = self.fold(node.args[1] if len(node.args) == 2 else next(k.value for k in node.keywords if k.arg == "dim"))
                kd_ = bool(next((self.fold(k.value) for k in node.keywords if k.arg == "keepdim"), False))
                if isinstance(v_, list) and not isinstance(v_, PySeq) and isinstance(d_, int) and not isinstance(d_, bool):
                    return _fibers(v_, d_, min if short == "amin" else max, kd_)
                raise Unfoldable(f"{short} over an axis")
            if short == "prod" and node.args and (len(node.args) == 2 or any(k.arg == "dim" for k in node.keywords)) and all(k.arg in ("dim", "keepdim") for k in node.keywords):
                v_ = self.fold(node.args[0])
                d_ = self.fold(node.args[1] if len(node.args) == 2 else next(k.value for k in node.keywords if k.arg == "dim"))
                kd_ = bool(next((self.fold(k.value) for k in node.keywords if k.arg == "keepdim"), False))
                if isinstance(v_, list) and not isinstance(v_, PySeq) and v_ and isinstance(d_, int) and not isinstance(d_, bool) and _regular(v_):

                    def _prod(xs):
                        out = 1
                        for x in xs:
                            out = out * x
                        return out

                    return _fibers(v_, d_, _prod, kd_)
                raise Unfoldable("prod over an axis")
            if short in ("sum", "prod", "amin", "amax", "argmin", "argmax", "mean") and node.args:
                v = self.fold(node.args[0])
                if short in ("sum", "mean", "prod", "amin", "amax") and isinstance(v, list) and not isinstance(v, PySeq) and v and isinstance(v[0], list) and len(node.args) == 1 and not node.keywords:

                    def _fl(z):
                        return [y for x in z for y in _fl(x)] if isinstance(z, list) else [z]

                    v = _fl(v)
                    if not v:
                        raise Unfoldable("reduction of an empty tensor")
                if isinstance(v, list) and v and not any(isinstance(x, list) for x in v):
                    if short == "sum":
                        return sum(v)
                    if short == "mean":
                        return sum(v) / len(v)
                    if short == "prod":
                        out = 1
                        for x in v:
                            out = out * x
                        return out
                    if short in ("amin", "amax"):
                        return (min if short == "amin" else max)(v)
                    return v.index((min if short == "argmin" else max)(v))
                if not isinstance(v, list):
                    return v
                raise Unfoldable("nested reduction")
            if short in ("min", "max") and len(node.args) == 1 and all(k.arg in ("dim", "keepdim") for k in node.keywords):
                v = self.fold(node.args[0])
                pick_ = min if short == "min" else max
                if isinstance(v, list) and not isinstance(v, PySeq) and v and nm.startswith("torch.") and any(k.arg == "dim" for k in node.keywords):
                    d_ = self.fold(next(k.value for k in node.keywords if k.arg == "dim"))
                    kd_ = bool(next((self.fold(k.value) for k in node.keywords if k.arg == "keepdim"), False))
                    if _depth(v) == 1 and isinstance(d_, int) and not (-1 <= d_ < 1):
                        d_ = 0  # a 1-D sample stands for the fibre along the reduction axis, whatever its number
                    return PySeq([_fibers(v, d_, pick_, kd_), _fibers(v, d_, lambda f_: f_.index(pick_(f_)), kd_)])
                if isinstance(v, list) and not isinstance(v, PySeq) and v and nm.startswith("torch.") and not node.keywords:
                    fl_ = _flat(v)
                    if not fl_:
                        raise Unfoldable("reduction of an empty tensor")
                    return pick_(fl_)
                if isinstance(v, list) and v and not any(isinstance(x, list) for x in v) and not node.keywords:
                    return pick_(v)
                raise Unfoldable("min/max form")
            if short == "pow" and len(node.args) == 2:
                a, b = self.fold(node.args[0]), self.fold(node.args[1])
                try:
                    return _ew(lambda x, y: x**y, a, b)
                except (TypeError, ZeroDivisionError, OverflowError) as exc:
                    raise Unfoldable(str(exc))
            if nm == "format" and len(node.args) == 2 and not node.keywords:
                v, spec = self.fold(node.args[0]), self.fold(node.args[1])
                if isinstance(v, list) or not isinstance(spec, str):
                    raise Unfoldable("format")
                try:
                    return format(v, spec)
                except (ValueError, TypeError) as exc:
                    raise Unfoldable(str(exc))
            if nm == "int" and len(node.args) in (1, 2) and not node.keywords:
                v = self.fold(node.args[0])
                if isinstance(v, str):
                    try:
                        return int(v, self.fold(node.args[1])) if len(node.args) == 2 else int(v)
                    except (ValueError, TypeError) as exc:
                        raise Unfoldable(str(exc))
                if isinstance(v, float) and len(node.args) == 1:
                    if v != v or v in (float("inf"), float("-inf")):
                        raise Unfoldable("int of a non-finite value")
                    return int(v)
                if len(node.args) == 1:
                    return v
                raise Unfoldable("int with a base")
            if nm in ("sorted", "enumerate") and len(node.args) == 1 and not node.keywords:
                v = self.fold(node.args[0])
                if not isinstance(v, (list, str)):
                    raise Unfoldable(f"call {nm}")
                try:
                    return sorted(v) if nm == "sorted" else [[i, x] for i, x in enumerate(v)]
                except TypeError as exc:
                    raise Unfoldable(str(exc))
            if nm == "set" and len(node.args) <= 1 and not node.keywords:
                if not node.args:
                    return set()
                v = self.fold(node.args[0])
                try:
                    return set(v)
                except TypeError as exc:
                    raise Unfoldable(str(exc))
            if nm in ("len", "list", "sorted", "tuple") and len(node.args) == 1 and not node.keywords:
                v0 = self._peek(node.args[0])
                if isinstance(v0, (set, frozenset)):
                    # iteration order of a set is that of the interpreter running the checker (the same CPython as the library)
                    return len(v0) if nm == "len" else PySeq(sorted(v0) if nm == "sorted" else list(v0))
                if isinstance(v0, dict):
                    return len(v0) if nm == "len" else PySeq(sorted(v0) if nm == "sorted" else list(v0))
            if short == "eye" and nm.startswith("torch.") and node.args:
                k_ = self.fold(node.args[0])
                if isinstance(k_, int) and 0 <= k_ <= 512:
                    return [[1 if i == j else 0 for j in range(k_)] for i in range(k_)]
                raise Unfoldable("eye")
            if short == "combinations" and nm in ("combinations", "itertools.combinations") and (len(node.args) == 2 and not node.keywords or len(node.args) == 1 and len(node.keywords) == 1 and node.keywords[0].arg == "r"):
                import itertools as _it

                seq_, r_ = self.fold(node.args[0]), self.fold(node.args[1] if len(node.args) == 2 else node.keywords[0].value)
                if not isinstance(seq_, list) or not isinstance(r_, int) or isinstance(r_, bool) or len(seq_) > 24:
                    raise Unfoldable("combinations")
                return PySeq(PyTuple(c_) for c_ in _it.combinations(seq_, r_))
            if nm in ("itertools.product", "product") and node.args and all(k.arg == "repeat" for k in node.keywords):
                import itertools as _it

                seqs_ = []
                for a_ in node.args:
                    if isinstance(a_, ast.Starred):
                        many_ = self.fold(a_.value)
                        if not isinstance(many_, list):
                            raise Unfoldable("product")
                        seqs_.extend(many_)
                    else:
                        seqs_.append(self.fold(a_))
                rep_ = self.fold(node.keywords[0].value) if node.keywords else 1
                if not all(isinstance(q_, (list, str, range)) for q_ in seqs_) or not isinstance(rep_, int) or isinstance(rep_, bool):
                    raise Unfoldable("product of non-sequences")
                total_ = 1
                for q_ in seqs_:
                    total_ *= max(len(q_), 1)
                if total_ ** max(rep_, 1) > 100000:
                    raise Unfoldable("product too long")
                return PySeq(PyTuple(c_) for c_ in _it.product(*seqs_, repeat=rep_))
            if nm in ("itertools.chain.from_iterable", "chain.from_iterable") and len(node.args) == 1:
                outer = self.fold(node.args[0])
                if not isinstance(outer, list) or not all(isinstance(q, list) for q in outer):
                    raise Unfoldable("chain.from_iterable")
                return PySeq(x_ for q in outer for x_ in q)
            if nm == "zip" and node.args and not node.keywords:
                seqs = [self.fold(a) for a in node.args]
                if not all(isinstance(q, (list, str)) for q in seqs):
                    raise Unfoldable("zip of a non-sequence")
                return PySeq(PyTuple(t_) for t_ in zip(*seqs))
            if nm in ("any", "all") and len(node.args) == 1 and not node.keywords and isinstance(node.args[0], (ast.GeneratorExp, ast.ListComp)):
                vals = self.fold(node.args[0])
                return (any if nm == "any" else all)(truth(v_) for v_ in vals)
            if nm == "range" and 1 <= len(node.args) <= 3 and not node.keywords:
                a = [self.fold(x) for x in node.args]
                if all(isinstance(x, int) and not isinstance(x, bool) for x in a):
                    return PySeq(range(*a))
                raise Unfoldable("range bounds")
            if nm == "tuple" and len(node.args) == 1 and not node.keywords:
                v = self.fold(node.args[0])
                if isinstance(v, list):
                    return PyTuple(v)
                raise Unfoldable("tuple of a non-sequence")
            if nm in ("bin", "len", "reversed", "list", "str") and len(node.args) == 1 and not node.keywords:
                v = self.fold(node.args[0])
                if nm == "bin" and isinstance(v, int) and not isinstance(v, bool):
                    return bin(v)
                if nm == "len" and isinstance(v, (list, str)):
                    return len(v)
                if nm == "reversed" and isinstance(v, (list, str)):
                    return PySeq(reversed(v))
                if nm == "list" and isinstance(v, (list, str)):
                    return PySeq(v)
                if nm == "str" and isinstance(v, (int, str)) and not isinstance(v, bool):
                    return str(v)
                raise Unfoldable(f"call {nm}")
            if short == "bool" and nm == "bool" and node.args:
                v = self.fold(node.args[0])
                if isinstance(v, PySeq):
                    return len(v) > 0  # a python sequence (a shape, a tuple): true when not empty
                if isinstance(v, list):
                    raise Unfoldable("bool of a list")
                return bool(v)
            if nm == "round" and 1 <= len(node.args) <= 2 and not node.keywords:
                v = self.fold(node.args[0])
                nd_ = self.fold(node.args[1]) if len(node.args) == 2 else None
                if isinstance(v, (int, float)) and not isinstance(v, bool) and (nd_ is None or (isinstance(nd_, int) and not isinstance(nd_, bool))) and v == v and v not in (float("inf"), float("-inf")):
                    return round(v) if nd_ is None else round(v, nd_)  # python's round (half to even), as for a python number / .item()
                raise Unfoldable("round of a non-number")
            if nm == "float" and len(node.args) == 1 and isinstance(node.args[0], ast.Constant) and isinstance(node.args[0].value, str):
                try:
                    return float(node.args[0].value)
                except ValueError as exc:
                    raise Unfoldable(str(exc))
            if short in ("eq", "ne", "gt", "lt", "ge", "le") and nm.startswith("torch.") and len(node.args) == 2 and not node.keywords:
                op_ = {"eq": ast.Eq, "ne": ast.NotEq, "gt": ast.Gt, "lt": ast.Lt, "ge": ast.GtE, "le": ast.LtE}[short]()
                return self.fold(ast.Compare(left=node.args[0], ops=[op_], comparators=[node.args[1]]))
            if short in ("logical_and", "logical_or", "logical_xor") and nm.startswith("torch.") and len(node.args) == 2 and not node.keywords:
                a_, b_ = self.fold(node.args[0]), self.fold(node.args[1])
                if isinstance(a_, PySeq) or isinstance(b_, PySeq):
                    raise Unfoldable(f"{short} of python sequences")
                fn_ = {"logical_and": lambda x, y: int(bool(x) and bool(y)), "logical_or": lambda x, y: int(bool(x) or bool(y)), "logical_xor": lambda x, y: int(bool(x) != bool(y))}[short]
                r_ = _ew(fn_, a_, b_)
                return _mask(r_) if isinstance(r_, list) else bool(r_)
            if short == "logical_not" and nm.startswith("torch.") and len(node.args) == 1 and not node.keywords:
                a_ = self.fold(node.args[0])
                if isinstance(a_, PySeq):
                    raise Unfoldable("logical_not of a python sequence")
                r_ = _ew(lambda x: int(not bool(x)), a_)
                return _mask(r_) if isinstance(r_, list) else bool(r_)
            if short == "is_complex" and nm == "torch.is_complex" and len(node.args) == 1 and not node.keywords:
                return self.fold(ast.Call(func=ast.Attribute(value=node.args[0], attr="is_complex", ctx=ast.Load()), args=[], keywords=[]))
            if short == "equal" and nm == "torch.equal" and len(node.args) == 2 and not node.keywords:
                a_, b_ = self.fold(node.args[0]), self.fold(node.args[1])
                if isinstance(a_, PySeq) or isinstance(b_, PySeq):
                    raise Unfoldable("torch.equal of python sequences")

                def _eqv(x, y):
                    if isinstance(x, list) != isinstance(y, list):
                        return False
                    if isinstance(x, list):
                        return len(x) == len(y) and all(_eqv(p_, q_) for p_, q_ in zip(x, y))
                    return x == y

                return _eqv(a_, b_)
            if short == "view_as_real" and nm.startswith("torch.") and len(node.args) == 1 and not node.keywords:
                v_ = self.fold(node.args[0])

                def _anyc(z):
                    return any(_anyc(e) for e in z) if isinstance(z, list) else isinstance(z, complex)

                if isinstance(v_, PySeq) or not _anyc(v_):
                    raise Unfoldable("view_as_real of a non-complex value")
                return _vreal(v_)
            if short in ("real", "imag", "conj") and nm.startswith("torch.") and len(node.args) == 1 and not node.keywords:
                v_ = self.fold(node.args[0])
                if isinstance(v_, PySeq):
                    raise Unfoldable(f"{short} of a python sequence")
                fn_ = {"real": lambda x: x.real if isinstance(x, complex) else x, "imag": lambda x: x.imag if isinstance(x, complex) else (0 if isinstance(x, int) else 0.0), "conj": lambda x: x.conjugate() if isinstance(x, complex) else x}[short]
                return _ew(fn_, v_)
            if short in ("tensor", "as_tensor", "Tensor", "array", "float", "int") and node.args:
                v_ = self.fold(node.args[0])
                if short in ("tensor", "as_tensor", "Tensor", "array") and nm != short and isinstance(v_, PySeq):
                    # a tensor built from a python sequence is a tensor (nested lists), no longer a python sequence

                    def _plain(z):
                        return [_plain(e) for e in z] if isinstance(z, list) else z

                    v_ = _plain(v_)
                dk_ = next((k.value for k in node.keywords if k.arg == "dtype"), None)
                if dk_ is not None and short in ("tensor", "as_tensor", "array") and nm != short and isinstance(v_, (list, int, float, complex)) and not isinstance(v_, (bool, PySeq)):
                    try:
                        dn_ = self.fold(dk_)
                    except Unfoldable:
                        raise Unfoldable(f"tensor built with an unknown dtype `{unparse(dk_)[:40]}`")
                    if isinstance(dn_, str) and dn_.startswith("torch.") and dn_.split(".")[-1] in (REAL_DTYPES | INT_DTYPES | COMPLEX_DTYPES):
                        return apply_dtype(v_, dn_)
                return v_
            if short in ("cos", "sin", "sqrt", "exp", "abs") and node.args:
                f = {"cos": math.cos, "sin": math.sin, "sqrt": math.sqrt, "exp": lambda x: cmath.exp(x) if isinstance(x, complex) else math.exp(x), "abs": abs}[short]
                try:
                    return _ew(f, self.fold(node.args[0]))
                except (ValueError, OverflowError, TypeError) as exc:
                    raise Unfoldable(f"{short}: {exc}")
            if short == "complex" and len(node.args) == 2:
                return _ew(lambda x, y: complex(x, y), self.fold(node.args[0]), self.fold(node.args[1]))
            if short in ("zeros", "ones") and nm.startswith("torch."):
                if self.materialise and node.args:
                    dims = []
                    for a_ in node.args:
                        if isinstance(a_, ast.Starred):
                            t_ = self.fold(a_.value)
                            if not isinstance(t_, list):
                                raise Unfoldable("starred size")
                            dims.extend(t_)
                        else:
                            dims.append(self.fold(a_))
                    if len(dims) == 1 and isinstance(dims[0], list):
                        dims = dims[0]
                    if all(isinstance(d, int) and not isinstance(d, bool) and 0 <= d <= 4096 for d in dims):
                        fill = 0 if short == "zeros" else 1
                        if any(k.arg == "dtype" and unparse(k.value).split(".")[-1] == "bool" for k in node.keywords):
                            fill = bool(fill)

                            def _mkb(ds):
                                return BoolList([_mkb(ds[1:]) for _ in range(ds[0])]) if ds else fill

                            return _mkb(dims)

                        def _mk(ds):
                            return [_mk(ds[1:]) for _ in range(ds[0])] if ds else fill

                        return _mk(dims)
                return 0 if short == "zeros" else 1  # a constant tensor of any shape, as a broadcasting scalar
            if short == "full" and nm == "torch.full" and self.materialise and len(node.args) == 2 and all(k.arg in ("dtype", "device") for k in node.keywords):
                dims, fv = self.fold(node.args[0]), self.fold(node.args[1])
                dims = list(dims) if isinstance(dims, (list, tuple)) else [dims]
                dt_ = next((unparse(k.value).split(".")[-1] for k in node.keywords if k.arg == "dtype"), None)
                if not all(isinstance(d, int) and not isinstance(d, bool) and 0 <= d <= 4096 for d in dims) or isinstance(fv, (list, bool)) or not isinstance(fv, (int, float)):
                    raise Unfoldable("torch.full: sizes / fill value")
                if dt_ in ("long", "int64", "int32", "int", "int16", "int8", "uint8"):
                    fv = int(fv)
                elif dt_ in ("float", "float32", "float64", "double"):
                    fv = float(fv)
                elif dt_ is not None:
                    raise Unfoldable(f"torch.full: dtype {dt_}")

                def _mkf(ds):
                    return [_mkf(ds[1:]) for _ in range(ds[0])] if ds else fv

                return _mkf(dims)
            if short == "full_like" and len(node.args) == 2 and all(k.arg in ("dtype", "device") for k in node.keywords):
                # the fill value is created in the dtype of the first argument (or the dtype given): an integer tensor
                # truncates a fractional value, a boolean one keeps only its truth value
                like, fv = self.fold(node.args[0]), self.fold(node.args[1])
                if isinstance(fv, list) or not isinstance(fv, (int, float, complex, bool)):
                    raise Unfoldable("full_like with a non-scalar value")
                dk = next((k.value for k in node.keywords if k.arg == "dtype"), None)
                if dk is not None:
                    if not (isinstance(dk, ast.Attribute) and unparse(dk).startswith("torch.")):
                        raise Unfoldable("full_like with a computed dtype")
                    fv = apply_dtype(fv, unparse(dk))
                else:
                    leaves = []

                    def _lv(z):
                        if isinstance(z, list):
                            for y_ in z:
                                _lv(y_)
                        else:
                            leaves.append(z)

                    _lv(like)
                    if not leaves:
                        raise Unfoldable("full_like of an empty value")
                    if isinstance(like, BoolList) or all(isinstance(z, bool) for z in leaves):
                        return _mask(_ew(lambda x, b_=(1.0 if fv else 0.0): b_, like))
                    elif all(isinstance(z, int) and not isinstance(z, bool) for z in leaves):
                        if isinstance(fv, complex):
                            raise Unfoldable("complex fill of an integer tensor")
                        if fv != fv or fv in (float("inf"), float("-inf")):
                            raise Unfoldable("non-finite fill of an integer tensor")
                        fv = int(fv)
                    elif any(isinstance(z, complex) for z in leaves):
                        fv = complex(fv)
                    else:
                        fv = float(fv) if not isinstance(fv, complex) else fv
                return _ew(lambda x, fv=fv: fv, like)
            if short in ("zeros_like",) and node.args:
                return _ew(lambda x: 0.0, self.fold(node.args[0]))
            if short in ("ones_like",) and node.args:
                return _ew(lambda x: 1.0, self.fold(node.args[0]))
            if short in ("comb",) and len(node.args) == 2:
                import math as _m

                a, b = self.fold(node.args[0]), self.fold(node.args[1])
                return _m.comb(int(a), int(b))
            if short in ("min", "max") and node.args and not node.keywords:
                vals = [self.fold(a) for a in node.args]
                if nm.startswith("torch.") and len(vals) == 2:
                    return _ew((lambda x, y: min(x, y)) if short == "min" else (lambda x, y: max(x, y)), vals[0], vals[1])
                if len(vals) == 1 and isinstance(vals[0], list):
                    vals = list(vals[0])
                if not vals or any(isinstance(x, list) for x in vals):
                    raise Unfoldable("min/max of nested values")
                return (min if short == "min" else max)(vals)
            if short == "arange":
                args = [self.fold(a) for a in node.args]
                if all(isinstance(a, (int, float)) for a in args) and 1 <= len(args) <= 3:
                    start, stop, step = (0, args[0], 1) if len(args) == 1 else (args[0], args[1], args[2] if len(args) == 3 else 1)
                    out = []
                    v = start
                    while (step > 0 and v < stop) or (step < 0 and v > stop):
                        out.append(v)
                        v += step
                        if len(out) > 100000:
                            raise Unfoldable("arange too long")
                    return out
            raise Unfoldable(f"call {nm}")
        raise Unfoldable(type(node).__name__)


def straight_line_names(fi: FuncInfo, decide: Optional[Callable[[ast.expr], Optional[bool]]] = None) -> Dict[str, ast.AST]:
    """name -> defining expression for locals assigned on the path selected by `decide` (last definition wins)."""
    out: Dict[str, ast.AST] = {}

    def walk(body):
        for st in body:
            if isinstance(st, ast.If):
                d = decide(st.test) if decide else None
                if d is True:
                    walk(st.body)
                elif d is False:
                    walk(st.orelse)
                else:
                    pass  # undecided branches do not contribute literal definitions
            elif isinstance(st, ast.Assign) and len(st.targets) == 1 and isinstance(st.targets[0], ast.Name):
                out[st.targets[0].id] = st.value
            elif isinstance(st, ast.AnnAssign) and isinstance(st.target, ast.Name) and st.value is not None:
                out[st.target.id] = st.value

    walk(fi.body)
    return out


def registered_buffers(fi: FuncInfo, decide=None) -> Dict[str, ast.AST]:
    """buffer name -> value expression for `self.register_buffer("name", expr)` on the selected path."""
    out: Dict[str, ast.AST] = {}

    def walk(body):
        for st in body:
            if isinstance(st, ast.If):
                d = decide(st.test) if decide else None
                if d is not False:
                    walk(st.body)
                if d is not True:
                    walk(st.orelse)
            elif isinstance(st, ast.Expr) and isinstance(st.value, ast.Call) and attr_chain(st.value.func) == "self.register_buffer" and len(st.value.args) >= 2 and isinstance(st.value.args[0], ast.Constant):
                out[st.value.args[0].value] = st.value.args[1]

    walk(fi.body)
    return out
