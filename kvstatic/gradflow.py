"""Engine D - gradient-flow analysis: is the returned tensor connected to the signal parameter by an
unbroken autograd graph, and is any tensor that autograd saved for the backward pass modified in place?

Abstract value ``GV``:
  kind  'D'  differentiably dependent on the signal parameter (connected autograd graph)
        'K'  independent of the signal (configuration, noise, shapes, python numbers)
        'M'  piecewise constant in the signal (comparisons, integer casts, round/sign/argmax ...)
        'B'  depends on the signal but the graph is severed (.item(), .detach(), .data, float(),
             torch.tensor(...), numpy round trips, torch.no_grad()) - carries the severing site
        'T'  tuple/list (items)    'F' closure / lambda    'N' None
  tok   storage identity: views (.real, .imag, reshape, basic indexing ...) keep the token of their base
  deps  saved-tensor records (site, saved token) of the ops between the signal and this value
  tensor  True / False / None (unknown) - only tensors can be modified in place

Arithmetic: any B operand -> B; else any D -> D; else any M -> M; else K.
Saved tensors follow the autograd formulas of the ops the repository uses (table below):
``a*b`` saves b when a needs grad and a when b needs grad; abs/log/sin/cos/angle/clamp/norm/pow save their
input, sqrt/exp/sigmoid/tanh save their result, add/sub/neg/sum/mean/reshape/cat/stack/where-branches save nothing.
An in-place event on token T (augmented assignment, subscript store, trailing-underscore method, out=) is a
violation when T is the signal parameter's storage, or when a returned value depends on a site that saved T
and the site is not after / exclusive with the event.
"""
from __future__ import annotations

import ast
from typing import Any, Dict, FrozenSet, List, Optional, Tuple

from .absint import Env, Interp, _Flow
from .astutil import ancestors, attr_chain, call_name, set_parents, unparse
from .core import ClassInfo, FuncInfo, Repo

Dep = Tuple[int, str]  # (id of saving site node, saved token)


class GV:
    __slots__ = ("kind", "tok", "deps", "why", "items", "tensor", "fn")

    def __init__(self, kind: str, tok: str = "", deps: FrozenSet[Dep] = frozenset(), why: str = "", items=None, tensor: Optional[bool] = None, fn=None):
        self.kind, self.tok, self.deps, self.why, self.items, self.tensor, self.fn = kind, tok, deps, why, items, tensor, fn

    def __eq__(self, o):
        return isinstance(o, GV) and (self.kind, self.tok, self.deps, self.why, self.tensor) == (o.kind, o.tok, o.deps, o.why, o.tensor) and self.items == o.items

    def __hash__(self):
        return hash((self.kind, self.tok))

    def show(self):
        if self.kind == "T":
            return "(" + ", ".join(i.show() for i in self.items or ()) + ")"
        return {"D": "differentiable in the signal", "K": "independent of the signal", "M": "piecewise constant in the signal", "B": f"graph severed: {self.why}", "F": "callable", "N": "None"}[self.kind]


KPY = GV("K", tensor=False)
KUNK = GV("K", tensor=None)
NONE_V = GV("N", tensor=False)

VIEW_METHODS = {"view", "reshape", "squeeze", "unsqueeze", "expand", "expand_as", "flatten", "contiguous", "t", "transpose", "permute", "narrow", "select", "view_as", "reshape_as", "movedim", "swapaxes", "ravel", "unflatten", "diagonal", "conj", "requires_grad_", "to", "type", "float", "double", "cfloat", "cdouble", "cpu", "cuda", "type_as"}
VIEW_FUNCS = {"torch.reshape", "torch.squeeze", "torch.unsqueeze", "torch.flatten", "torch.transpose", "torch.permute", "torch.view_as_real", "torch.view_as_complex", "torch.real", "torch.imag", "torch.conj", "torch.atleast_1d", "torch.atleast_2d", "torch.movedim"}
VIEW_ATTRS = {"real", "imag", "T", "mT", "H", "mH"}
META_ATTRS = {"shape", "dtype", "device", "ndim", "is_cuda", "requires_grad", "grad", "grad_fn", "is_leaf", "layout", "names", "itemsize", "nbytes", "in_features", "out_features"}
META_CALLS = {"numel", "dim", "size", "ndimension", "is_complex", "is_floating_point", "len", "is_tensor", "nelement", "element_size", "get_device", "isinstance", "hasattr", "callable", "type", "range", "tuple_of_ints"}
SEVER_METHODS = {"item": ".item() returns a python number", "tolist": ".tolist() returns python numbers", "numpy": ".numpy() leaves autograd", "detach": ".detach() cuts the graph", "detach_": ".detach_() cuts the graph"}
SEVER_BUILTINS = {"float", "int", "complex", "bool"}
REWRAP = {"torch.tensor", "torch.as_tensor", "torch.Tensor", "torch.FloatTensor", "torch.DoubleTensor", "torch.from_numpy", "np.array", "np.asarray", "numpy.array", "numpy.asarray", "torch.scalar_tensor"}
PIECEWISE = {"long", "int", "bool", "byte", "short", "char", "round", "floor", "ceil", "trunc", "sign", "argmax", "argmin", "argsort", "heaviside", "isfinite", "isnan", "isinf", "eq", "ne", "gt", "lt", "ge", "le", "any", "all", "nonzero", "count_nonzero", "isclose", "allclose", "equal", "logical_and", "logical_or", "logical_not", "logical_xor", "floor_divide", "bucketize", "searchsorted", "topk_indices"}
FRESH_K = {"randn", "randn_like", "rand", "rand_like", "randint", "randint_like", "zeros", "ones", "zeros_like", "ones_like", "empty", "empty_like", "full", "full_like", "arange", "linspace", "eye", "normal", "bernoulli_like", "randperm"}
# ops whose backward formula needs the INPUT tensor(s) / the RESULT tensor
SAVE_INPUT = {"abs", "absolute", "pow", "square", "log", "log2", "log10", "log1p", "sin", "cos", "tan", "sinh", "cosh", "asin", "acos", "atan", "atan2", "angle", "clamp", "clip", "clamp_min", "clamp_max", "norm", "var", "std", "amax", "amin", "polar", "prod", "erf", "softplus", "leaky_relu", "gelu", "elu", "selu", "silu", "hardtanh", "normalize", "matmul", "mm", "bmm", "dot", "einsum", "mul", "multiply", "div", "divide", "true_divide", "linear", "conv1d", "conv2d", "sgn", "sinc", "lerp", "addcmul", "addcdiv", "dist", "cdist", "vector_norm", "logsumexp", "max", "min", "maximum", "minimum", "reciprocal", "rsqrt", "sqrt_input_none"}
SAVE_RESULT = {"sqrt", "exp", "exp2", "expm1", "sigmoid", "tanh", "softmax", "log_softmax", "reciprocal", "rsqrt", "relu", "norm", "prod", "cumprod", "logsumexp", "amax", "amin", "max", "min", "vector_norm"}
NO_SAVE = {"add", "sub", "neg", "sum", "mean", "cat", "stack", "clone", "complex", "where", "masked_fill", "gather", "index_select", "roll", "flip", "repeat", "tile", "pad", "chunk", "split", "unbind", "cumsum", "fft", "ifft", "real", "imag", "nan_to_num", "broadcast_to", "expand", "type_as", "zeros_like"}


class GradFlow(Interp):
    MAX_ITER = 3

    def __init__(self, fi: FuncInfo, repo: Repo, cls: Optional[ClassInfo] = None, depth: int = 0, shared=None):
        super().__init__(fi)
        self.repo = repo
        self.cls = cls or fi.cls
        self.depth = depth
        set_parents(fi.node)
        if shared is None:
            shared = {"inplace": [], "sites": {}, "tests": {}, "unknown_calls": [], "nograd": 0, "seq": 0}
        self.sh = shared
        self.nograd_fn = any("no_grad" in unparse(d) or "inference_mode" in unparse(d) for d in fi.node.decorator_list)

    # ---- lattice -----------------------------------------------------------
    def top(self):
        return KUNK

    def unbound(self, name, node, env):
        if name in ("None",):
            return NONE_V
        return KUNK

    def join(self, a, b):
        if a is None:
            return b
        if b is None:
            return a
        if a == b:
            return a
        if a.kind == "N":
            return b
        if b.kind == "N":
            return a
        if a.kind == "T" and b.kind == "T" and a.items is not None and b.items is not None and len(a.items) == len(b.items):
            return GV("T", items=tuple(self.join(x, y) for x, y in zip(a.items, b.items)), tensor=False)
        if a.kind == "F" or b.kind == "F":
            return a if a.kind == "F" else b
        order = {"B": 3, "D": 2, "M": 1, "K": 0, "T": 0}
        hi = a if order.get(a.kind, 0) >= order.get(b.kind, 0) else b
        lo = b if hi is a else a
        tensor = True if (a.tensor and b.tensor) else (None if (a.tensor is None or b.tensor is None or a.tensor != b.tensor) else a.tensor)
        kind = hi.kind if hi.kind != "T" else "K"
        # a join of two storages keeps the first token (both are recorded for in-place purposes by deps)
        return GV(kind, hi.tok or lo.tok, a.deps | b.deps, hi.why or lo.why, tensor=tensor if tensor is not None else (True if hi.tensor else None))

    def join_missing(self, v, key):
        return v

    # ---- helpers -------------------------------------------------------------
    def mk(self, node: ast.AST, operands: List[GV], saved: List[GV] = (), save_result: bool = False, tensor: Optional[bool] = True, view_of: Optional[GV] = None) -> GV:
        ops = []
        for o in operands:
            if o is None:
                continue
            if o.kind == "T":
                ops += list(o.items or ())
            else:
                ops.append(o)
        kinds = {o.kind for o in ops}
        deps: FrozenSet[Dep] = frozenset().union(*[o.deps for o in ops]) if ops else frozenset()
        why = next((o.why for o in ops if o.kind == "B"), "")
        kind = "B" if "B" in kinds else "D" if "D" in kinds else "M" if "M" in kinds else "K"
        tok = view_of.tok if view_of is not None else f"n{id(node)}"
        if kind == "D":
            extra = set()
            for s in saved:
                if s is not None and s.tok and s.tensor is not False:
                    extra.add((id(node), s.tok))
            if save_result:
                extra.add((id(node), tok))
            if extra:
                self.sh["seq"] += 1
                self.sh["sites"].setdefault(id(node), (node, self.sh["seq"]))
                deps = deps | frozenset(extra)
            if self.sh["nograd"] or self.nograd_fn:
                return GV("B", tok, frozenset(), f"`{unparse(node)[:70]}` is computed under torch.no_grad() (line {getattr(node, 'lineno', '?')})", tensor=tensor)
        else:
            deps = frozenset() if kind in ("K", "M") else deps
        if tensor is True and not any(o.tensor for o in ops) and kind == "K" and not (call_name(node) or "").startswith("torch."):
            tensor = None if any(o.tensor is None for o in ops) else False
        return GV(kind, tok, deps, why, tensor=tensor)

    def sever(self, node: ast.AST, v: GV, how: str, tensor: Optional[bool]) -> GV:
        if v.kind == "D":
            return GV("B", f"n{id(node)}", frozenset(), f"{how} at line {getattr(node, 'lineno', '?')}: `{unparse(node)[:70]}`", tensor=tensor)
        if v.kind == "B":
            return GV("B", f"n{id(node)}", frozenset(), v.why, tensor=tensor)
        return GV(v.kind, f"n{id(node)}", frozenset(), "", tensor=tensor)

    def inplace(self, node: ast.AST, target: GV, how: str):
        if target is None or target.kind in ("N", "F", "T"):
            return
        if target.tensor is False or (target.tensor is None and target.kind == "K"):
            return
        self.sh["seq"] += 1
        self.sh["inplace"].append((node, target.tok, how, self.fi, self.sh["seq"]))

    # ---- expressions ---------------------------------------------------------
    def eval_Constant(self, node, env):
        return NONE_V if node.value is None else KPY

    def eval_JoinedStr(self, node, env):
        return KPY

    def eval_Dict(self, node, env):
        for v in node.values:
            if v is not None:
                self.eval(v, env)
        return KUNK

    def eval_Lambda(self, node, env):
        return GV("F", fn=(node, dict(env)), tensor=False)

    def closure(self, st, env):
        return GV("F", fn=(st, env), tensor=False)

    def collection(self, vals, node, env):
        return GV("T", items=tuple(vals), tensor=False)

    def unpack(self, value, n, node):
        if value is not None and value.kind == "T" and value.items is not None and len(value.items) == n:
            return list(value.items)
        if value is not None and value.kind == "T":
            j = None
            for i in value.items or ():
                j = self.join(j, i)
            return [j or KUNK] * n
        return [value] * n

    def iter_element(self, iterable_val, node, env):
        if iterable_val is not None and iterable_val.kind == "T":
            j = None
            for i in iterable_val.items or ():
                j = self.join(j, i)
            return j or KUNK
        if iterable_val is not None and iterable_val.kind in ("D", "B", "M"):
            return GV(iterable_val.kind, iterable_val.tok, iterable_val.deps, iterable_val.why, tensor=True)
        return KUNK

    def attribute(self, node, base, env):
        ch = attr_chain(node)
        if ch is not None and ch in env:
            return env[ch]
        if node.attr in META_ATTRS:
            return KPY
        if base is None:
            return KUNK
        if node.attr in VIEW_ATTRS:
            return GV(base.kind, base.tok, base.deps, base.why, tensor=base.tensor)
        if node.attr == "data":
            return self.sever(node, base, ".data bypasses autograd", True)
        if base.kind in ("D", "B", "M"):
            return GV(base.kind, base.tok, base.deps, base.why, tensor=None)
        return KUNK

    def eval_Subscript(self, node, env):
        base = self.eval(node.value, env)
        idx = self.eval(node.slice, env)
        if base is None:
            return KUNK
        if base.kind == "T":
            if isinstance(node.slice, ast.Constant) and isinstance(node.slice.value, int) and base.items and -len(base.items) <= node.slice.value < len(base.items):
                return base.items[node.slice.value]
            return self.iter_element(base, node, env)

        def basic(n):
            if isinstance(n, ast.Tuple):
                return all(basic(e) for e in n.elts)
            if isinstance(n, ast.Slice):
                return True
            if isinstance(n, ast.Constant):
                return True
            if isinstance(n, ast.UnaryOp):
                return True
            return False

        if basic(node.slice):
            return GV(base.kind, base.tok, base.deps, base.why, tensor=base.tensor)
        if base.kind in ("D", "B", "M"):
            # advanced / variable index: a gather (fresh storage); an int variable index gives a view - keep the
            # base token when the index is not a tensor (conservative for in-place purposes)
            keep = idx is not None and idx.tensor is False
            return GV(base.kind, base.tok if keep else f"n{id(node)}", base.deps, base.why, tensor=base.tensor)
        return GV(base.kind, base.tok, base.deps, base.why, tensor=base.tensor)

    def eval_BinOp(self, node, env):
        a = self.eval(node.left, env)
        b = self.eval(node.right, env)
        saved: List[GV] = []
        res = False
        if isinstance(node.op, (ast.Mult, ast.MatMult)):
            if a.kind == "D":
                saved.append(b)
            if b.kind == "D":
                saved.append(a)
        elif isinstance(node.op, ast.Div):
            if a.kind == "D":
                saved.append(b)
            if b.kind == "D":
                saved += [a, b]
                if a.kind == "D" and not self._floored(node.right, 0):
                    self.sh.setdefault("unguarded_div", []).append((node, self.fi))
        elif isinstance(node.op, ast.Pow):
            if a.kind == "D":
                saved.append(a)
                res = b.tensor is True
            if b.kind == "D":
                saved.append(a)
                res = True
        elif isinstance(node.op, (ast.FloorDiv, ast.Mod)):
            if "D" in (a.kind, b.kind) and isinstance(node.op, ast.FloorDiv):
                v = self.mk(node, [a, b])
                return GV("M" if v.kind == "D" else v.kind, v.tok, frozenset(), v.why, tensor=v.tensor)
        return self.mk(node, [a, b], saved=saved, save_result=res, tensor=True if (a.tensor or b.tensor) else (None if (a.tensor is None or b.tensor is None) else False))

    def _floored(self, e: ast.AST, depth: int) -> bool:
        """Is the expression bounded away from zero by construction (`v + eps`, clamp(min=eps), maximum(v, eps))?"""
        if isinstance(e, ast.BinOp) and isinstance(e.op, ast.Add):
            for side in (e.left, e.right):
                if isinstance(side, ast.Constant) and isinstance(side.value, (int, float)) and side.value > 0:
                    return True
                if isinstance(side, ast.Attribute) and "eps" in side.attr:
                    return True
                if isinstance(side, ast.Name) and "eps" in side.id.lower():
                    return True
            return self._floored(e.left, depth) and self._floored(e.right, depth)
        if isinstance(e, ast.Call):
            nm = call_name(e) or ""
            short = nm.split(".")[-1] if nm else (e.func.attr if isinstance(e.func, ast.Attribute) else "")
            if isinstance(e.func, ast.Attribute):
                short = e.func.attr
            if short in ("clamp", "clip", "clamp_min"):
                mn = next((k.value for k in e.keywords if k.arg == "min"), None)
                if mn is None and short == "clamp_min" and e.args:
                    mn = e.args[-1]
                if mn is None and len(e.args) >= (2 if nm.startswith("torch.") else 1):
                    mn = e.args[1 if nm.startswith("torch.") else 0]
                return isinstance(mn, ast.Constant) and isinstance(mn.value, (int, float)) and mn.value > 0 or (isinstance(mn, ast.Name) and "eps" in mn.id.lower())
            if short in ("maximum", "max") and len(e.args) == 2:
                return any(isinstance(a_, ast.Constant) and isinstance(a_.value, (int, float)) and a_.value > 0 for a_ in e.args) or any(self._floored(a_, depth) for a_ in e.args)
            if short in ("sqrt", "abs", "exp") and e.args:
                return short == "exp" or self._floored(e.args[0], depth)
            if short == "sqrt" and isinstance(e.func, ast.Attribute):
                return self._floored(e.func.value, depth)
        if isinstance(e, ast.Name) and depth < 4:
            defs = [s_.value for s_ in ast.walk(self.fi.node) if isinstance(s_, ast.Assign) and any(isinstance(t, ast.Name) and t.id == e.id for t in s_.targets)]
            return bool(defs) and all(self._floored(d, depth + 1) for d in defs)
        if isinstance(e, ast.Constant) and isinstance(e.value, (int, float)):
            return e.value != 0
        return False

    def eval_UnaryOp(self, node, env):
        v = self.eval(node.operand, env)
        if isinstance(node.op, ast.Not):
            return GV("M" if v.kind in ("D", "M", "B") else "K", tensor=False)
        if isinstance(node.op, ast.Invert):
            return GV(v.kind if v.kind != "D" else "M", f"n{id(node)}", tensor=v.tensor)
        return self.mk(node, [v], tensor=v.tensor)

    def eval_Compare(self, node, env):
        vals = [self.eval(node.left, env)] + [self.eval(c, env) for c in node.comparators]
        if all(isinstance(op, (ast.Is, ast.IsNot, ast.In, ast.NotIn)) for op in node.ops):
            return KPY
        dep = any(v is not None and v.kind in ("D", "M", "B") for v in vals)
        return GV("M" if dep else "K", f"n{id(node)}", tensor=True if any(v is not None and v.tensor for v in vals) else False)

    def eval_BoolOp(self, node, env):
        vals = [self.eval(v, env) for v in node.values]
        dep = any(v is not None and v.kind in ("D", "M", "B") for v in vals)
        return GV("M" if dep else "K", tensor=False)

    def eval_IfExp(self, node, env):
        self.decide(node.test, env)
        return self.join(self.eval(node.body, env), self.eval(node.orelse, env))

    # ---- calls -------------------------------------------------------------------
    def eval_Call(self, node: ast.Call, env):
        name = call_name(node) or ""
        short = name.split(".")[-1] if name else (node.func.attr if isinstance(node.func, ast.Attribute) else "")
        lib = name.startswith(("torch.", "F.", "math.", "np.", "numpy.", "nn.", "cmath."))
        is_method = isinstance(node.func, ast.Attribute) and not lib
        recv = self.eval(node.func.value, env) if is_method else None
        args = [self.eval(a.value if isinstance(a, ast.Starred) else a, env) for a in node.args]
        kw = {k.arg: self.eval(k.value, env) for k in node.keywords if k.arg}
        for k in node.keywords:
            if k.arg is None:
                self.eval(k.value, env)
        allv = ([recv] if recv is not None else []) + args + list(kw.values())
        first = recv if is_method else (args[0] if args else None)

        if name in ("torch.no_grad", "torch.inference_mode", "torch.set_grad_enabled"):
            return GV("K", why="NOGRAD", tensor=False)
        if name == "torch.enable_grad":
            return KPY
        if short in META_CALLS and (lib or not is_method or short in ("numel", "dim", "size", "ndimension", "is_complex", "is_floating_point", "nelement", "element_size", "get_device")):
            return KPY
        if name in ("torch.is_complex", "torch.is_tensor", "torch.is_floating_point", "torch.numel"):
            return KPY
        # sampling: a draw whose *parameters* depend on the signal carries no gradient to them unless it is reparameterised
        if name.startswith("torch.distributions.") or (short in ("Normal", "Laplace", "Uniform", "Gamma", "Exponential", "MultivariateNormal", "Cauchy", "StudentT") and (lib or not is_method)):
            v = self.mk(node, allv, tensor=False)
            self.sh.setdefault("dist_toks", set()).add(v.tok)
            return v
        if is_method and short in ("sample", "sample_n") and recv is not None and recv.tok in self.sh.get("dist_toks", ()):
            if recv.kind in ("D", "B"):
                return self.sever(node, recv, "Distribution.sample() is not reparameterised: no gradient flows to the distribution's parameters (rsample() keeps the path)", tensor=True)
            return GV("K", f"n{id(node)}", tensor=True)
        if lib and short in ("normal", "poisson", "bernoulli", "multinomial") and any(v is not None and v.kind in ("D", "B") for v in allv):
            return self.sever(node, GV("D"), f"{name}() draws with signal-dependent parameters outside autograd", tensor=True)
        # severing operations
        if is_method and short in SEVER_METHODS and recv is not None:
            return self.sever(node, recv, SEVER_METHODS[short], tensor=short.startswith("detach"))
        if not is_method and name in SEVER_BUILTINS and args:
            return self.sever(node, args[0], f"{name}() converts the tensor to a python number", tensor=False)
        if name in REWRAP and args:
            flat = self.mk(node, [args[0]], tensor=True)
            if flat.kind in ("D", "B"):
                return self.sever(node, GV("D") if flat.kind == "D" else flat, f"{name}(...) re-wraps the value in a new leaf tensor", tensor=True)
            return GV(flat.kind, f"n{id(node)}", tensor=True)
        if (name.startswith(("np.", "numpy.")) or short in ("numpy",)) and any(v.kind in ("D", "B") for v in allv if v is not None):
            return self.sever(node, GV("D"), f"{name}() computes outside autograd", tensor=False)
        # piecewise-constant operations
        if short in PIECEWISE and (is_method or lib):
            v = self.mk(node, allv)
            if v.kind == "D":
                return GV("M", v.tok, frozenset(), "", tensor=True)
            return GV(v.kind, v.tok, frozenset(), v.why, tensor=True if lib or (recv is not None and recv.tensor) else v.tensor)
        if (lib and short in FRESH_K) or (is_method and short in ("new_zeros", "new_ones", "new_empty", "new_full", "new_tensor")):
            return GV("K", f"n{id(node)}", tensor=True)
        # in-place forms
        if "out" in kw and kw["out"] is not None:
            self.inplace(node, kw["out"], "out= argument")
        if short.endswith("_") and not short.startswith("__") and short not in ("requires_grad_", "retain_grad_", "detach_") and (is_method or lib) and first is not None:
            self.inplace(node, first, f"in-place {'method' if is_method else 'function'} {short}()")
            v = self.mk(node, allv, view_of=first)
            return v
        # callables of the analysed program
        if isinstance(node.func, ast.Name) and node.func.id in env and env[node.func.id] is not None and env[node.func.id].kind == "F":
            return self.call_closure(env[node.func.id], args, kw, node)
        if name in ("torch.vmap", "torch.func.vmap", "functorch.vmap") and args and args[0] is not None and args[0].kind == "F":
            return args[0]
        if name.startswith("self.") and name.count(".") == 1 and self.cls is not None:
            callee = self.cls.find_method(short)
            if callee is not None and self.depth < 4:
                return self.call_repo(callee, args, kw, True, node)
        if name and "." not in name:
            try:
                tgt = self.repo.resolve_name(self.fi.module, name)
            except Exception:
                tgt = None
            if isinstance(tgt, FuncInfo) and self.depth < 4:
                return self.call_repo(tgt, args, kw, False, node)
        # a fixed narrower dtype forced onto the signal itself (float64 / complex128 inputs lose precision)
        if is_method and recv is not None and recv.kind == "D" and recv.tok.startswith("param:"):
            narrow = short in ("float", "half", "cfloat", "bfloat16", "chalf")
            if short in ("to", "type"):
                for a_ in list(node.args) + [k.value for k in node.keywords if k.arg == "dtype"]:
                    if attr_chain(a_) in ("torch.float", "torch.float32", "torch.cfloat", "torch.complex64", "torch.half", "torch.float16", "torch.bfloat16", "torch.complex32"):
                        narrow = True
            if narrow:
                self.sh.setdefault("narrowing", []).append((node, self.fi))
        # views
        if is_method and short in VIEW_METHODS and recv is not None:
            v = self.mk(node, [recv], view_of=recv, tensor=recv.tensor if recv.tensor is not None else None)
            return v
        if name in VIEW_FUNCS and args:
            return self.mk(node, [args[0]], view_of=args[0], tensor=True)
        if is_method and short in ("clone", "copy"):
            return self.mk(node, [recv], tensor=recv.tensor if recv is not None else None)
        # ordinary differentiable operations with their saved tensors
        saved: List[GV] = []
        res = False
        if short in SAVE_INPUT:
            tens = [v for v in allv if v is not None and v.kind != "N"]
            if short in ("mul", "multiply", "matmul", "mm", "bmm", "dot", "div", "divide", "true_divide", "atan2", "polar", "maximum", "minimum", "einsum", "lerp", "linear"):
                flat = []
                for v in tens:
                    flat += list(v.items) if v.kind == "T" and v.items else [v]
                for v in flat:
                    if any(o is not v and o.kind == "D" for o in flat) or (short in ("div", "divide", "true_divide", "atan2", "polar") and v.kind == "D"):
                        saved.append(v)
            elif first is not None:
                saved.append(first)
        if short in SAVE_RESULT:
            res = True
        if short == "where" and lib and args:
            saved.append(args[0])
            return self.mk(node, args[1:] + list(kw.values()), saved=saved, tensor=True)
        tensor: Optional[bool] = True if (lib and not name.startswith(("math.", "cmath."))) or (recv is not None and recv.tensor) else None
        if name.startswith(("math.", "cmath.")):
            v = self.mk(node, allv, tensor=False)
            if v.kind == "D":
                return self.sever(node, v, f"{name}() works on python numbers", tensor=False)
            return v
        if not lib and not is_method and name:
            self.sh["unknown_calls"].append((node, name))
        return self.mk(node, allv, saved=saved, save_result=res, tensor=tensor)

    def _bind(self, callee_params: List[str], defaults: Dict[str, ast.AST], args, kw, vararg: Optional[str], kwarg: Optional[str]) -> Env:
        env: Env = {}
        for p, a in zip(callee_params, args):
            env[p] = a
        for k, v in kw.items():
            if k in callee_params:
                env[k] = v
        for p in callee_params:
            if p not in env:
                d = defaults.get(p)
                env[p] = NONE_V if isinstance(d, ast.Constant) and d.value is None else (KPY if d is not None else KUNK)
        if vararg:
            env[vararg] = GV("T", items=tuple(args[len(callee_params):]), tensor=False)
        if kwarg:
            env[kwarg] = KUNK
        return env

    @staticmethod
    def _sig(fn: ast.AST, bound: bool):
        a = fn.args
        names = [x.arg for x in a.posonlyargs + a.args]
        defaults: Dict[str, ast.AST] = {}
        for n, d in zip(reversed(names), reversed(a.defaults)):
            defaults[n] = d
        for x, d in zip(a.kwonlyargs, a.kw_defaults):
            names.append(x.arg)
            if d is not None:
                defaults[x.arg] = d
        if bound and names and names[0] in ("self", "cls"):
            names = names[1:]
        return names, defaults, (a.vararg.arg if a.vararg else None), (a.kwarg.arg if a.kwarg else None)

    def call_repo(self, callee: FuncInfo, args, kw, bound: bool, node) -> GV:
        names, defaults, va, kwa = self._sig(callee.node, bound)
        env = self._bind(names, defaults, args, kw, va, kwa)
        sub = GradFlow(callee, self.repo, cls=self.cls if bound else callee.cls, depth=self.depth + 1, shared=self.sh)
        sub.run(env)
        out = None
        for v, _r, _e in sub.returns:
            out = self.join(out, v)
        return out if out is not None else NONE_V

    def call_closure(self, f: GV, args, kw, node) -> GV:
        fn, cenv = f.fn
        if isinstance(fn, ast.Lambda):
            names, defaults, va, kwa = self._sig(fn, False)
            e = dict(cenv)
            e.update(self._bind(names, defaults, args, kw, va, kwa))
            return self.eval(fn.body, e)
        if self.depth >= 4:
            return self.mk(node, args + list(kw.values()))
        names, defaults, va, kwa = self._sig(fn, False)
        e = dict(cenv)
        e.update(self._bind(names, defaults, args, kw, va, kwa))
        sub = GradFlow(FuncInfo(self.fi.module, fn, self.fi.cls), self.repo, cls=self.cls, depth=self.depth + 1, shared=self.sh)
        sub.run(e)
        out = None
        for v, _r, _e in sub.returns:
            out = self.join(out, v)
        return out if out is not None else NONE_V

    # ---- statements --------------------------------------------------------------
    def decide(self, test, env):
        v = self.eval(test, env)
        self.sh["tests"][id(test)] = v.kind if v is not None else "K"
        # isinstance / is-None dispatch on values whose nature is known
        return self._isinstance(test, env)

    def _isinstance(self, test, env) -> Optional[bool]:
        if isinstance(test, ast.UnaryOp) and isinstance(test.op, ast.Not):
            d = self._isinstance(test.operand, env)
            return None if d is None else (not d)
        if isinstance(test, ast.BoolOp):
            ds = [self._isinstance(v, env) for v in test.values]
            if isinstance(test.op, ast.Or):
                return True if any(d is True for d in ds) else (False if all(d is False for d in ds) else None)
            return False if any(d is False for d in ds) else (True if all(d is True for d in ds) else None)
        if isinstance(test, ast.Call) and call_name(test) == "isinstance" and len(test.args) == 2:
            v = self.eval(test.args[0], env)
            types = unparse(test.args[1])
            if v is None:
                return None
            if v.tensor is True or v.kind in ("D", "M"):
                return "Tensor" in types
            if v.tensor is False and v.kind != "N" and "Tensor" in types and "float" not in types and "int" not in types:
                return False
        if isinstance(test, ast.Compare) and len(test.ops) == 1 and isinstance(test.ops[0], (ast.Is, ast.IsNot)) and isinstance(test.comparators[0], ast.Constant) and test.comparators[0].value is None:
            v = self.eval(test.left, env)
            if v is not None and v.kind == "N":
                return isinstance(test.ops[0], ast.Is)
            if v is not None and v.kind in ("D", "B", "M"):
                return isinstance(test.ops[0], ast.IsNot)
        return None

    def store_subscript(self, target, value, env, stmt):
        base = self.eval(target.value, env)
        self.inplace(stmt, base, "subscript store")
        key = self.lvalue_key(target.value)
        if key is not None and base is not None and value is not None:
            j = self.mk(stmt, [base, value], view_of=base, tensor=base.tensor)
            env[key] = j

    def aug_store_subscript(self, target, value, env, stmt):
        self.store_subscript(target, value, env, stmt)

    def stmt_AugAssign(self, st, env):
        v = self.eval(st.value, env)
        if isinstance(st.target, ast.Name):
            cur = env.get(st.target.id)
            if cur is None:
                cur = KUNK
            self.inplace(st, cur, f"augmented assignment `{unparse(st)[:60]}` (in place for tensors)")
            saved: List[GV] = []
            if isinstance(st.op, (ast.Mult, ast.Div, ast.MatMult)):
                if cur.kind == "D":
                    saved.append(v)
                if v.kind == "D":
                    saved.append(cur)
            env[st.target.id] = self.mk(st, [cur, v], saved=saved, view_of=cur if cur.tensor else None, tensor=cur.tensor if cur.tensor is not None else v.tensor)
            return _Flow(env)
        if isinstance(st.target, ast.Subscript):
            self.eval(st.target.slice, env)
            self.store_subscript(st.target, v, env, st)
            return _Flow(env)
        if isinstance(st.target, ast.Attribute):
            ch = attr_chain(st.target)
            cur = env.get(ch) if ch else None
            if ch:
                env[ch] = self.mk(st, [cur or KUNK, v], tensor=None)
        return _Flow(env)

    def stmt_With(self, st, env):
        ng = 0
        for it in st.items:
            v = self.eval(it.context_expr, env)
            if v is not None and v.why == "NOGRAD":
                ng += 1
            if it.optional_vars is not None:
                self.bind_target(it.optional_vars, v, env, st)
        self.sh["nograd"] += ng
        try:
            return self.exec_block(st.body, env)
        finally:
            self.sh["nograd"] -= ng

    def stmt_Assert(self, st, env):
        self.eval(st.test, env)
        return _Flow(env)


# ---------------------------------------------------------------------------
# verdicts
# ---------------------------------------------------------------------------

def _exclusive(a: ast.AST, b: ast.AST) -> bool:
    """True when a and b sit in different arms of one if-statement."""
    anc_a = list(ancestors(a))
    anc_b = list(ancestors(b))
    for x in anc_a:
        if isinstance(x, ast.If) and x in anc_b:
            in_body_a = any(a is n or a in list(ast.walk(n)) for n in x.body)
            in_body_b = any(b is n or b in list(ast.walk(n)) for n in x.body)
            in_else_a = any(a is n or a in list(ast.walk(n)) for n in x.orelse)
            in_else_b = any(b is n or b in list(ast.walk(n)) for n in x.orelse)
            if (in_body_a and in_else_b) or (in_else_a and in_body_b):
                return True
    return False


def _common_loop(a: ast.AST, b: ast.AST) -> bool:
    la = [x for x in ancestors(a) if isinstance(x, (ast.For, ast.While))]
    lb = [x for x in ancestors(b) if isinstance(x, (ast.For, ast.While))]
    return any(x in lb for x in la)


class Verdict:
    def __init__(self):
        self.returns: List[Tuple[ast.Return, GV, bool]] = []  # (node, value, guarded by a signal-dependent test)
        self.conflicts: List[Tuple[ast.AST, str, Optional[ast.AST], FuncInfo]] = []  # (in-place node, how, saving site or None=input storage, function)
        self.benign_inplace: List[Tuple[ast.AST, str]] = []
        self.unknown_calls: List[Tuple[ast.AST, str]] = []
        self.unguarded_div: List[Tuple[ast.AST, FuncInfo]] = []
        self.narrowing: List[Tuple[ast.AST, FuncInfo]] = []


def analyse(repo: Repo, fi: FuncInfo, cls: Optional[ClassInfo], signal: str, extra_env: Optional[Dict[str, GV]] = None) -> Verdict:
    it = GradFlow(fi, repo, cls=cls)
    env: Env = {}
    names, defaults, va, kwa = GradFlow._sig(fi.node, True)
    for p in names:
        d = defaults.get(p)
        env[p] = KUNK if d is None or not (isinstance(d, ast.Constant) and d.value is None) else GV("K", tensor=None)
    env[signal] = GV("D", f"param:{signal}", tensor=True)
    if va:
        env[va] = GV("T", items=(), tensor=False)
    if kwa:
        env[kwa] = KUNK
    env.update(extra_env or {})
    it.run(env)
    out = Verdict()
    out.unknown_calls = list(it.sh["unknown_calls"])
    seen_n = set()
    for nd, f_ in it.sh.get("narrowing", []):
        if id(nd) not in seen_n:
            seen_n.add(id(nd))
            out.narrowing.append((nd, f_))
    seen_d = set()
    for nd, f_ in it.sh.get("unguarded_div", []):
        if id(nd) not in seen_d:
            seen_d.add(id(nd))
            out.unguarded_div.append((nd, f_))
    ret_deps: FrozenSet[Dep] = frozenset()
    for v, node, _e in it.returns:
        if v is None:
            v = NONE_V
        if v.kind == "T" and v.items:
            j = None
            for i in v.items:
                j = it.join(j, i)
            v = j or KUNK
        guarded = False
        for a in ancestors(node):
            if isinstance(a, ast.If) and it.sh["tests"].get(id(a.test)) in ("M", "D", "B"):
                guarded = True
        out.returns.append((node, v, guarded))
        ret_deps |= v.deps
    last: Dict[Tuple[int, str], Tuple] = {}
    for node, tok, how, f, seq in it.sh["inplace"]:
        k = (id(node), tok)
        if k not in last or last[k][4] < seq:
            last[k] = (node, tok, how, f, seq)
    for node, tok, how, f, seq in last.values():
        if tok == f"param:{signal}":
            out.conflicts.append((node, how, None, f))
            continue
        hit = None
        for site_id, stok in ret_deps:
            if stok != tok:
                continue
            site, sseq = it.sh["sites"].get(site_id, (None, 0))
            if site is None or site is node or any(site is n for n in ast.walk(node)):
                # the operands saved by the in-place statement itself are the updated ones
                continue
            if sseq > seq:
                continue  # the tensor was saved after its last in-place update
            if any(site is n for n in ast.walk(f.node)) and _exclusive(site, node):
                continue
            hit = site
            break
        if hit is not None:
            out.conflicts.append((node, how, hit, f))
        else:
            out.benign_inplace.append((node, how))
    return out
