"""Rule kit G: input-keyed special cases, silent literal fallbacks, device/training-keyed values.

G1  an ``if``/``while``/conditional expression whose test compares an *input-derived* value
    (derived from a parameter, from ``self.value`` for value classes, from a loop over the
    batch) for equality with a non-boundary literal (an int outside {0, 1, -1}, a list/tuple/
    tensor literal) and whose branch does something other than raise.  Rank tests
    (``x.dim() == 2``) and string/None/bool comparisons are layout or mode dispatch and are
    not matched.
G3  a test on the device type or on a literal device string that guards a value change.
"""
from __future__ import annotations

import ast
from typing import Iterable, Optional, Set

from .astutil import ancestors, attr_chain, call_name, const_value, names_in, set_parents, walk_no_nested
from .core import FuncInfo, Report, unparse

RANK_CALLS = {"dim", "ndimension"}


def tainted_names(fi: FuncInfo, extra_sources: Iterable[str] = (), nested: bool = True) -> Set[str]:
    """Flow-insensitive closure of names derived from the parameters (except self/cls)."""
    src = {p for p in fi.params if p not in ("self", "cls")} | set(extra_sources)
    tainted = set(src)
    walker = ast.walk if nested else walk_no_nested
    changed = True

    def expr_tainted(e: ast.AST) -> bool:
        for n in ast.walk(e):
            if isinstance(n, ast.Name) and n.id in tainted:
                return True
            ch = attr_chain(n) if isinstance(n, ast.Attribute) else None
            if ch is not None and ch in tainted:
                return True
        return False

    def bind(t: ast.AST) -> bool:
        ch = False
        for n in ast.walk(t):
            if isinstance(n, ast.Name) and n.id not in tainted:
                tainted.add(n.id)
                ch = True
        return ch

    while changed:
        changed = False
        for n in walker(fi.node):
            if isinstance(n, ast.Assign) and expr_tainted(n.value):
                for t in n.targets:
                    changed |= bind(t)
            elif isinstance(n, ast.AnnAssign) and n.value is not None and expr_tainted(n.value):
                changed |= bind(n.target)
            elif isinstance(n, ast.AugAssign) and expr_tainted(n.value):
                changed |= bind(n.target)
            elif isinstance(n, (ast.For, ast.comprehension)) and expr_tainted(n.iter):
                changed |= bind(n.target)
            elif isinstance(n, ast.NamedExpr) and expr_tainted(n.value):
                changed |= bind(n.target)
            elif isinstance(n, ast.Expr) and isinstance(n.value, ast.Call) and isinstance(n.value.func, ast.Attribute) and n.value.func.attr in ("append", "extend", "add", "insert", "update") and any(expr_tainted(a) for a in n.value.args):
                # container.append(tainted): the container carries input-derived data
                changed |= bind(n.value.func.value)
            elif isinstance(n, ast.FunctionDef) and n is not fi.node and nested:
                # parameters of nested closures receive data derived from the outer inputs
                for a in n.args.args + n.args.posonlyargs + n.args.kwonlyargs:
                    if a.arg not in tainted:
                        tainted.add(a.arg)
                        changed = True
    return tainted


def _is_rank_expr(e: ast.AST) -> bool:
    if isinstance(e, ast.Call):
        if isinstance(e.func, ast.Attribute) and e.func.attr in RANK_CALLS:
            return True
        if call_name(e) == "len" and e.args:
            a = e.args[0]
            if isinstance(a, ast.Attribute) and a.attr == "shape":
                return True
            if isinstance(a, ast.Call) and isinstance(a.func, ast.Attribute) and a.func.attr == "size" and not a.args:
                return True
            if isinstance(a, ast.Name) and ("shape" in a.id or "dims" in a.id):
                return True
    if isinstance(e, ast.Attribute) and e.attr == "ndim":
        return True
    return False


def _literal_kind(e: ast.AST, allowed: Set) -> Optional[str]:
    """'special' for a non-boundary literal, 'boundary' for an allowed one, None if not a literal."""
    if isinstance(e, ast.Call) and call_name(e) in ("torch.tensor", "torch.Tensor", "torch.as_tensor", "np.array", "numpy.array") and e.args:
        k = _literal_kind(e.args[0], allowed)
        return "special" if k is not None else None
    try:
        v = const_value(e)
    except ValueError:
        return None
    if v is None or isinstance(v, (bool, str, bytes)):
        return "boundary"
    if isinstance(v, (int, float)):
        return "boundary" if v in allowed else "special"
    if isinstance(v, (list, tuple)):
        return "special" if len(v) >= 1 else "boundary"
    return "boundary"


def _only_raises(body) -> bool:
    return bool(body) and all(isinstance(s, ast.Raise) or (isinstance(s, ast.Expr) and isinstance(s.value, ast.Constant)) for s in body)


def lint_value_keyed(rep: Report, fi: FuncInfo, rule: str = "G1", allowed_literals: Set = frozenset({0, 1, -1}), taint_self_value: bool = False, extra_sources: Iterable[str] = (), also_device: bool = True) -> int:
    """Lint one function (and its closures).  Adds one obligation per offending test and one
    summary obligation for the function.  Returns 1."""
    set_parents(fi.node)
    extra = set(extra_sources)
    if taint_self_value:
        extra |= {"self.value", "other.value"}
    tainted = tainted_names(fi, extra)
    n_tests = 0
    n_bad = 0

    def is_tainted(e: ast.AST) -> bool:
        for n in ast.walk(e):
            if isinstance(n, ast.Name) and n.id in tainted:
                return True
            if isinstance(n, ast.Attribute):
                ch = attr_chain(n)
                if ch in tainted:
                    return True
        return False

    for node in ast.walk(fi.node):
        if not isinstance(node, ast.Compare):
            continue
        # find the governing test statement
        host = None
        for a in ancestors(node):
            if isinstance(a, (ast.If, ast.While, ast.IfExp)):
                if any(node is x for x in ast.walk(a.test)):
                    host = a
                break_now = isinstance(a, ast.stmt)
                if host is not None or break_now:
                    break
            elif isinstance(a, ast.stmt):
                break
        if host is None:
            continue
        n_tests += 1
        operands = [node.left] + list(node.comparators)
        for op, l, r in zip(node.ops, operands, operands[1:]):
            if not isinstance(op, (ast.Eq, ast.In)):
                continue
            for dyn, lit in ((l, r), (r, l)):
                kind = _literal_kind(lit, set(allowed_literals))
                if kind != "special":
                    continue
                if _literal_kind(dyn, set(allowed_literals)) is not None:
                    continue
                if not is_tainted(dyn) or _is_rank_expr(dyn):
                    continue
                if isinstance(host, ast.If) and _only_raises(host.body) and isinstance(op, ast.Eq) and False:
                    continue
                n_bad += 1
                rep.violation(
                    rule,
                    fi,
                    f"if {unparse(host.test)}",
                    f"input-derived value `{unparse(dyn)}` is compared for equality with the literal `{unparse(lit)}`: a value-keyed special case (the general algorithm is bypassed for particular inputs)",
                    node=node,
                )
        if also_device:
            txt = unparse(node)
            if ("device.type" in txt or ".is_cuda" in txt) and isinstance(host, (ast.If, ast.IfExp)):
                # G3: device-keyed branch that changes values (body contains an assignment / return)
                body = host.body if isinstance(host, ast.If) else [host.body]
                if any(isinstance(s, (ast.Assign, ast.AugAssign, ast.Return)) for b in body for s in ast.walk(b)) or isinstance(host, ast.IfExp):
                    n_bad += 1
                    rep.violation("G3", fi, f"if {unparse(host.test)}", "values are changed depending on the device type: results differ between CPU and GPU for the same input", node=node)
    rep.add(rule, fi, f"{n_tests} comparison(s) in branch tests scanned", "ok", "no value-keyed special case" if n_bad == 0 else f"{n_bad} offending test(s) reported separately", nontrivial=n_tests > 0)
    return 1


def lint_literal_fallback(rep: Report, fi: FuncInfo, rule: str = "G2", fill_calls=("torch.zeros", "torch.ones", "torch.eye", "torch.zeros_like", "torch.ones_like")) -> None:
    """G2: the *last* statement of the function returns a literal-filled tensor (a silent fallback
    reached only when every construction above failed)."""
    body = fi.body
    if not body:
        return
    last = body[-1]
    if isinstance(last, ast.Return) and isinstance(last.value, ast.Call) and call_name(last.value) in fill_calls:
        # it is a fallback only if an earlier return exists (otherwise it is the function's result)
        earlier = [n for n in walk_no_nested(fi.node) if isinstance(n, ast.Return) and n is not last]
        if earlier:
            rep.violation(rule, fi, last, "fall-through return of a constant-filled tensor after the constructions above failed: the caller silently receives a wrong object instead of an error", node=last)
            return
    rep.ok(rule, fi, "last statement is not a constant-filled fallback return")


def lint_chunk_local_index(rep: Report, fi: FuncInfo, rule: str = "CHUNK-INDEX") -> int:
    """An index found inside one slab `X[s : s + step]` of a chunked loop `for s in range(a, b, step)` is local
    to the slab: before it selects from the whole array it must be offset by `s`."""
    set_parents(fi.node)
    n = 0
    for lp in ast.walk(fi.node):
        if not (isinstance(lp, ast.For) and isinstance(lp.target, ast.Name) and isinstance(lp.iter, ast.Call) and call_name(lp.iter) == "range" and len(lp.iter.args) == 3):
            continue
        s = lp.target.id
        # names bound inside the loop to expressions over a slab starting at s
        slab_names = set()

        def over_slab(e: ast.AST) -> bool:
            for x in ast.walk(e):
                if isinstance(x, ast.Subscript):
                    sl = x.slice.elts[0] if isinstance(x.slice, ast.Tuple) and x.slice.elts else x.slice
                    if isinstance(sl, ast.Slice) and isinstance(sl.lower, ast.Name) and sl.lower.id == s:
                        return True
                if isinstance(x, ast.Name) and x.id in slab_names:
                    return True
            return False

        idx_names = {}
        changed = True
        while changed:
            changed = False
            for st in ast.walk(lp):
                if not isinstance(st, ast.Assign):
                    continue
                v = st.value
                if not over_slab(v):
                    continue
                call = v if isinstance(v, ast.Call) else None
                short = (call_name(call) or "").split(".")[-1] if call is not None else ""
                if call is not None and isinstance(call.func, ast.Attribute):
                    short = call.func.attr
                has_dim = call is not None and (any(k.arg == "dim" for k in call.keywords) or len(call.args) >= (2 if (call_name(call) or "").startswith("torch.") else 1))
                for t in st.targets:
                    if isinstance(t, ast.Tuple) and len(t.elts) == 2 and short in ("min", "max", "sort", "topk") and has_dim and isinstance(t.elts[1], ast.Name):
                        if t.elts[1].id not in idx_names:
                            idx_names[t.elts[1].id] = st
                            changed = True
                        if isinstance(t.elts[0], ast.Name) and t.elts[0].id not in slab_names:
                            slab_names.add(t.elts[0].id)
                            changed = True
                    elif isinstance(t, ast.Name) and short in ("argmin", "argmax"):
                        if t.id not in idx_names:
                            idx_names[t.id] = st
                            changed = True
                    elif isinstance(t, ast.Name) and t.id not in slab_names and t.id not in idx_names:
                        slab_names.add(t.id)
                        changed = True
        for nm, st in idx_names.items():
            uses = [x for x in ast.walk(lp) if isinstance(x, ast.Name) and x.id == nm and isinstance(x.ctx, ast.Load)]
            for u in uses:
                par = getattr(u, "_parent", None)
                offset = isinstance(par, ast.BinOp) and isinstance(par.op, ast.Add) and any(isinstance(o, ast.Name) and o.id == s for o in (par.left, par.right))
                n += 1
                if offset:
                    rep.ok(rule, fi, f"{nm} + {s}", "slab-local index offset by the slab start", node=u, nontrivial=False)
                else:
                    host = par
                    while host is not None and not isinstance(host, ast.stmt):
                        host = getattr(host, "_parent", None)
                    rep.violation(rule, fi, host if host is not None else st, f"`{nm}` indexes positions inside the slab that starts at `{s}` ({unparse(st)[:70]}), but it is used without adding `{s}`: for inputs longer than one slab it points into the first slab of the whole array", node=u)
    return n


def lint_store_through_copy(rep: Report, fi: FuncInfo, rule: str = "COPY-STORE") -> int:
    """`t.reshape(..)[idx] = v` (also flatten / contiguous / to / float): these calls return a view only when the
    layout allows it and otherwise a temporary COPY, so for non-contiguous tensors the store never reaches `t`.
    `.view()` is safe (it raises instead of copying)."""
    n = 0
    for st in ast.walk(fi.node):
        tg = st.targets if isinstance(st, ast.Assign) else ([st.target] if isinstance(st, ast.AugAssign) else [])
        for t in tg:
            if isinstance(t, ast.Subscript) and isinstance(t.value, ast.Call) and isinstance(t.value.func, ast.Attribute) and t.value.func.attr in ("reshape", "flatten", "contiguous", "ravel", "to", "float", "double", "type"):
                n += 1
                rep.violation(rule, fi, st, f"the store goes through `.{t.value.func.attr}(...)`, which returns a temporary copy whenever the tensor's memory layout does not allow a view (transposed / permuted / sliced inputs, whose strides survive clone() and arithmetic): for such inputs the write is silently lost and the tensor stays unchanged", node=st)
    return n


RNG_STATE_CALLS = ("torch.manual_seed", "torch.cuda.manual_seed", "torch.cuda.manual_seed_all", "torch.seed", "torch.set_rng_state", "torch.random.set_rng_state", "torch.cuda.set_rng_state", "torch.random.manual_seed", "np.random.seed", "numpy.random.seed", "random.seed")
DRAW_CALLS = ("rand", "rand_like", "randn", "randn_like", "randint", "randint_like", "bernoulli", "normal", "poisson", "multinomial", "randperm", "uniform_", "normal_", "exponential_", "bernoulli_", "random_", "sample", "rsample")


def lint_rng_discipline(rep: Report, fi: FuncInfo, rule: str = "RNG") -> int:
    """The noise of a channel is drawn from the generator that advances from call to call.  Recognised wrong: draws inside
    `torch.random.fork_rng` (the state is restored on exit, so the next call repeats the same variates), a generator
    re-seeded / a state restored inside the method, a draw from a `torch.Generator` seeded with a constant in the
    method.  Returns the number of obligations emitted (1)."""
    bad = None
    set_parents(fi.node)
    for w in ast.walk(fi.node):
        if isinstance(w, ast.With) and any(isinstance(it.context_expr, ast.Call) and (call_name(it.context_expr) or "").split(".")[-1] == "fork_rng" for it in w.items):
            draws = [c for c in ast.walk(w) if isinstance(c, ast.Call) and (call_name(c) or unparse(c.func)).split(".")[-1] in DRAW_CALLS]
            if draws:
                bad = (draws[0], f"`{unparse(draws[0])[:60]}` is drawn inside `fork_rng`: the generator state is restored when the block ends, so the next call (with nothing else advancing the generator in between) draws the very same variates - the noise of successive calls is identical instead of independent")
                break
    if bad is None:
        for c in ast.walk(fi.node):
            if isinstance(c, ast.Call) and (call_name(c) or "") in RNG_STATE_CALLS:
                bad = (c, f"`{unparse(c)[:60]}` sets the state of the random generator inside the method: every call then draws the same (or a data-independent, repeated) sequence of variates")
                break
            if isinstance(c, ast.Call) and isinstance(c.func, ast.Attribute) and c.func.attr == "manual_seed" and c.args and all(isinstance(a, ast.Constant) for a in c.args) and "Generator" in unparse(c.func.value):
                bad = (c, f"`{unparse(c)[:60]}` seeds a fresh generator with a constant inside the method: every call repeats the same variates")
                break
    if bad:
        rep.violation(rule, fi, f"{fi.name}: {unparse(bad[0])[:70]}", bad[1], node=bad[0])
    else:
        rep.ok(rule, fi, f"{fi.name}: random draws", "taken from the generator that advances across calls (no fork / re-seed / state restore in the method)", nontrivial=False)
    return 1


#: numeric configuration parameters for which 0 is an admissible, meaningful value
ZERO_ADMISSIBLE = {"k_factor", "snr_db", "avg_noise_power", "crossover_prob", "erasure_prob", "error_prob", "threshold", "offset", "noise_var", "phase_noise_std", "target_snr_db", "erasure_symbol", "clip", "saturation_level"}


def lint_falsy_default(rep: Report, fi: FuncInfo, rule: str) -> int:
    """A numeric parameter for which zero is a meaningful value must not be defaulted by truthiness: `k = k or 1.0`,
    `k if k else 1.0`, `if not k: k = 1.0` replace an explicit 0 by the default (K = 0 is Rayleigh fading, 0 dB is an SNR,
    probability 0 is the identity channel).  Returns the number of obligations emitted (0 or 1)."""
    params = {p for p in fi.params if p in ZERO_ADMISSIBLE}
    if not params:
        return 0
    bad = None
    for x in ast.walk(fi.node):
        if isinstance(x, ast.BoolOp) and isinstance(x.op, ast.Or) and isinstance(x.values[0], ast.Name) and x.values[0].id in params and len(x.values) == 2 and isinstance(x.values[1], ast.Constant) and not isinstance(x.values[1].value, (bool, str)) and x.values[1].value is not None:
            bad = (x, x.values[0].id)
        elif isinstance(x, ast.IfExp) and ((isinstance(x.test, ast.Name) and x.test.id in params) or (isinstance(x.test, ast.UnaryOp) and isinstance(x.test.op, ast.Not) and isinstance(x.test.operand, ast.Name) and x.test.operand.id in params)):
            nm = x.test.id if isinstance(x.test, ast.Name) else x.test.operand.id
            other = x.orelse if isinstance(x.test, ast.Name) else x.body
            if isinstance(other, ast.Constant) and isinstance(other.value, (int, float)) and not isinstance(other.value, bool):
                bad = (x, nm)
        elif isinstance(x, ast.If) and isinstance(x.test, ast.UnaryOp) and isinstance(x.test.op, ast.Not) and isinstance(x.test.operand, ast.Name) and x.test.operand.id in params:
            nm = x.test.operand.id
            if any(isinstance(s, ast.Assign) and any(isinstance(t, ast.Name) and t.id == nm for t in s.targets) and isinstance(s.value, ast.Constant) and isinstance(s.value.value, (int, float)) and not isinstance(s.value.value, bool) for s in x.body):
                bad = (x, nm)
        if bad:
            break
    if bad:
        node, nm = bad
        rep.violation(rule, fi, f"{fi.name}: {unparse(node)[:70]}", f"`{nm}` is replaced by a default whenever it is falsy, so an explicit `{nm} = 0` - a meaningful value - is silently overridden (test `{nm} is None` instead)", node=node)
    else:
        rep.ok(rule, fi, f"{fi.name}: parameters {sorted(params)}", "not defaulted by truthiness (an explicit 0 is kept)", nontrivial=False)
    return 1


CLAMPING = {"clamp", "clip", "clamp_max", "minimum", "min"}


def lint_logistic_overflow(rep: Report, fis, rule: str, where: str, bound: str = "|LLR| up to 1e3") -> int:
    """`r / (c + r)` (or `r / (r + c)`) with r = exp(t) and t not clamped is inf / inf = NaN as soon as exp(t) overflows
    (t > 88.7 in float32, 709 in float64), although the quotient tends to 1.  Expected count: zero (the repository uses
    torch.sigmoid).  One obligation for the whole list of functions."""
    found = []
    for fi in fis:
        defs = {}
        for a in ast.walk(fi.node):
            if isinstance(a, ast.Assign) and len(a.targets) == 1 and isinstance(a.targets[0], ast.Name):
                defs.setdefault(a.targets[0].id, []).append(a.value)

        def as_exp(e):
            if isinstance(e, ast.Name) and len(defs.get(e.id, ())) == 1:
                e = defs[e.id][0]
            if isinstance(e, ast.Call) and (call_name(e) or unparse(e.func)).split(".")[-1] == "exp":
                arg = e.args[0] if e.args else (e.func.value if isinstance(e.func, ast.Attribute) else None)
                if arg is None or any(isinstance(c, ast.Call) and (call_name(c) or unparse(c.func)).split(".")[-1] in CLAMPING for c in ast.walk(arg)):
                    return None
                if isinstance(arg, ast.Name) and len(defs.get(arg.id, ())) == 1 and any(isinstance(c, ast.Call) and (call_name(c) or unparse(c.func)).split(".")[-1] in CLAMPING for c in ast.walk(defs[arg.id][0])):
                    return None
                return e
            return None

        for d in ast.walk(fi.node):
            if isinstance(d, ast.BinOp) and isinstance(d.op, ast.Div) and isinstance(d.right, ast.BinOp) and isinstance(d.right.op, ast.Add):
                num = unparse(d.left)
                if num in (unparse(d.right.left), unparse(d.right.right)):
                    ex = as_exp(d.left)
                    if ex is not None:
                        found.append((fi, d, ex))
    for fi, d, ex in found:
        rep.violation(rule, fi, f"{unparse(d)[:80]}", f"`{unparse(ex)[:50]}` overflows to inf once its argument exceeds 88.7 (float32), and inf / (c + inf) is NaN although the quotient tends to 1: within {bound} the conversion returns NaN instead of a probability near 1, so it is neither sigmoid of the argument nor monotone, and a threshold test on it decides the wrong bit", node=d)
    if not found:
        rep.ok(rule, where, f"exp(t) / (c + exp(t)) quotients with unclamped t in {len(list(fis))} functions: 0", "probabilities are formed by torch.sigmoid or by 1 / (1 + exp(t)), which saturate instead of producing inf / inf", nontrivial=False)
    return 1
