"""Shared structural rules for the block-code encoders (C01, C03, C04, C20)."""
from __future__ import annotations

import ast
from typing import Dict, List, Optional, Set, Tuple

from .astutil import Inliner, ancestors, attr_chain, call_name, match, returns_of, set_parents, stmts_of, walk_no_nested
from .closedform import classify
from .core import OK, UNDECIDED, VIOLATION, AnalysisError, ClassInfo, FuncInfo, Repo, Report, unparse

ENC = "kaira/models/fec/encoders"
LIN = f"{ENC}/linear_block_code.py"
SYS = f"{ENC}/systematic_linear_block_code.py"
UTL = "kaira/models/fec/utils.py"


def closure(fi: FuncInfo, name: str) -> FuncInfo:
    c = fi.nested(name)
    if c is None:
        raise AnalysisError(f"anchor vanished: closure {name} in {fi.where()}")
    return c


def blockwise_call(fi: FuncInfo) -> Optional[ast.Call]:
    calls = [c for c in walk_no_nested(fi.node) if isinstance(c, ast.Call) and call_name(c) == "apply_blockwise"]
    return calls[0] if len(calls) == 1 else None


def divisibility_raise(fi: FuncInfo, size_attrs: Set[str]) -> Optional[ast.If]:
    """`if L % <size> != 0: raise ValueError` where L is the last dimension of the input."""
    inl = Inliner(fi)
    for st in fi.body:
        if isinstance(st, ast.If) and any(isinstance(x, ast.Raise) for x in st.body):
            t = inl.inline(st.test)
            m = match(t, "_X.shape[-1] % _S != 0") or match(t, "_X.size(-1) % _S != 0")
            if m is not None and unparse(m["_S"]) in size_attrs:
                return st
            m = match(st.test, "_N % _S != 0")
            if m is not None and isinstance(m["_N"], ast.Name) and unparse(m["_S"]) in size_attrs:
                # `*lead, N = x.shape`
                for s2 in fi.body:
                    if isinstance(s2, ast.Assign) and isinstance(s2.targets[0], ast.Tuple) and s2.targets[0].elts and isinstance(s2.targets[0].elts[-1], ast.Name) and s2.targets[0].elts[-1].id == m["_N"].id and isinstance(s2.value, ast.Attribute) and s2.value.attr == "shape":
                        return st
    return None


def _matmul_operand(e: ast.AST):
    """(attribute chain, transposed?) of the matrix operand `self.M[.t()|.T|.transpose(0,1)][.to(..)]`."""
    transposed = False
    while True:
        if isinstance(e, ast.Call) and isinstance(e.func, ast.Attribute) and e.func.attr in ("to", "type", "float", "double", "long", "int"):
            e = e.func.value
        elif isinstance(e, ast.Call) and isinstance(e.func, ast.Attribute) and e.func.attr == "t" and not e.args:
            transposed = not transposed
            e = e.func.value
        elif isinstance(e, ast.Call) and isinstance(e.func, ast.Attribute) and e.func.attr == "transpose" and [unparse(a) for a in e.args] in (["0", "1"], ["1", "0"], ["-1", "-2"], ["-2", "-1"]):
            transposed = not transposed
            e = e.func.value
        elif isinstance(e, ast.Attribute) and e.attr in ("T", "mT"):
            transposed = not transposed
            e = e.value
        else:
            break
    return attr_chain(e), transposed


def block_matmul_rule(rep: Report, rule: str, fi: FuncInfo, closure_name: Optional[str], want_attr: str, want_transposed: bool, size_attrs: Set[str], other_sizes: Set[str], what: str) -> None:
    """forward-like method: apply_blockwise(x, <size>, fn) with fn returning matmul(block, self.<M>[^T]) % 2."""
    chk = divisibility_raise(fi, size_attrs)
    bc = blockwise_call(fi)
    if bc is None:
        rep.undecided(rule, fi, f"{what}: apply_blockwise call", "not found exactly once")
        return
    size = unparse(bc.args[1]) if len(bc.args) == 3 else "?"
    if size in size_attrs:
        rep.ok(rule, fi, f"{what}: {unparse(bc)}" + (f"; length check `{unparse(chk.test)}`" if chk else "; length validated by apply_blockwise"), "blocks of the code's own size; a last dimension that is not a multiple is rejected with an error", node=bc)
    elif size in other_sizes:
        rep.violation(rule, fi, f"{what}: {unparse(bc)}", f"the input is cut into blocks of `{size}`, but {what.split(':')[0]} works on blocks of {sorted(size_attrs)[0]}", node=bc)
    else:
        rep.undecided(rule, fi, f"{what}: {unparse(bc)}", "block size argument not recognised", node=bc)
    fn_name = unparse(bc.args[2]) if len(bc.args) == 3 else closure_name
    cl = fi.nested(fn_name) if fn_name else None
    if cl is None:
        rep.undecided(rule, fi, f"{what}: block function", f"closure {fn_name} not found")
        return
    for r in returns_of(cl.node):
        e = Inliner(cl).inline(r.value)
        construct = f"{what}: {unparse(e)}"
        core = e
        mod2 = False
        if isinstance(core, ast.BinOp) and isinstance(core.op, ast.Mod) and isinstance(core.right, ast.Constant) and core.right.value == 2:
            mod2, core = True, core.left
        m = match(core, "torch.matmul(_A, _B)") or match(core, "_A @ _B") or match(core, "torch.mm(_A, _B)")
        if m is None:
            rep.undecided(rule, cl, construct, "not a matrix product of the block with a matrix", node=r)
            continue
        attr, tr = _matmul_operand(m["_B"])
        params = [p for p in cl.params]
        if not (isinstance(m["_A"], ast.Name) and m["_A"].id in params):
            rep.undecided(rule, cl, construct, "left operand is not the block argument", node=r)
        elif attr is None or not attr.startswith("self."):
            # recognised wrong idiom: the operand is a memoised copy taken from a container of the object
            bname = m["_B"].id if isinstance(m["_B"], ast.Name) else None
            memo = False
            if bname is not None:
                for a_ in ast.walk(cl.node):
                    if isinstance(a_, ast.Assign) and any(isinstance(t_, ast.Name) and t_.id == bname for t_ in a_.targets):
                        v_ = a_.value
                        if isinstance(v_, ast.Call) and isinstance(v_.func, ast.Attribute) and v_.func.attr in ("get", "setdefault") and (attr_chain(v_.func.value) or "").startswith("self."):
                            memo = True
                        if isinstance(v_, ast.Subscript) and (attr_chain(v_.value) or "").startswith("self.") and not isinstance(v_.slice, (ast.Slice, ast.Tuple)) and isinstance(v_.slice, ast.Name):
                            memo = True
            if memo:
                rep.violation(rule, cl, construct, f"the product uses `{bname}`, a memoised copy looked up in a container of the encoder, not the published matrix buffer: after the buffer is updated in place (load_state_dict, copy_) the encoder keeps multiplying by the old matrix while generator_matrix / check_matrix publish the new one", node=r)
            else:
                rep.undecided(rule, cl, construct, "right operand is not a buffer of the encoder", node=r)
        elif attr != want_attr:
            rep.violation(rule, cl, construct, f"the block is multiplied by `{attr}` instead of the published `{want_attr}`", node=r)
        elif tr != want_transposed:
            rep.violation(rule, cl, construct, f"`{want_attr}` is used {'transposed' if tr else 'untransposed'}; the definition needs it {'transposed' if want_transposed else 'untransposed'}", node=r)
        elif not mod2:
            rep.violation(rule, cl, construct, "the product is not reduced modulo 2: the result is not a binary word", node=r)
        else:
            rep.ok(rule, cl, construct, f"block . {want_attr}{'^T' if want_transposed else ''} mod 2", node=r)


# ---------------------------------------------------------------------------
# rule H: verified return / exact construction
# ---------------------------------------------------------------------------

FILL_CALLS = ("torch.zeros", "torch.ones", "torch.eye", "torch.zeros_like", "torch.ones_like", "torch.empty")


def strip_casts(e: ast.AST) -> ast.AST:
    while True:
        if isinstance(e, ast.Call) and isinstance(e.func, ast.Attribute) and e.func.attr in ("to", "type", "float", "long", "int", "clone", "contiguous") and not isinstance(e.func.value, ast.Name) is False:
            e = e.func.value
            continue
        if isinstance(e, ast.Call) and isinstance(e.func, ast.Attribute) and e.func.attr in ("to", "type", "float", "long", "int", "clone", "contiguous"):
            e = e.func.value
            continue
        return e


def _resolve_once(fi: FuncInfo, test: ast.AST) -> ast.AST:
    """Replace the names of a guard by their (single) defining expression, one level deep only."""
    import copy

    defs: Dict[str, List[ast.expr]] = {}
    for st in stmts_of(fi.body):
        if isinstance(st, ast.Assign) and len(st.targets) == 1 and isinstance(st.targets[0], ast.Name):
            defs.setdefault(st.targets[0].id, []).append(st.value)

    class T(ast.NodeTransformer):
        def visit_Name(self, n):
            d = defs.get(n.id)
            if d is not None and len(d) == 1 and isinstance(d[0], (ast.BinOp, ast.Call)) and "matmul" in unparse(d[0]):
                return copy.deepcopy(d[0])
            return n

    return T().visit(copy.deepcopy(test))


def verified_return_rule(rep: Report, rule: str, fi: FuncInfo, input_name: str, kind: str, exact_sources: Set[str]) -> int:
    """kind: 'null' (G @ H^T == 0) or 'rinv' (G @ R == I).

    Every `return v`: literal-filled fallback -> violation; v built from an exact source
    (names derived from calls in `exact_sources`, or an identity/zero scaffold filled only from
    them) -> ok; v guarded by a verification of v itself -> ok; v a transformation applied after
    the verification, or a row slice whose length is data dependent -> violation; else undecided.
    """
    set_parents(fi.node)
    rets = returns_of(fi.node)
    n = 0
    inl = Inliner(fi, allow_loop_defs=True)
    # names derived (flow-insensitively) from an exact elimination call
    exact_names: Set[str] = set()
    changed = True
    while changed:
        changed = False
        for st in stmts_of(fi.body):
            if isinstance(st, ast.Assign):
                src_exact = any(isinstance(c, ast.Call) and call_name(c) in exact_sources for c in ast.walk(st.value)) or any(isinstance(x, ast.Name) and x.id in exact_names for x in ast.walk(st.value))
                if src_exact:
                    for t in st.targets:
                        for nm in ast.walk(t):
                            if isinstance(nm, ast.Name) and nm.id not in exact_names:
                                exact_names.add(nm.id)
                                changed = True
            if isinstance(st, ast.For) and any(isinstance(x, ast.Name) and x.id in exact_names for x in ast.walk(st.iter)):
                for nm in ast.walk(st.target):
                    if isinstance(nm, ast.Name) and nm.id not in exact_names:
                        exact_names.add(nm.id)
                        changed = True
    for r in rets:
        n += 1
        e = strip_casts(r.value)
        construct = f"return {unparse(r.value)}"
        # literal-filled fallback
        if isinstance(e, ast.Call) and call_name(e) in FILL_CALLS and len(rets) > 1:
            rep.violation(rule, fi, construct, "a constant-filled matrix is returned when the constructions above fail: callers silently receive a matrix that does not describe the code", node=r)
            continue
        guards = [a for a in ancestors(r) if isinstance(a, ast.If) and any(r is x or any(r is y for y in ast.walk(x)) for x in a.body)]
        base = e
        sliced = None
        if isinstance(base, ast.Subscript):
            sliced = base.slice
            base = base.value
        bname = base.id if isinstance(base, ast.Name) else None
        # stores that fill the returned object
        fillers_ok = None
        if bname:
            stores = [s for s in stmts_of(fi.body) if isinstance(s, ast.Assign) and any(isinstance(t, ast.Subscript) and isinstance(t.value, ast.Name) and t.value.id == bname for t in s.targets)]
            defs = [s for s in stmts_of(fi.body) if isinstance(s, ast.Assign) and any(isinstance(t, ast.Name) and t.id == bname for t in s.targets)]
            scaffold = all(isinstance(d.value, ast.Call) and call_name(d.value) in FILL_CALLS + ("torch.stack",) for d in defs) and bool(defs)
            if scaffold and stores:
                fillers_ok = all(any(isinstance(x, ast.Name) and x.id in exact_names for x in ast.walk(s)) or isinstance(s.value, ast.Constant) or (isinstance(s.value, ast.Call) and call_name(s.value) in FILL_CALLS) for s in stores)
        # verification guards
        verified_obj = None
        for g in guards:
            t = _resolve_once(fi, g.test)
            for pat in ("torch.all(torch.matmul(_A, _B.t()) % 2 == 0)", "torch.all(torch.matmul(_A, _B.t()) % 2 < _E)", "torch.allclose((torch.matmul(_A, _B).round() % 2).type(_D), _I)", "torch.all(torch.matmul(_A, _B.T) % 2 == 0)", "torch.all(torch.matmul(_A, _B.t()) % 2 < _E)", "torch.all(torch.matmul(_A, _B) % 2 == torch.eye(_K, dtype=_D))", "torch.equal(torch.matmul(_A, _B) % 2, _I)"):
                m = match(t, pat)
                if m is not None:
                    verified_obj = unparse(strip_casts(m["_B"]))
        if verified_obj is not None:
            if bname == verified_obj and sliced is None:
                rep.ok(rule, fi, construct, f"the returned object `{bname}` is the object whose product with the input was verified over GF(2)", node=r)
            elif bname == verified_obj and sliced is not None:
                rep.violation(rule, fi, construct, f"`{verified_obj}` was verified but only the slice `[{unparse(sliced)}]` is returned: the number of rows is data dependent, the rank n-k is not established", node=r)
            else:
                rep.violation(rule, fi, construct, f"the verification covers `{verified_obj}` but `{unparse(e)}` is returned (a transformation applied after the check)", node=r)
            continue
        if bname and (bname in exact_names or fillers_ok):
            rep.ok(rule, fi, construct, "constructed exactly from the GF(2) elimination result (no numerical approximation, no fallback)", node=r)
            continue
        if bname and fillers_ok is None:
            # identity-prefix shortcut of the right inverse: allowed only under its own test
            gt = [unparse(g.test) for g in guards]
            if kind == "rinv" and gt == ["is_systematic"]:
                rep.ok(rule, fi, construct + " under is_systematic", "identity in the first k columns was checked column by column: selecting those positions is an exact right inverse", node=r)
                continue
            if kind == "null" and any("torch.all(matrix == 1" in g for g in gt):
                rep.ok(rule, fi, construct + " (repetition code)", "exact dual of the all-ones generator", node=r)
                continue
        rep.undecided(rule, fi, construct, "neither verified on the returned object nor recognised as an exact construction", node=r)
    return n


def tstr_lint(repo: Repo, rep: Report, rule: str, classes: List[ClassInfo]) -> int:
    """T-str: `<tensor-typed property> == "literal"` is always False (a dead branch)."""
    n = 0
    for ci in classes:
        for fi in ci.methods.values():
            for c in ast.walk(fi.node):
                if not isinstance(c, ast.Compare) or len(c.ops) != 1 or not isinstance(c.ops[0], (ast.Eq, ast.NotEq)):
                    continue
                sides = [c.left, c.comparators[0]]
                lit = [s for s in sides if isinstance(s, ast.Constant) and isinstance(s.value, str)]
                oth = [s for s in sides if not (isinstance(s, ast.Constant) and isinstance(s.value, str))]
                if len(lit) != 1 or len(oth) != 1:
                    continue
                ch = attr_chain(oth[0])
                if not ch or not ch.startswith("self.") or ch.count(".") != 1:
                    continue
                prop = ci.find_method(ch.split(".")[1])
                if prop is None or not prop.is_property():
                    continue
                ann = unparse(prop.node.returns) if prop.node.returns is not None else ""
                n += 1
                if "Tensor" in ann:
                    rep.violation(rule, fi, c, f"`{ch}` is a property returning {ann}; comparing it with the string {lit[0].value!r} is always False: the branch for that layout is dead code", node=c)
                else:
                    rep.ok(rule, fi, c, f"property of type {ann or '?'} compared with a string", node=c, nontrivial=False)
    return n


def closed_definitions(rep: Report, rule: str, fi: FuncInfo, allowed: Dict[str, List[str]], what: str) -> int:
    """Every statement that (re)defines one of the named variables - assignment, augmented assignment, subscript
    store, in-place method - must be one of the listed statements.  An unlisted definition makes the recognised
    algorithm shape incomplete: UNDECIDED (exit 2), never a silent pass."""
    unknown = []
    for st in ast.walk(fi.node):
        tg = []
        if isinstance(st, ast.Assign):
            tg = st.targets
        elif isinstance(st, (ast.AugAssign, ast.AnnAssign)):
            tg = [st.target]
        elif isinstance(st, ast.Expr) and isinstance(st.value, ast.Call) and isinstance(st.value.func, ast.Attribute) and (st.value.func.attr.endswith("_") or st.value.func.attr in ("append", "extend", "insert", "pop", "remove", "clear", "update")):
            tg = [st.value.func.value]
        for t in tg:
            for e in (t.elts if isinstance(t, (ast.Tuple, ast.List)) else [t]):
                root = e
                while isinstance(root, (ast.Subscript, ast.Attribute)) and not (isinstance(root, ast.Attribute) and isinstance(root.value, ast.Name) and root.value.id == "self"):
                    root = root.value
                name = root.id if isinstance(root, ast.Name) else (attr_chain(root) if isinstance(root, ast.Attribute) else None)
                if name in allowed and unparse(st) not in allowed[name]:
                    unknown.append((name, st))
    if unknown:
        for name, st in unknown[:4]:
            rep.undecided(rule, fi, st, f"unlisted definition of `{name}` in {what}: the recognised algorithm shape does not cover it", node=st)
    else:
        rep.ok(rule, fi, f"{what}: definitions of {sorted(allowed)} are exactly the listed ones", "no additional rewrite of the algorithm's state", nontrivial=False)
    return 1
