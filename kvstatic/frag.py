"""Fragment evaluator: runs straight-line code with `for ... in range(..)` loops and foldable conditionals
over the checker's own literal arithmetic (constfold.Folder).  Used to tabulate small integer kernels
(bit group -> index) and to evaluate guard predicates on enumerated inputs.  No repository code runs."""
from __future__ import annotations

import ast
from typing import Any, Dict, Optional, Sequence

from .constfold import BoolList, Folder, PySeq, PyTuple, Unfoldable, truth


class FragRaise(Exception):
    pass


class _Break(Exception):
    pass


class _Continue(Exception):
    pass


#: when a set, every evaluated `if` statement records (id(node), arm taken): callers that base an "agrees on the samples"
#: verdict on an evaluation use it to see which branches of the evaluated code their samples reached
COVERAGE = None


def unreached_branches(nodes) -> list:
    """`if` statements under the given function nodes of which one arm was never taken during the recorded evaluations
    (arms that only raise / pass are not counted: they are the rejected inputs)."""
    out = []
    cov = COVERAGE or set()
    for fn in nodes:
        for st in ast.walk(fn):
            if isinstance(st, (ast.For, ast.While)) and (id(st), "body") not in cov and not all(isinstance(x, (ast.Raise, ast.Pass)) for x in st.body):
                out.append((st, "body"))  # a loop whose body no sample ever entered
                continue
            if not isinstance(st, ast.If):
                continue

            def trivial(arm):
                return not arm or all(isinstance(x, (ast.Raise, ast.Pass)) or (isinstance(x, ast.Expr) and isinstance(x.value, ast.Constant)) for x in arm)

            for arm, flag in ((st.body, True), (st.orelse, False)):
                if (id(st), flag) not in cov and not trivial(arm):
                    out.append((st, flag))
            if (id(st), True) not in cov and (id(st), False) not in cov:
                continue
    return out


class coverage_scope:
    """`with coverage_scope() as cov: ...evaluations...; cov.missed([function nodes])` - branch coverage of the evaluated code"""

    def __enter__(self):
        global COVERAGE
        self._saved = COVERAGE
        COVERAGE = set()
        self.cov = COVERAGE
        return self

    def __exit__(self, *exc):
        global COVERAGE
        COVERAGE = self._saved
        return False

    def missed(self, nodes) -> list:
        global COVERAGE
        keep = COVERAGE
        COVERAGE = self.cov
        try:
            return unreached_branches(nodes)
        finally:
            COVERAGE = keep

    def note(self, nodes) -> Optional[str]:
        m = self.missed(nodes)
        if not m:
            return None
        st_, flag_ = m[0]
        if flag_ == "body":
            return f"the samples never enter the body of the loop at line {st_.lineno} (`{ast.unparse(st_).splitlines()[0][:60]}`): agreement on them does not cover that path"
        return f"the samples never take the {'true' if flag_ else 'false'} arm of `if {ast.unparse(st_.test)[:60]}` (line {st_.lineno}): agreement on them does not cover that path"


class _Sl(list):
    """positions that came from a slice (as opposed to an index list): slices combine as an outer product"""


class FragReturn(Exception):
    def __init__(self, value):
        self.value = value


def run_fragment(body: Sequence[ast.stmt], names: Dict[str, Any], attrs: Optional[Dict[str, Any]] = None, max_steps: int = 20000, funcs: Optional[Dict[str, ast.FunctionDef]] = None, materialise: bool = False, ctors: Optional[Dict[str, Any]] = None, attrs_live: bool = False, share_env: bool = False) -> Dict[str, Any]:
    # share_env: the caller's dictionary itself is the environment (closures: the caller reads the final bindings back)
    env = names if share_env else dict(names)
    # attrs_live: stores into attributes are made in the caller's dict (the object state after the fragment)
    attrs = attrs if (attrs_live and attrs is not None) else dict(attrs or {})
    steps = [0]
    #: names bound to the *same* tensor / list object by a plain `a = b` (or a view of it): a store through one of them
    #: would be visible through the other - the evaluator's values are copies, so such a store is refused
    shared: Dict[str, set] = {}

    def note_alias(target: ast.AST, value: ast.AST) -> None:
        VIEW = ("view", "reshape", "detach", "to", "contiguous", "squeeze", "unsqueeze", "t", "transpose", "permute", "flatten", "float", "long", "int", "expand")
        v = value
        while (isinstance(v, ast.Call) and isinstance(v.func, ast.Attribute) and v.func.attr in VIEW) or (isinstance(v, ast.Attribute) and v.attr in ("T", "mT", "data", "real")) or isinstance(v, ast.Subscript):
            v = v.func.value if isinstance(v, ast.Call) else v.value
        if isinstance(target, ast.Name):
            for grp in shared.values():
                grp.discard(target.id)
            if isinstance(v, ast.Name) and v.id != target.id and isinstance(env.get(v.id), list):
                grp = shared.setdefault(v.id, {v.id})
                grp.add(target.id)
                shared[target.id] = grp

    #: why a name is unbound: the statement whose value the evaluator could not follow, and the reason
    why: Dict[str, str] = {}

    def refuse_shared(name: str) -> None:
        """A store through `name` is about to be made.  The evaluator's values are copies, so every OTHER name that shares
        storage with it would keep a stale value: those names are forgotten (a later read of one of them is refused with
        this reason; if they are re-bound first, nothing is lost).  Values are never wrong, only unknown."""
        grp = shared.get(name)
        if grp and len(grp) > 1:
            for other in sorted(grp - {name}):
                env.pop(other, None)
                why[other] = f"`{other}` shares its storage with `{name}`, which was stored into (aliasing is not modelled)"
                shared.pop(other, None)
            grp.intersection_update({name})

    def fold(e):
        f = Folder(env, attrs)
        f.names = env  # the fragment's own environment: bindings made while folding (walrus, closures over mutated variables) stay visible
        f.attrs = attrs  # the fragment's own dict: attribute stores made by a followed helper are seen by later statements
        f.funcs = dict(funcs or {})
        f.materialise = materialise
        f.ctors = dict(ctors or {})
        try:
            return f.fold(e)
        except Unfoldable as exc:
            msg = str(exc)
            if msg.startswith("name ") and msg[5:] in why and msg[5:] not in env:
                raise Unfoldable(f"{msg} (unbound: {why[msg[5:]]})")
            raise

    def store_sub(t: ast.Subscript, v):
        """M[i] = v, M[i, j] = v, M[:, j] = v, M[i, :] = v on a nested-list value bound to a name"""
        import copy

        from .astutil import attr_chain as _chain

        if isinstance(t.value, ast.Subscript):
            # a[i][j] = v with integer positions: the same store as a[i, j] = v
            chain_, base_e = [t.slice], t.value
            while isinstance(base_e, ast.Subscript):
                chain_.insert(0, base_e.slice)
                base_e = base_e.value
            idxs_ = []
            for sl_ in chain_[:-1]:
                iv_ = fold(sl_)
                if isinstance(iv_, bool) or not isinstance(iv_, int):
                    raise Unfoldable("chained subscript store through a non-integer position")
                idxs_.append(iv_)
            root_is_list = (isinstance(base_e, ast.Name) and isinstance(env.get(base_e.id), list) and not isinstance(env.get(base_e.id), PySeq)) or (isinstance(base_e, ast.Attribute) and isinstance(attrs.get(_chain(base_e)), list) and not isinstance(attrs.get(_chain(base_e)), PySeq))
            last_ = chain_[-1]
            if root_is_list and not isinstance(last_, (ast.Tuple, ast.Slice)):
                lv_ = fold(last_)
                if isinstance(lv_, int) and not isinstance(lv_, bool):
                    idxs_.append(lv_)
                    new_t = ast.Subscript(value=base_e, slice=ast.Tuple(elts=[ast.Constant(value=i_) for i_ in idxs_], ctx=ast.Load()), ctx=ast.Store())
                    if len(idxs_) == 2:
                        return store_sub(ast.fix_missing_locations(new_t), v)
                    # deeper chains: navigate
                    root = copy.deepcopy(env[base_e.id] if isinstance(base_e, ast.Name) else attrs[_chain(base_e)])
                    cur_ = root
                    for i_ in idxs_[:-1]:
                        if not isinstance(cur_, list) or not (-len(cur_) <= i_ < len(cur_)):
                            raise Unfoldable("chained store index out of range")
                        cur_ = cur_[i_]
                    if not isinstance(cur_, list) or not (-len(cur_) <= idxs_[-1] < len(cur_)) or isinstance(cur_[idxs_[-1]], list) != isinstance(v, list):
                        raise Unfoldable("chained store shape mismatch")
                    cur_[idxs_[-1]] = copy.deepcopy(v)
                    if isinstance(base_e, ast.Name):
                        refuse_shared(base_e.id)
                        env[base_e.id] = root
                    else:
                        attrs[_chain(base_e)] = root
                    return
            raise Unfoldable("chained subscript store")
        if isinstance(t.value, ast.Name):
            refuse_shared(t.value.id)
        if isinstance(t.value, ast.Name) and isinstance(env.get(t.value.id), dict):
            key = fold(t.slice)
            if isinstance(key, list):
                raise Unfoldable("dictionary key")
            d_ = dict(env[t.value.id])
            d_[key] = v
            env[t.value.id] = d_
            return
        if isinstance(t.value, ast.Attribute) and isinstance(attrs.get(_chain(t.value)), dict):
            key = fold(t.slice)
            if isinstance(key, list):
                raise Unfoldable("dictionary key")
            d_ = dict(attrs[_chain(t.value)])
            d_[key] = v
            attrs[_chain(t.value)] = d_
            return
        in_attrs = isinstance(t.value, ast.Attribute) and isinstance(attrs.get(_chain(t.value)), list)
        if not in_attrs and not (isinstance(t.value, ast.Name) and isinstance(env.get(t.value.id), list)):
            nm_ = t.value.id if isinstance(t.value, ast.Name) else (_chain(t.value) or "?")
            raise Unfoldable("subscript store into something that is not a list value" + (f" (`{nm_}` unbound: {why[nm_]})" if nm_ in why else ""))
        base = copy.deepcopy(attrs[_chain(t.value)] if in_attrs else env[t.value.id])

        if isinstance(t.slice, ast.Tuple) and len(t.slice.elts) == 2 and isinstance(t.slice.elts[0], ast.Constant) and t.slice.elts[0].value is Ellipsis:
            # base[..., j] = v : one position of the last axis, for a value of any rank
            from .constfold import _regular, _shape

            j_ = fold(t.slice.elts[1])
            bs_ = _regular(base)
            if not (isinstance(j_, int) and not isinstance(j_, bool) and bs_ and -bs_[-1] <= j_ < bs_[-1]):
                raise Unfoldable("store index")
            vs_ = _shape(v) if isinstance(v, list) else None
            while vs_ and len(vs_) > len(bs_) - 1 and vs_[0] == 1:
                v, vs_ = v[0], vs_[1:]  # leading axes of length 1 are dropped, as torch's setitem does
            if not isinstance(v, list):
                vs_ = None
            if vs_ is not None and vs_ != bs_[:-1]:
                if len(vs_) <= len(bs_) - 1 and vs_ == bs_[len(bs_) - 1 - len(vs_): -1]:
                    pass  # broadcast over leading axes
                else:
                    raise Unfoldable("store shape mismatch")

            def put_(b_, v_, level):
                if level == len(bs_) - 1:
                    b_[j_] = v_
                    return
                for k_, row_ in enumerate(b_):
                    sub_ = v_
                    if isinstance(v_, list) and len(_shape(v_)) == len(bs_) - 1 - level:
                        sub_ = v_[k_]
                    put_(row_, sub_, level + 1)

            put_(base, copy.deepcopy(v), 0)
            if in_attrs:
                attrs[_chain(t.value)] = base
            else:
                env[t.value.id] = base
            return
        if isinstance(t.slice, ast.Tuple) and len(t.slice.elts) >= 3 and isinstance(t.slice.elts[0], ast.Constant) and t.slice.elts[0].value is Ellipsis and not any(isinstance(e_, ast.Constant) and e_.value is Ellipsis for e_ in t.slice.elts[1:]):
            # base[..., i, j] = v / base[..., i, :] = v : integer positions (or whole axes) of the trailing axes
            import itertools as _it

            from .constfold import _at, _regular, _shape

            bs_ = _regular(base)
            tr_ = []
            for e_ in t.slice.elts[1:]:
                if isinstance(e_, ast.Slice):
                    if e_.lower is not None or e_.upper is not None or e_.step is not None:
                        raise Unfoldable("partial slice after an ellipsis in a store")
                    tr_.append(None)
                else:
                    j_ = fold(e_)
                    if not (isinstance(j_, int) and not isinstance(j_, bool)):
                        raise Unfoldable("store index")
                    tr_.append(j_)
            k_ = len(tr_)
            if k_ > len(bs_):
                raise Unfoldable("too many indices")
            lead_ = bs_[: len(bs_) - k_]
            tail_ = bs_[len(bs_) - k_:]
            for j_, n_ in zip(tr_, tail_):
                if j_ is not None and not (-n_ <= j_ < n_):
                    raise Unfoldable("store index out of range")
            kept_ = [n_ for j_, n_ in zip(tr_, tail_) if j_ is None]
            tshape_ = lead_ + kept_
            vs_ = _shape(v) if isinstance(v, list) else []
            if isinstance(v, list):
                _regular(v)
                if len(vs_) > len(tshape_) or any(a_ != b_ and a_ != 1 for a_, b_ in zip(vs_[::-1], tshape_[::-1])):
                    raise Unfoldable("store shape mismatch")
            off_ = len(tshape_) - len(vs_)
            for idx_ in _it.product(*[range(n_) for n_ in tshape_]):
                val_ = _at(v, tuple((0 if vs_[a_ - off_] == 1 else idx_[a_]) for a_ in range(off_, len(tshape_)))) if isinstance(v, list) else v
                cur_ = base
                full_ = list(idx_[: len(lead_)])
                kk_ = len(lead_)
                for j_, n_ in zip(tr_, tail_):
                    if j_ is None:
                        full_.append(idx_[kk_])
                        kk_ += 1
                    else:
                        full_.append(j_ % n_)
                for a_ in full_[:-1]:
                    cur_ = cur_[a_]
                cur_[full_[-1]] = copy.deepcopy(val_)
            if in_attrs:
                attrs[_chain(t.value)] = base
            else:
                env[t.value.id] = base
            return
        if not isinstance(t.slice, (ast.Tuple, ast.Slice)):
            mask_ = fold(t.slice)
            if isinstance(mask_, PyTuple) and mask_ and all(isinstance(q_, int) and not isinstance(q_, bool) for q_ in mask_):
                # base[pos] = v with pos a python tuple of integers held in a variable: one index per axis
                cur_ = base
                for q_ in list(mask_)[:-1]:
                    if not isinstance(cur_, list) or not (-len(cur_) <= q_ < len(cur_)):
                        raise Unfoldable("tuple index out of range")
                    cur_ = cur_[q_]
                q_ = mask_[-1]
                if not isinstance(cur_, list) or not (-len(cur_) <= q_ < len(cur_)):
                    raise Unfoldable("tuple index out of range")
                if isinstance(cur_[q_], list) != isinstance(v, list):
                    if isinstance(cur_[q_], list) and not isinstance(v, list):
                        from .constfold import _shape as _shp

                        def _fill(z):
                            return [_fill(e_) for e_ in z] if isinstance(z, list) else v

                        cur_[q_] = _fill(cur_[q_])
                    else:
                        raise Unfoldable("store shape mismatch")
                else:
                    cur_[q_] = copy.deepcopy(v)
                if in_attrs:
                    attrs[_chain(t.value)] = base
                else:
                    env[t.value.id] = base
                return
            if isinstance(mask_, BoolList):
                # boolean-mask store: base[mask] = v (mask over the leading axes of base)
                from .constfold import _at, _regular, _shape

                ms_, bs_ = _regular(mask_), _regular(base)
                if ms_ != bs_[: len(ms_)] or not ms_:
                    raise Unfoldable("mask shape does not match the leading axes of the target")
                import itertools as _it

                hits_ = [idx for idx in _it.product(*[range(n_) for n_ in ms_]) if _at(mask_, idx)]
                rest_ = bs_[len(ms_):]
                vs_ = _shape(v) if isinstance(v, list) else []
                if isinstance(v, list) and vs_ == [len(hits_)] + rest_:
                    vals_ = list(v)
                elif (not isinstance(v, list) and not rest_) or (isinstance(v, list) and vs_ == rest_) or (not isinstance(v, list) and rest_):
                    vals_ = [v] * len(hits_)
                elif isinstance(v, list) and vs_ == [1] + rest_:
                    vals_ = [v[0]] * len(hits_)
                else:
                    raise Unfoldable("masked store: value shape")
                for idx, val_ in zip(hits_, vals_):
                    cur_ = base
                    for i_ in idx[:-1]:
                        cur_ = cur_[i_]
                    if rest_ and not isinstance(val_, list):
                        from .constfold import _build_from

                        val_ = _build_from(rest_, lambda _i, _v=val_: _v)
                    cur_[idx[-1]] = copy.deepcopy(val_)
                if in_attrs:
                    attrs[_chain(t.value)] = base
                else:
                    env[t.value.id] = base
                return

        def part(e):
            if isinstance(e, ast.Slice):
                if e.lower is None and e.upper is None and e.step is None:
                    return "all"
                return ("slice", fold(e.lower) if e.lower is not None else None, fold(e.upper) if e.upper is not None else None, fold(e.step) if e.step is not None else None)
            i = fold(e)
            if isinstance(i, int) and not isinstance(i, bool):
                return i
            if isinstance(i, BoolList):
                if any(isinstance(t_, list) for t_ in i):
                    raise Unfoldable("store through a mask of rank above 1 inside a tuple index")
                return [k_ for k_, m_ in enumerate(i) if m_]  # a 1-D mask along one axis selects these positions
            if isinstance(i, list) and all(isinstance(t_, int) and not isinstance(t_, bool) for t_ in i):
                return list(i)
            raise Unfoldable("store index")

        sl = t.slice
        parts = [part(e) for e in sl.elts] if isinstance(sl, ast.Tuple) else [part(sl)]
        # bounded slices become explicit position lists along their axis
        for ax, pr in enumerate(parts):
            if isinstance(pr, tuple) and pr and pr[0] == "slice":
                length = len(base) if ax == 0 else (len(base[0]) if base and isinstance(base[0], list) else 0)
                if not all(x is None or (isinstance(x, int) and not isinstance(x, bool)) for x in pr[1:]):
                    raise Unfoldable("slice bounds")
                parts[ax] = _Sl(list(range(length))[slice(pr[1], pr[2], pr[3])])
        try:
            if len(parts) == 1:
                from .constfold import _regular as _reg1, _shape as _shp1

                def _bcast(val, tshape):
                    """val broadcast (right-aligned, as torch does for a store) to the nested-list shape tshape"""
                    vs = _shp1(val) if isinstance(val, list) else []
                    if isinstance(val, list):
                        _reg1(val)
                    while len(vs) > len(tshape) and vs and vs[0] == 1:
                        val, vs = val[0], vs[1:]  # leading axes of length 1 of the stored value are dropped (as torch's setitem does)
                    if len(vs) > len(tshape) or any(a_ != b_ and a_ != 1 for a_, b_ in zip(vs[::-1], tshape[::-1])):
                        raise Unfoldable("store shape mismatch")

                    def build(level, sub):
                        if level == len(tshape):
                            return sub
                        k_ = level - (len(tshape) - len(vs))
                        out_ = []
                        for i_ in range(tshape[level]):
                            if k_ < 0:
                                out_.append(build(level + 1, sub))
                            else:
                                out_.append(build(level + 1, sub[0] if len(sub) == 1 and tshape[level] != 1 else sub[i_]))
                        return out_

                    return build(0, copy.deepcopy(val))

                if isinstance(base, PySeq):
                    # a python list: plain element replacement, nothing is broadcast
                    if parts[0] == "all":
                        base = type(base)(v) if isinstance(v, list) else [v for _ in base]
                    elif isinstance(parts[0], list):
                        if isinstance(parts[0], _Sl):
                            if not isinstance(v, list):
                                raise Unfoldable("slice store of a non-sequence into a python list")
                            lo_ = parts[0][0] if parts[0] else len(base)
                            new_ = list(base[:lo_]) + list(v) + list(base[(parts[0][-1] + 1) if parts[0] else lo_:])
                            base = type(base)(new_)
                        else:
                            raise Unfoldable("python list indexed by a list")
                    else:
                        base[parts[0]] = v
                    if in_attrs:
                        attrs[_chain(t.value)] = base
                    else:
                        env[t.value.id] = base
                    return
                rest_ = _shp1(base[0]) if base and isinstance(base[0], list) else []
                if base and isinstance(base[0], list):
                    _reg1(base)
                if not rest_ and isinstance(v, list) and not isinstance(parts[0], list) and parts[0] != "all":
                    flat1_ = v
                    while isinstance(flat1_, list) and len(flat1_) == 1:
                        flat1_ = flat1_[0]
                    if isinstance(flat1_, list):
                        raise Unfoldable("store of a sequence into a scalar position")
                    v = flat1_
                if parts[0] == "all":
                    base = _bcast(v, [len(base)] + rest_)
                elif isinstance(parts[0], list):
                    new_ = _bcast(v, [len(parts[0])] + rest_)
                    for k_, row_ in enumerate(parts[0]):
                        base[row_] = new_[k_]
                else:
                    base[parts[0]] = _bcast(v, rest_) if rest_ else (v if not isinstance(v, list) else _bcast(v, []))
            elif len(parts) == 2:
                r, c = parts
                if isinstance(c, list) and (r == "all" or isinstance(r, list)):
                    rows_ = list(range(len(base))) if r == "all" else list(r)
                    if isinstance(r, list) and not isinstance(r, _Sl) and not isinstance(c, _Sl):
                        # two index lists pair up element by element
                        if len(rows_) != len(c):
                            raise Unfoldable("paired index lists of different length")
                        for k_, (rr_, cc_) in enumerate(zip(rows_, c)):
                            base[rr_][cc_] = v[k_] if isinstance(v, list) else v
                    else:
                        vs_ = v
                        if isinstance(v, list) and v and not isinstance(v[0], list):
                            if len(v) != len(c):
                                raise Unfoldable("store shape mismatch")
                            vs_ = [v for _ in rows_]  # one row, broadcast over the selected rows
                        if isinstance(vs_, list) and (len(vs_) != len(rows_) or any(not isinstance(x_, list) or len(x_) != len(c) for x_ in vs_)):
                            raise Unfoldable("store shape mismatch")
                        for k_, rr_ in enumerate(rows_):
                            for j_, cc_ in enumerate(c):
                                base[rr_][cc_] = vs_[k_][j_] if isinstance(vs_, list) else vs_
                    c = None
                elif isinstance(c, list):
                    for k_, cc in enumerate(c):
                        base[r][cc] = v[k_] if isinstance(v, list) else v
                    env_store = True
                    c = None
                rows = [] if c is None else (list(range(len(base))) if r == "all" else (r if isinstance(r, list) else [r]))
                multi = r == "all" or isinstance(r, list)
                if c is not None and multi and isinstance(v, list) and v and isinstance(v[0], list) and len(v) != len(rows):
                    raise Unfoldable("store shape mismatch")
                for k, row in enumerate(rows):
                    val = v[k] if (multi and isinstance(v, list) and (c != "all" or (v and isinstance(v[0], list)))) else v
                    if c == "all":
                        base[row] = list(val) if isinstance(val, list) else [val for _ in base[row]]
                    else:
                        base[row][c] = val
            else:
                raise Unfoldable("store with more than two indices")
        except (IndexError, TypeError) as exc:
            raise Unfoldable(f"subscript store: {exc}")
        if in_attrs:
            attrs[_chain(t.value)] = base
        else:
            env[t.value.id] = base

    def list_recv(e):
        """(where, key, [indices]) of a python list reached from a name or an attribute through integer subscripts, else None"""
        from .astutil import attr_chain as _lc

        idxs = []
        while isinstance(e, ast.Subscript):
            try:
                i_ = fold(e.slice)
            except Unfoldable:
                return None
            if isinstance(i_, bool) or not isinstance(i_, int):
                return None
            idxs.insert(0, i_)
            e = e.value
        if isinstance(e, ast.Name) and isinstance(env.get(e.id), list):
            root = env[e.id]
            where = ("env", e.id)
        elif isinstance(e, ast.Attribute) and _lc(e) is not None and isinstance(attrs.get(_lc(e)), list):
            root = attrs[_lc(e)]
            where = ("attrs", _lc(e))
        else:
            return None
        cur = root
        for i_ in idxs:
            if not isinstance(cur, list) or not (-len(cur) <= i_ < len(cur)):
                return None
            cur = cur[i_]
        if not isinstance(cur, list):
            return None
        return where[0], where[1], idxs

    def list_method(c: ast.Call):
        """append / extend / insert / pop / reverse / remove on a list bound to a name or an attribute (also an element of such
        a list reached by integer subscripts): rebinds the root, returns the call's value"""
        import copy as _cp

        path = list_recv(c.func.value)
        if path is None:
            raise Unfoldable("list method on something that is not a list value")
        where, key, idxs = path
        if where == "env":
            refuse_shared(key)
        root = _cp.deepcopy(env[key] if where == "env" else attrs[key])
        cur = root
        for i_ in idxs:
            cur = cur[i_]
        a = [fold(x) for x in c.args]
        m = c.func.attr
        out = None
        if m == "append" and len(a) == 1:
            cur.append(a[0])
        elif m == "extend" and len(a) == 1 and isinstance(a[0], list):
            cur.extend(list(a[0]))
        elif m == "insert" and len(a) == 2 and isinstance(a[0], int):
            cur.insert(a[0], a[1])
        elif m == "remove" and len(a) == 1:
            try:
                cur.remove(a[0])
            except ValueError as exc:
                raise FragRaise() from exc
        elif m == "reverse" and not a:
            cur.reverse()
        elif m == "pop" and len(a) <= 1 and cur:
            try:
                out = cur.pop(*a)
            except (IndexError, TypeError) as exc:
                raise Unfoldable(str(exc))
        else:
            raise Unfoldable(f"list method {m}")
        if where == "env":
            env[key] = root
        else:
            attrs[key] = root
        return out

    def bind(t, v):
        if isinstance(t, ast.Name):
            env[t.id] = v
        elif isinstance(t, (ast.Tuple, ast.List)) and isinstance(v, list) and len(v) == len(t.elts) and not any(isinstance(e, ast.Starred) for e in t.elts):
            for e, x in zip(t.elts, v):
                bind(e, x)
        elif isinstance(t, (ast.Tuple, ast.List)) and isinstance(v, list) and sum(isinstance(e, ast.Starred) for e in t.elts) == 1 and len(v) >= len(t.elts) - 1:
            k_ = next(i for i, e in enumerate(t.elts) if isinstance(e, ast.Starred))
            tail = len(t.elts) - k_ - 1
            for e, x in zip(t.elts[:k_], v[:k_]):
                bind(e, x)
            bind(t.elts[k_].value, PySeq(v[k_ : len(v) - tail]))
            for e, x in zip(t.elts[k_ + 1 :], v[len(v) - tail :] if tail else []):
                bind(e, x)
        elif isinstance(t, ast.Subscript):
            store_sub(t, v)
        elif isinstance(t, ast.Attribute):
            from .astutil import attr_chain

            ch = attr_chain(t)
            if ch is None:
                raise Unfoldable("attribute target")
            attrs[ch] = v
        else:
            raise Unfoldable(f"target {type(t).__name__}")

    def run(stmts):
        for st in stmts:
            steps[0] += 1
            if steps[0] > max_steps:
                raise Unfoldable("step budget exhausted")
            if isinstance(st, ast.Expr):
                c = st.value
                if isinstance(c, ast.Call) and isinstance(c.func, ast.Attribute) and c.func.attr in ("append", "extend", "insert", "pop", "reverse", "remove") and list_recv(c.func.value) is not None:
                    list_method(c)
                elif isinstance(c, ast.Call) and isinstance(c.func, ast.Attribute) and c.func.attr == "index_fill_" and len(c.args) == 3 and isinstance(c.func.value, ast.Name) and isinstance(env.get(c.func.value.id), list):
                    dim_, idx_, val_ = fold(c.args[0]), fold(c.args[1]), fold(c.args[2])
                    cur_ = list(env[c.func.value.id])
                    if dim_ != 0 or any(isinstance(t_, list) for t_ in cur_) or not isinstance(idx_, list):
                        raise Unfoldable("index_fill_ beyond 1-D")
                    for t_ in idx_:
                        cur_[t_] = val_
                    env[c.func.value.id] = cur_
                elif isinstance(c, ast.Call) and isinstance(c.func, ast.Attribute) and c.func.attr == "scatter_" and len(c.args) == 3 and not c.keywords and isinstance(c.func.value, ast.Name) and isinstance(env.get(c.func.value.id), list) and not isinstance(env.get(c.func.value.id), PySeq):
                    # x.scatter_(dim, index, value | src): x[..., index[pos], ...] = value / src[pos] for every position of index
                    import copy as _cp
                    import itertools as _it

                    from .constfold import _at, _regular

                    d_, ix_, sv_ = fold(c.args[0]), fold(c.args[1]), fold(c.args[2])
                    cur_ = _cp.deepcopy(env[c.func.value.id])
                    shp_ = _regular(cur_)
                    if not (isinstance(d_, int) and not isinstance(d_, bool) and -len(shp_) <= d_ < len(shp_)) or not isinstance(ix_, list) or isinstance(ix_, PySeq):
                        raise Unfoldable("scatter_ arguments")
                    d_ %= len(shp_)
                    ishp_ = _regular(ix_)
                    if len(ishp_) != len(shp_) or (isinstance(sv_, list) and _regular(sv_)[: len(ishp_)] != ishp_ and any(a_ > b_ for a_, b_ in zip(ishp_, _regular(sv_)))):
                        raise Unfoldable("scatter_ shapes")
                    refuse_shared(c.func.value.id)
                    for pos_ in _it.product(*[range(n_) for n_ in ishp_]):
                        j_ = _at(ix_, pos_)
                        if isinstance(j_, bool) or not isinstance(j_, int) or not (0 <= j_ < shp_[d_]) or any(pos_[a_] >= shp_[a_] for a_ in range(len(shp_)) if a_ != d_):
                            raise Unfoldable("scatter_ index out of range")
                        tgt_ = list(pos_)
                        tgt_[d_] = j_
                        cell_ = cur_
                        for a_ in tgt_[:-1]:
                            cell_ = cell_[a_]
                        cell_[tgt_[-1]] = _at(sv_, pos_) if isinstance(sv_, list) else sv_
                    env[c.func.value.id] = cur_
                elif isinstance(c, ast.Call) and isinstance(c.func, ast.Attribute) and c.func.attr in ("fill_", "copy_") and len(c.args) == 1 and isinstance(c.func.value, (ast.Attribute, ast.Name)):
                    # in-place overwrite of a scalar buffer / variable
                    from .astutil import attr_chain as _ch

                    tgt_ = _ch(c.func.value) if isinstance(c.func.value, ast.Attribute) else None
                    if tgt_ is not None and tgt_ in attrs and not isinstance(attrs[tgt_], list):
                        attrs[tgt_] = fold(c.args[0])
                    elif isinstance(c.func.value, ast.Name) and c.func.value.id in env and not isinstance(env[c.func.value.id], list):
                        env[c.func.value.id] = fold(c.args[0])
                    else:
                        raise Unfoldable("in-place fill of a non-scalar")
                elif isinstance(c, ast.Call) and isinstance(c.func, ast.Attribute) and c.func.attr == "setdefault" and isinstance(c.func.value, ast.Name) and isinstance(env.get(c.func.value.id), dict) and len(c.args) == 2 and not c.keywords:
                    key_ = fold(c.args[0])
                    if isinstance(key_, list):
                        raise Unfoldable("dictionary key")
                    d_ = dict(env[c.func.value.id])
                    if key_ not in d_:
                        d_[key_] = fold(c.args[1])
                    env[c.func.value.id] = d_
                elif isinstance(c, ast.Call) and isinstance(c.func, ast.Attribute) and c.func.attr == "update" and isinstance(c.func.value, ast.Name) and isinstance(env.get(c.func.value.id), dict) and len(c.args) == 1 and not c.keywords:
                    upd_ = fold(c.args[0])
                    if not isinstance(upd_, dict):
                        raise Unfoldable("dictionary update with a non-dictionary")
                    d_ = dict(env[c.func.value.id])
                    d_.update(upd_)
                    env[c.func.value.id] = d_
                elif isinstance(c, ast.Call) and isinstance(c.func, ast.Attribute) and c.func.attr in ("add", "discard", "update") and isinstance(c.func.value, ast.Name) and isinstance(env.get(c.func.value.id), set) and len(c.args) == 1:
                    cur_ = set(env[c.func.value.id])
                    a_ = fold(c.args[0])
                    try:
                        if c.func.attr == "add":
                            cur_.add(a_)
                        elif c.func.attr == "discard":
                            cur_.discard(a_)
                        else:
                            cur_.update(a_)
                    except TypeError as exc:
                        raise Unfoldable(str(exc))
                    env[c.func.value.id] = cur_
                elif isinstance(c, ast.Call):
                    # any other call made for its effect
                    from .astutil import attr_chain as _ch2

                    fn_ = c.func
                    if (isinstance(fn_, ast.Name) and (isinstance(env.get(fn_.id), (ast.FunctionDef, ast.Lambda)) or fn_.id in (funcs or {}))) or (isinstance(fn_, ast.Attribute) and _ch2(fn_) in (funcs or {})):
                        fold(c)  # a followed function: its effects on attributes / enclosing variables are made by the call
                    elif isinstance(fn_, ast.Attribute):
                        base_ = fn_.value
                        while isinstance(base_, (ast.Subscript, ast.Attribute)) and not (isinstance(base_, ast.Attribute) and _ch2(base_) in attrs):
                            base_ = base_.value
                        inplace_ = fn_.attr.endswith("_") and not fn_.attr.startswith("__") or fn_.attr in ("append", "extend", "insert", "pop", "remove", "add", "update", "clear", "sort", "reverse", "discard", "setdefault")
                        if inplace_ and isinstance(base_, ast.Name) and base_.id in env and base_.id not in ("torch", "np", "math", "warnings", "logging"):
                            why[base_.id] = f"`{ast.unparse(st)[:60]}`: in-place method whose effect is not modelled"
                            env.pop(base_.id, None)
                        elif inplace_ and isinstance(base_, ast.Attribute) and _ch2(base_) in attrs:
                            attrs.pop(_ch2(base_), None)
                continue
            if isinstance(st, (ast.Pass, ast.Import, ast.ImportFrom, ast.Global, ast.Nonlocal)):
                continue
            if isinstance(st, ast.FunctionDef):
                env[st.name] = st  # a local function: called (or handed on) by name
                st._kv_env = env  # its free names are read in the environment it was defined in, wherever it is called from
                continue
            if isinstance(st, ast.Assert):
                if not truth(fold(st.test)):
                    raise FragRaise()
                continue
            if isinstance(st, ast.Assign):
                try:
                    c = st.value
                    if isinstance(c, ast.Call) and isinstance(c.func, ast.Attribute) and c.func.attr == "pop" and list_recv(c.func.value) is not None:
                        v = list_method(c)
                    else:
                        v = fold(st.value)
                except Unfoldable as exc_:
                    # the value is outside literal arithmetic: its names become unbound (a later use fails)
                    note_ = f"`{ast.unparse(st)[:60]}`: {str(exc_)[-260:]}"
                    for t in st.targets:
                        for x in ast.walk(t):
                            if isinstance(x, ast.Name) and isinstance(x.ctx, ast.Store):
                                env.pop(x.id, None)
                                why[x.id] = note_
                        base_ = t
                        while isinstance(base_, (ast.Subscript, ast.Attribute)):
                            if isinstance(base_, ast.Attribute):
                                from .astutil import attr_chain as _ac2

                                ch2_ = _ac2(base_)
                                if ch2_ is not None and ch2_ in attrs:
                                    attrs.pop(ch2_, None)  # an attribute assigned (or updated) with an unknown value is unknown, not stale
                            base_ = base_.value
                        if isinstance(base_, ast.Name) and base_ is not t:
                            env.pop(base_.id, None)  # a container updated with an unknown value is unknown
                            why[base_.id] = note_
                    continue
                for t in st.targets:
                    bind(t, v)
                    note_alias(t, st.value)
            elif isinstance(st, ast.AnnAssign):
                if st.value is not None:
                    bind(st.target, fold(st.value))
            elif isinstance(st, ast.AugAssign):
                if isinstance(st.target, ast.Subscript):
                    load = ast.Subscript(value=st.target.value, slice=st.target.slice, ctx=ast.Load())
                    store_sub(st.target, fold(ast.BinOp(left=load, op=st.op, right=st.value)))
                    continue
                if isinstance(st.target, ast.Attribute):
                    from .astutil import attr_chain as _ac

                    ch_ = _ac(st.target)
                    if ch_ is None or ch_ not in attrs:
                        raise Unfoldable("augmented attribute target")
                    attrs[ch_] = fold(ast.BinOp(left=ast.Attribute(value=st.target.value, attr=st.target.attr, ctx=ast.Load()), op=st.op, right=st.value))
                    continue
                if not isinstance(st.target, ast.Name):
                    raise Unfoldable("augmented target")
                env[st.target.id] = fold(ast.BinOp(left=ast.Name(id=st.target.id, ctx=ast.Load()), op=st.op, right=st.value))
            elif isinstance(st, ast.For):
                it = st.iter
                if not isinstance(st.target, (ast.Name, ast.Tuple, ast.List)):
                    raise Unfoldable("loop target is not a name")
                if isinstance(it, ast.Call) and isinstance(it.func, ast.Name) and it.func.id == "range":
                    args = [fold(a) for a in it.args]
                    if not all(isinstance(a, int) and not isinstance(a, bool) for a in args):
                        raise Unfoldable("range bounds")
                    seq = range(*args)
                else:
                    seq = fold(it)
                    if not isinstance(seq, (list, str)):
                        raise Unfoldable("loop is not over a range, a list or a string")
                broke_ = False
                for i in seq:
                    if COVERAGE is not None:
                        COVERAGE.add((id(st), "body"))
                    bind(st.target, i)
                    try:
                        run(st.body)
                    except _Break:
                        broke_ = True
                        break
                    except _Continue:
                        continue
                if not broke_ and st.orelse:
                    run(st.orelse)  # for ... else: runs when the loop was not left by break
            elif isinstance(st, ast.While):
                broke_ = False
                while True:
                    steps[0] += 1
                    if steps[0] > max_steps:
                        raise Unfoldable("step budget exhausted")
                    if not truth(fold(st.test)):
                        break
                    if COVERAGE is not None:
                        COVERAGE.add((id(st), "body"))
                    try:
                        run(st.body)
                    except _Break:
                        broke_ = True
                        break
                    except _Continue:
                        continue
                if not broke_ and st.orelse:
                    run(st.orelse)
            elif isinstance(st, ast.Break):
                raise _Break()
            elif isinstance(st, ast.Continue):
                raise _Continue()
            elif isinstance(st, ast.If):
                taken_ = truth(fold(st.test))
                if COVERAGE is not None:
                    COVERAGE.add((id(st), bool(taken_)))
                run(st.body if taken_ else st.orelse)
            elif isinstance(st, ast.Raise):
                raise FragRaise()
            elif isinstance(st, ast.Return):
                fr = FragReturn(fold(st.value) if st.value is not None else None)
                fr.env = dict(env)  # state at the point of return
                fr.env["__attrs__"] = attrs
                raise fr
            else:
                raise Unfoldable(f"statement {type(st).__name__}")

    run(body)
    env["__attrs__"] = attrs
    return env
