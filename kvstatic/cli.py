"""Command line: ./check <ID> [--tier quick|thorough] [--root /repo] [--replay file]."""
from __future__ import annotations

import argparse
import importlib
import json
import os
import sys
import time
import traceback

from .core import VERIF_DIR, AnalysisError, Repo, Report, finish

PROPS = [f"C{i:02d}" for i in range(1, 21)]


def main(argv=None) -> int:
    ap = argparse.ArgumentParser(prog="check")
    ap.add_argument("prop")
    ap.add_argument("--tier", default=os.environ.get("VERIF_TIER") or "quick", choices=["quick", "thorough"])
    ap.add_argument("--root", default=os.environ.get("KVSTATIC_ROOT", "/repo"))
    ap.add_argument("--replay", default=None)
    ap.add_argument("--evidence-dir", default=os.path.join(VERIF_DIR, "evidence"))
    ap.add_argument("--no-selftest", action="store_true")
    args = ap.parse_args(argv)
    if os.environ.get("VERIF_TIER") in ("quick", "thorough"):
        args.tier = os.environ["VERIF_TIER"]
    prop = args.prop.upper()
    try:
        seed = int(os.environ.get("VERIF_SEED", "0"))
    except ValueError:
        seed = 0
    t0 = time.time()
    try:
        if prop not in PROPS:
            raise AnalysisError(f"unknown property {prop}")
        try:
            mod = importlib.import_module(f"kvstatic.props.{prop.lower()}")
        except ModuleNotFoundError:
            raise AnalysisError(f"no rule armed for {prop} (fail-closed)")
        repo = Repo(args.root)
        report = Report(prop, repo)
        for note_ in getattr(repo, "alpha_notes", [])[:40]:
            report.note("alpha-normalised: " + note_)
        mod.run(repo, report, args.tier)
        if not report.obligations:
            raise AnalysisError(f"no obligation generated for {prop} (vacuous check)")
        replay_only = None
        if args.replay:
            with open(args.replay, "r", encoding="utf-8") as fh:
                replay_only = json.load(fh)
        status = finish(report, args.tier, seed, t0, args.evidence_dir, getattr(mod, "EXPLANATION", mod.__doc__ or prop), replay_only)
        if status == 0 and args.tier == "thorough" and not args.no_selftest and replay_only is None:
            from . import selftest

            st = selftest.run_for(prop, args.root, seed)
            if st != 0:
                print(f"ANALYSIS-ERROR property={prop} checker self-test failed (the checker, not the repository, is at fault)")
                return 2
        return status
    except AnalysisError as exc:
        print(f"ANALYSIS-ERROR property={prop} {exc}")
        return 2
    except Exception:  # a traceback must never look like a violation
        traceback.print_exc()
        print(f"ANALYSIS-ERROR property={prop} internal error in the checker")
        return 2


if __name__ == "__main__":
    sys.exit(main())
