"""Seeded mutants and behaviour-preserving twins for the checker self-test.

Entry: (name, file, old text, new text, expectation, [substring of rule or construct site expected in the report])
expectation: "violation" (the check must report it) or "silent" (the check must stay silent).
"""

ALG = "kaira/models/fec/algebra.py"
THR = "kaira/models/binary/soft_bit_thresholding.py"
PSK = "kaira/modulations/psk.py"
QAM = "kaira/modulations/qam.py"
PAM = "kaira/modulations/pam.py"
DPSK = "kaira/modulations/dpsk.py"
OQPSK = "kaira/modulations/oqpsk.py"
PI4 = "kaira/modulations/pi4qpsk.py"
FECU = "kaira/models/fec/utils.py"
PAR = "kaira/models/generic/parallel.py"
SEQ = "kaira/models/generic/sequential.py"
BASE = "kaira/models/base.py"
BR = "kaira/models/generic/branching.py"
CC = "kaira/models/channel_code.py"
DJ = "kaira/models/deepjscc.py"
FB = "kaira/models/feedback_channel.py"
MAC = "kaira/models/multiple_access_channel.py"
WZ = "kaira/models/wyner_ziv.py"
BER = "kaira/metrics/signal/ber.py"
BLER = "kaira/metrics/signal/bler.py"
BM = "kaira/benchmarks/metrics.py"
AN = "kaira/channels/analog.py"
SCF = "kaira/models/fec/decoders/successive_cancellation.py"
PEF = "kaira/models/fec/encoders/polar_code.py"
PBPF = "kaira/models/fec/decoders/belief_propagation_polar.py"
SLF = "kaira/models/fec/decoders/syndrome_lookup.py"
MLF = "kaira/models/fec/decoders/brute_force_ml.py"
BMF = "kaira/models/fec/decoders/berlekamp_massey.py"
GOLF = "kaira/models/fec/encoders/golay_code.py"
CYCF = "kaira/models/fec/encoders/cyclic_code.py"
BCHF = "kaira/models/fec/encoders/bch_code.py"
HAMF = "kaira/models/fec/encoders/hamming_code.py"
RMF = "kaira/models/fec/encoders/reed_muller_code.py"
LINF = "kaira/models/fec/encoders/linear_block_code.py"
SYSF = "kaira/models/fec/encoders/systematic_linear_block_code.py"
DG = "kaira/channels/digital.py"
PW = "kaira/constraints/power.py"
SG = "kaira/constraints/signal.py"
AT = "kaira/constraints/antenna.py"
CU = "kaira/constraints/utils.py"
SNRU = "kaira/utils/snr.py"
SNRM = "kaira/metrics/signal/snr.py"
WAG = "kaira/models/fec/decoders/wagner_soft_decision_decoder.py"
RMD = "kaira/models/fec/decoders/reed_muller_decoder.py"
BP = "kaira/models/fec/decoders/belief_propagation.py"
SC = "kaira/models/fec/decoders/successive_cancellation.py"

MUTANTS = {
    "C18": [
        ("modulus m=5 non-primitive", ALG, "5: 0b100101,", "5: 0b100111,", "violation", "F-MODULUS"),
        ("modulus m=8 reducible", ALG, "8: 0b100011101,", "8: 0b100011011,", "violation", "F-MODULUS"),
        ("modulus m=13 wrong degree", ALG, "13: 0b10000000011011,", "13: 0b1000000011011,", "violation", "F-MODULUS"),
        ("drop m=16 entry", ALG, "                16: 0b10001000000001011,  # x^16 + x^12 + x^3 + x + 1\n", "", "violation", "F-MODULUS-COVER"),
        ("primitive element literal", ALG, "return self((BinaryPolynomial(0b10) % self.modulus).value)", "return self(0b10)", "violation", "PRIMITIVE-ELEMENT"),
        ("addition OR instead of XOR", ALG, "return FiniteBifieldElement(self.field, self.value ^ other.value)", "return FiniteBifieldElement(self.field, self.value | other.value)", "violation", "CLOSED-FORM"),
        ("inverse exponent", ALG, "return self ** (self.field.size - 2)", "return self ** (self.field.size - 1)", "violation", "CLOSED-FORM"),
        ("trace one squaring short", ALG, "        result = self.value\n        element = self\n\n        for _ in range(1, self.field.m):", "        result = self.value\n        element = self\n\n        for _ in range(2, self.field.m):", "violation", "CLOSED-FORM"),
        ("euclid swapped", ALG, "a, b = b, a % b", "a, b = b, b % a", "violation", "CLOSED-FORM"),
        ("mul reduce by size", ALG, "result_poly = (a_poly * b_poly) % self.field.modulus", "result_poly = (a_poly * b_poly) % BinaryPolynomial(self.field.size)", "violation", "CLOSED-FORM"),
        ("carry-less multiply adds", ALG, "                result ^= a  # XOR (equivalent to addition in GF(2))", "                result += a", "violation", "CLOSED-FORM"),
        ("division keeps going", ALG, "            if remainder_degree < modulus_degree:\n                break", "            if remainder_degree <= modulus_degree:\n                break", "violation", "CLOSED-FORM"),
        ("value-keyed shortcut", ALG, "        # Use square-and-multiply algorithm for efficiency\n", "        if self.value == 7:\n            return self\n", "violation", "G1"),
        ("minimal polynomial returned untested", ALG, "            if all_zero:\n                self._minimal_poly = p\n                return p", "            if all_zero or mask == (1 << d) - 1:\n                self._minimal_poly = p\n                return p", "violation", "CLOSED-FORM"),
        ("twin: rename temporaries in __mul__", ALG, "        result_poly = (a_poly * b_poly) % self.field.modulus\n\n        return FiniteBifieldElement(self.field, result_poly.value)", "        reduced = (a_poly * b_poly) % self.field.modulus\n\n        return FiniteBifieldElement(self.field, reduced.value)", "silent"),
        ("twin: x*2 instead of shift", ALG, "            a <<= 1  # Multiply a by x (shift left)", "            a = a * 2", "silent"),
        ("twin: commuted XOR", ALG, "return FiniteBifieldElement(self.field, self.value ^ other.value)", "return FiniteBifieldElement(self.field, other.value ^ self.value)", "silent"),
    ],
    "C15": [
        ("QAM LLR swapped", QAM, "llrs[..., bit_idx] = (dist_1 - dist_0) / (2 * noise_var_tensor)", "llrs[..., bit_idx] = (dist_0 - dist_1) / (2 * noise_var_tensor)", "violation", "QAMDemodulator"),
        ("QPSK LLR swapped", PSK, "llrs[..., bit_idx] = min_dist_0 - min_dist_1", "llrs[..., bit_idx] = min_dist_1 - min_dist_0", "violation", "QPSKDemodulator"),
        ("QPSK helper un-negated", PSK, "distances[..., i] = -torch.abs(y - point) ** 2 / noise_var", "distances[..., i] = torch.abs(y - point) ** 2 / noise_var", "violation", "QPSKDemodulator"),
        ("PSK masks swapped", PSK, "                bit_0_mask = self.modulator.bit_patterns[:, bit_idx] == 0\n                bit_1_mask = ~bit_0_mask\n\n                # Get corresponding points", "                bit_0_mask = self.modulator.bit_patterns[:, bit_idx] == 1\n                bit_1_mask = ~bit_0_mask\n\n                # Get corresponding points", "violation", "PSKDemodulator"),
        ("PAM llr sign", PAM, "bit_llr = min_dist_1 - min_dist_0", "bit_llr = min_dist_0 - min_dist_1", "violation", "PAMDemodulator"),
        ("QAM farthest point", QAM, "min_distances, _ = torch.min(squared_distances, dim=-1)", "min_distances, _ = torch.max(squared_distances, dim=-1)", "violation", "QAMDemodulator"),
        ("BPSK LLR sign", PSK, "return 2.0 * y_real / noise_var", "return -2.0 * y_real / noise_var", "violation", "BPSKDemodulator"),
        ("OQPSK LLR sign", OQPSK, "llr_real = 2 * y_real * self._normalization / noise_var_tensor", "llr_real = -2 * y_real * self._normalization / noise_var_tensor", "violation", "OQPSKDemodulator"),
        ("pi/4 LLR swapped", PI4, "output_bits[..., i, bit_idx] = min_dist_0 - min_dist_1", "output_bits[..., i, bit_idx] = min_dist_1 - min_dist_0", "violation", "Pi4QPSKDemodulator"),
        ("LLRThresholder comparison", THR, "return (scaled_llrs < self.threshold).float()", "return (scaled_llrs > self.threshold).float()", "violation", "LLRThresholder"),
        ("LLRThresholder soft output", THR, "return torch.sigmoid(-scaled_llrs)  # Negative sign because sigmoid maps to P(bit=1)", "return torch.sigmoid(scaled_llrs)", "violation", "LLRThresholder"),
        ("Weighted sigmoid sign", THR, "            x_prob = torch.sigmoid(-x)  # Negative sign for P(bit=1)\n        else:\n            x_prob = x\n\n        # Apply weights", "            x_prob = torch.sigmoid(x)\n        else:\n            x_prob = x\n\n        # Apply weights", "violation", "WeightedThresholder"),
        ("Hysteresis masks exchanged", THR, "        new_state[high_mask] = 1.0\n        new_state[low_mask] = 0.0", "        new_state[high_mask] = 0.0\n        new_state[low_mask] = 1.0", "violation", "HysteresisThresholder"),
        ("sign_to_bin inverted", FECU, "return 0.5 * (1 - x)", "return 0.5 * (1 + x)", "violation", "sign_to_bin"),
        ("llr_to_bits inverted", FECU, "return torch.round(torch.sigmoid(-x))", "return torch.round(torch.sigmoid(x))", "violation", "llr_to_bits"),
        ("Wagner hard decision", WAG, "hard_decisions = (received < 0).to(torch.int)", "hard_decisions = (received > 0).to(torch.int)", "violation", "Wagner"),
        ("RM soft decision", RMD, "u_hat[j] = (decision_var < 0).to(torch.int)", "u_hat[j] = (decision_var > 0).to(torch.int)", "violation", "ReedMuller"),
        ("BP sign negated", BP, "decoded_info = sign_to_bin(torch.sign(decoded_llr))", "decoded_info = sign_to_bin(-torch.sign(decoded_llr))", "violation", "BeliefPropagation"),
        ("repetition default thresholder", THR, "self.thresholder = LLRThresholder(threshold=0.0, output_type=OutputType.HARD)", "self.thresholder = FixedThresholder(threshold=0.0, input_type=input_type)", "violation", "RepetitionSoftBitDecoder"),
        ("MinDistance index as bit", THR, "            result = (self.ref_points[min_indices] < 0).float()", "            result = min_indices.float()", "violation", "MinDistanceThresholder"),
        ("twin: -(a-b)", QAM, "llrs[..., bit_idx] = (dist_1 - dist_0) / (2 * noise_var_tensor)", "llrs[..., bit_idx] = -(dist_0 - dist_1) / (2 * noise_var_tensor)", "silent"),
        ("twin: rename locals", PAM, "bit_llr = min_dist_1 - min_dist_0\n\n                # Store LLR in the output tensor at the correct position\n                llr_idx = sym_idx * self._bits_per_symbol + bit_idx\n                llrs[..., llr_idx] = bit_llr.squeeze(-1)", "value = min_dist_1 - min_dist_0\n\n                llr_idx = sym_idx * self._bits_per_symbol + bit_idx\n                llrs[..., llr_idx] = value.squeeze(-1)", "silent"),
        ("twin: >= 0 complement form", THR, "return (scaled_llrs < self.threshold).float()", "return 1.0 - (scaled_llrs >= self.threshold).float()", "silent"),
        ("twin: sign_to_bin other form", FECU, "return 0.5 * (1 - x)", "return (1 - x) / 2", "silent"),
    ],
    "C17": [
        ("sequential skips with continue", SEQ, "        for step in self.steps:\n            result = step(result, *args, **kwargs)  # Pass *args and **kwargs to each step", "        for step in self.steps:\n            if step is None:\n                continue\n            result = step(result, *args, **kwargs)", "violation", "SEQ-LOOP"),
        ("sequential drops kwargs", SEQ, "result = step(result, *args, **kwargs)  # Pass *args and **kwargs to each step", "result = step(result, *args)", "violation", "SEQ-LOOP"),
        ("sequential reversed", SEQ, "        for step in self.steps:\n            result = step(result, *args, **kwargs)  # Pass", "        for step in reversed(self.steps):\n            result = step(result, *args, **kwargs)  # Pass", "violation", "SEQ-LOOP"),
        ("configurable applies input again", BASE, "        for step in self.steps:\n            result = step(result, *args, **kwargs)\n        return result", "        for step in self.steps:\n            result = step(input_data, *args, **kwargs)\n        return result", "violation", "SEQ-LOOP"),
        ("channel code order", CC, "            encoder,\n            modulator,\n            constraint,\n            channel,", "            encoder,\n            constraint,\n            modulator,\n            channel,", "violation", "STAGE-LIST"),
        ("deepjscc order", DJ, "super().__init__([encoder, constraint, channel, decoder], *args, **kwargs)", "super().__init__([encoder, channel, constraint, decoder], *args, **kwargs)", "violation", "STAGE-LIST"),
        ("parallel aggregates completion order", PAR, "        results = {name: results[name] for name, _ in self.step_configs}\n", "", "violation", "ORDER-TAINT"),
        ("parallel list copy keeps completion order", PAR, "            return self.aggregator(list(results.values()))", "            ordered = [v for v in results.values()]\n            return self.aggregator(ordered)", "silent"),
        ("parallel aggregator reads raw futures order", PAR, "        results = {name: results[name] for name, _ in self.step_configs}\n", "        done_order = list(results.values())\n        results = {name: results[name] for name, _ in self.step_configs}\n        if self.aggregator:\n            return self.aggregator(done_order)\n", "violation", "ORDER-TAINT"),
        ("branching skips first", BR, "            if condition_result:\n                output = model(x, *args, **kwargs)", "            if not condition_result:\n                output = model(x, *args, **kwargs)", "violation", "FIRST-MATCH"),
        ("branching sorted names", BR, "for name, (condition, model) in self.branches.items():", "for name, (condition, model) in sorted(self.branches.items()):", "violation", "FIRST-MATCH"),
        ("feedback early exit", FB, "            feedback_history.append(feedback)\n            final_output = decoded\n", "            feedback_history.append(feedback)\n            final_output = decoded\n            if i > 0 and torch.equal(decoded, input_data):\n                break\n", "violation", "ROUNDS"),
        ("feedback one round short", FB, "for i in range(self.max_iterations):", "for i in range(self.max_iterations - 1):", "violation", "ROUNDS"),
        ("feedback decoder sees encoded", FB, "decoded = self.decoder(received, *args, **kwargs)", "decoded = self.decoder(encoded, *args, **kwargs)", "violation", "PROVENANCE"),
        ("mac constraint skipped", MAC, "received_signal = self.channel(constrained_signal, *args, **kwargs)", "received_signal = self.channel(combined_signal, *args, **kwargs)", "violation", "PROVENANCE"),
        ("mac constraint per user", MAC, "encoded_signals.append(encoder(x[i], *args, **kwargs))", "encoded_signals.append(self.power_constraint(encoder(x[i], *args, **kwargs)))", "violation", "PROVENANCE"),
        ("mac mean instead of sum", MAC, "combined_signal = torch.sum(torch.stack(encoded_signals), dim=0)", "combined_signal = torch.mean(torch.stack(encoded_signals), dim=0)", "violation", "PROVENANCE"),
        ("wz channel before constraint", WZ, "        # Apply optional power constraint on syndromes\n        if self.constraint is not None:\n            res = self.constraint(res)\n\n        # Transmit syndromes through channel\n        res = self.channel(res, *args, **kwargs)", "        res = self.channel(res, *args, **kwargs)\n        if self.constraint is not None:\n            res = self.constraint(res)", "violation", "PROVENANCE"),
        ("twin: parallel rebuild by list comprehension", PAR, "            return self.aggregator(list(results.values()))", "            return self.aggregator([results[name] for name, _ in self.step_configs])", "silent"),
        ("twin: mac temporaries", MAC, "        constrained_signal = self.power_constraint(combined_signal)\n", "        limited = self.power_constraint(combined_signal)\n        constrained_signal = limited\n", "silent"),
        ("twin: sequential renamed accumulator", SEQ, "        result = input_data\n        for step in self.steps:\n            result = step(result, *args, **kwargs)  # Pass *args and **kwargs to each step\n        return result", "        out = input_data\n        for stage in self.steps:\n            out = stage(out, *args, **kwargs)\n        return out", "silent"),
    ],
    "C16": [
        ("reset forgets errors", BER, "        self.total_bits.zero_()\n        self.error_bits.zero_()", "        self.total_bits.zero_()", "violation", "ACC"),
        ("update uses >=", BER, "            x_bits = (x > self.threshold).bool()\n            y_bits = (y > self.threshold).bool()\n            errors = (x_bits != y_bits).float()\n            batch_errors", "            x_bits = (x >= self.threshold).bool()\n            y_bits = (y > self.threshold).bool()\n            errors = (x_bits != y_bits).float()\n            batch_errors", "violation"),
        ("update complex counts once", BER, "            batch_bits = x.numel() * 2", "            batch_bits = x.numel()", "violation", "SIBLING"),
        ("update overwrites", BER, "        self.error_bits += batch_errors", "        self.error_bits = batch_errors", "violation", "ACC"),
        ("update running mean", BER, "        self.error_bits += batch_errors", "        self.error_bits += batch_errors + self.error_bits // 2", "violation", "ACC"),
        ("compute swapped", BER, "return self.error_bits.float() / max(self.total_bits.item(), 1)", "return self.total_bits.float() / max(self.error_bits.item(), 1)", "violation"),
        ("forward mutates", BER, "        error_rate = torch.tensor(num_errors / total_bits if total_bits > 0 else 0.0)\n", "        self.total_bits += int(total_bits)\n        error_rate = torch.tensor(num_errors / total_bits if total_bits > 0 else 0.0)\n", "violation", "ACC"),
        ("bler all instead of any", BLER, "        block_has_error = errors_in_block.any(dim=-1)\n\n        self.total_blocks", "        block_has_error = errors_in_block.all(dim=-1)\n\n        self.total_blocks", "violation"),
        ("bler update >=", BLER, "        errors_in_block = torch.abs(x_blocks - y_blocks) > self.threshold\n        block_has_error = errors_in_block.any(dim=-1)\n\n        self.total_blocks", "        errors_in_block = torch.abs(x_blocks - y_blocks) >= self.threshold\n        block_has_error = errors_in_block.any(dim=-1)\n\n        self.total_blocks", "violation", "SIBLING"),
        ("bler truncates", BLER, "        if elements_per_batch_item % self.block_size != 0:\n            raise ValueError(", "        if elements_per_batch_item % self.block_size != 0 and elements_per_batch_item < self.block_size:\n            raise ValueError(", "violation", "BLOCKS"),
        ("bler asymmetric", BLER, "        errors_in_block = torch.abs(x_blocks - y_blocks) > self.threshold\n        block_has_error = errors_in_block.any(dim=-1)\n\n        self.total_blocks", "        errors_in_block = (x_blocks - y_blocks) > self.threshold\n        block_has_error = errors_in_block.any(dim=-1)\n\n        self.total_blocks", "violation"),
        ("alias to BER", BLER, "SER = BlockErrorRate", "SER = BitErrorRateAlias", "violation", "ALIAS"),
        ("benchmark ber denominator", BM, "        total_bits = transmitted.numel()\n        return float(errors / total_bits)", "        total_bits = transmitted.shape[0]\n        return float(errors / total_bits)", "violation", "BENCH"),
        ("benchmark bler all", BM, "block_errors = torch.sum(torch.any(transmitted_blocks != received_blocks, dim=1))", "block_errors = torch.sum(torch.all(transmitted_blocks != received_blocks, dim=1))", "violation", "BENCH"),
        ("twin: update temporaries renamed", BER, "            errors = (x_bits != y_bits).float()\n            batch_errors = errors.sum().long()\n            batch_bits = x.numel()", "            mism = (x_bits != y_bits).float()\n            batch_errors = mism.sum().long()\n            batch_bits = x.numel()", "silent"),
        ("twin: reset fill", BER, "        self.total_bits.zero_()\n        self.error_bits.zero_()", "        self.error_bits.zero_()\n        self.total_bits.zero_()", "silent"),
    ],
    "C07": [
        ("complex noise gets full power per component", AN, "noise_power_component = noise_power * 0.5", "noise_power_component = noise_power", "violation", "VARIANCE-LAW"),
        ("real noise std not sqrt", AN, "noise = torch.randn_like(x) * torch.sqrt(noise_power)", "noise = torch.randn_like(x) * noise_power", "violation", "VARIANCE-LAW"),
        ("snr uses amplitude convention", SNRU, "return 10 ** (snr_db / 10.0)", "return 10 ** (snr_db / 20.0)", "violation"),
        ("snr_to_noise_power multiplies", SNRU, "result = signal_power / snr_linear", "result = signal_power * snr_linear", "violation"),
        ("laplacian component scale dropped", AN, "component_scale = scale / (2**0.5)", "component_scale = scale", "violation", "LaplacianChannel"),
        ("laplacian variance convention", AN, "scale = torch.sqrt(target_noise_power / 2)", "scale = torch.sqrt(target_noise_power)", "violation", "LaplacianChannel"),
        ("awgn override scaled", AN, "        if noise is not None:\n            return x + noise\n\n        return _apply_noise", "        if noise is not None:\n            return x + 0.5 * noise\n\n        return _apply_noise", "violation", "OVERRIDE"),
        ("awgn signal attenuated", AN, "    return x + noise\n\n\n@ChannelRegistry.register_channel()\nclass AWGNChannel", "    return 0.5 * x + noise\n\n\n@ChannelRegistry.register_channel()\nclass AWGNChannel", "violation", "_apply_noise"),
        ("fading noise calibrated on x", AN, "signal_power = torch.mean(torch.abs(y) ** 2)\n                # self.snr_db is guaranteed", "signal_power = torch.mean(torch.abs(x) ** 2)\n                # self.snr_db is guaranteed", "violation", "FlatFadingChannel"),
        ("fading noise full power per component", AN, "component_noise_power = noise_power_tensor * 0.5", "component_noise_power = noise_power_tensor", "violation", "FlatFadingChannel"),
        ("metric 20 log10", SNRM, "                snr = 10 * torch.log10(snr_linear)\n            else:\n                snr = snr_linear\n\n            # Return scalar tensor", "                snr = 20 * torch.log10(snr_linear)\n            else:\n                snr = snr_linear\n\n            # Return scalar tensor", "violation", "DB-KIND"),
        ("calculate_snr inverted", SNRU, "return 10 * torch.log10(original_power / noise_power)", "return 10 * torch.log10(noise_power / original_power)", "violation", "DB-KIND"),
        ("benchmark snr amplitude ratio", BM, "        signal_power = torch.mean(torch.abs(signal) ** 2)\n        noise_power = torch.mean(torch.abs(noise) ** 2)\n\n        if noise_power == 0:", "        signal_power = torch.mean(torch.abs(signal))\n        noise_power = torch.mean(torch.abs(noise))\n\n        if noise_power == 0:", "violation", "DB-KIND"),
        ("add_noise_for_snr complex std", SNRU, "noise_std = torch.sqrt(noise_power / 2)", "noise_std = torch.sqrt(noise_power) / 2", "violation", "add_noise_for_snr"),
        ("nonlinear noise on input", AN, "y = _apply_noise(y, snr_db=self.snr_db, noise_power=self.avg_noise_power)", "y = y + (_apply_noise(x, snr_db=self.snr_db, noise_power=self.avg_noise_power) - x)", "violation", "NonlinearChannel"),
        ("laplace sampler two draws", AN, "        abs_shifted_u = torch.abs(shifted_u)", "        abs_shifted_u = torch.abs(torch.rand(shape, device=device) - 0.5)", "violation", "LAPLACE-UNIT"),
        ("noise floor in snr mode", AN, "        noise_power = snr_to_noise_power(signal_power, snr_db_float)\n\n    # Validate", "        noise_power = snr_to_noise_power(signal_power, snr_db_float)\n        noise_power = torch.clamp(noise_power, min=torch.finfo(torch.float32).eps)\n\n    # Validate", "violation", "_apply_noise"),
        ("twin: P/2 instead of P*0.5", AN, "noise_power_component = noise_power * 0.5", "noise_power_component = noise_power / 2", "silent"),
        ("twin: sqrt split", AN, "component_scale = scale / (2**0.5)", "component_scale = scale * (0.5**0.5)", "silent"),
        ("twin: rename", AN, "        noise_real = torch.randn_like(x.real) * torch.sqrt(noise_power_component)\n        noise_imag = torch.randn_like(x.imag) * torch.sqrt(noise_power_component)\n        noise = torch.complex(noise_real, noise_imag)", "        std = torch.sqrt(noise_power_component)\n        n_re = torch.randn_like(x.real) * std\n        n_im = torch.randn_like(x.imag) * std\n        noise = torch.complex(n_re, n_im)", "silent"),
    ],
    "C08": [
        ("total power: sqrt dropped", PW, "            scale = torch.sqrt(self.total_power / (current_power + 1e-8))\n\n            # Create the output tensor", "            scale = self.total_power / (current_power + 1e-8)\n\n            # Create the output tensor", "violation", "POWER-LAW"),
        ("total power: batch axis reduced", PW, "                current_power = torch.sum(x_reshaped**2, dim=1, keepdim=True)\n\n            # Handle zero signals in a vectorized way\n            zero_mask = current_power < 1e-10\n\n            # Compute scaling factors for all batch items at once\n            scale = torch.sqrt(self.total_power", "                current_power = torch.sum(x_reshaped**2, dim=0, keepdim=True)\n\n            # Handle zero signals in a vectorized way\n            zero_mask = current_power < 1e-10\n\n            # Compute scaling factors for all batch items at once\n            scale = torch.sqrt(self.total_power", "violation", "POWER-LAW"),
        ("total power: batch-coupled eps", PW, "            scale = torch.sqrt(self.total_power / (current_power + 1e-8))\n\n            # Create the output tensor", "            eps = 1e-8 * torch.clamp(current_power.max(), min=1.0)\n            scale = torch.sqrt(self.total_power / (current_power + eps))\n\n            # Create the output tensor", "violation", "POWER-LAW"),
        ("average power single: mean forgotten", PW, "            current_power = torch.sum(x**2) / num_elements", "            current_power = torch.sum(x**2)", "violation", "POWER-LAW"),
        ("average power: large eps", PW, "            scale = torch.sqrt(self.average_power / (current_power + 1e-8))\n\n            # Create the output tensor", "            scale = torch.sqrt(self.average_power / (current_power + 1e-2))\n\n            # Create the output tensor", "violation", "POWER-LAW"),
        ("total power zero substitute level", PW, "uniform_value = self.total_power_factor / torch.sqrt(torch.tensor(x_reshaped.shape[1]))", "uniform_value = self.total_power_factor / torch.tensor(x_reshaped.shape[1])", "violation", "POWER-LAW"),
        ("total power: negative scale", PW, "        # Scale the input to achieve desired total power\n        return x * scale", "        # Scale the input to achieve desired total power\n        return -x * scale", "violation", "POWER-LAW"),
        ("per antenna: reduce antenna axis too", AT, "spatial_dims = tuple(range(2, len(x.shape)))", "spatial_dims = tuple(range(1, len(x.shape)))", "violation", "POWER-LAW"),
        ("per antenna: amplitude ratio", AT, "scaling_factor = torch.sqrt(target_power / (antenna_power + 1e-8))", "scaling_factor = target_power / (antenna_power + 1e-8)", "violation", "POWER-LAW"),
        ("peak: signed early return", SG, "        # Simple clipping approach\n        return torch.clamp", "        if torch.max(x) <= self.max_amplitude:\n            return x\n        return torch.clamp", "violation", "PEAK"),
        ("peak: one-sided clamp", SG, "return torch.clamp(x, -self.max_amplitude, self.max_amplitude)", "return torch.clamp(x, max=self.max_amplitude)", "violation", "PEAK"),
        ("papr: final bound above limit", PW, "final_max_amplitude = torch.sqrt(avg_power * self.max_papr * 0.98)", "final_max_amplitude = torch.sqrt(avg_power * self.max_papr * 1.2)", "violation", "PAPR"),
        ("papr: final clip loses sign", PW, "            result = torch.where(final_excess_mask, normalized * final_max_amplitude, result)", "            result = torch.where(final_excess_mask, final_max_amplitude, result)", "violation", "PAPR"),
        ("papr: final clip moved into loop", PW, "        if torch.any(final_excess_mask):\n", "        for _ in range(0):\n", "violation", "PAPR"),
        ("twin papr: masked-store form of the final clip", PW, "            normalized = result / (magnitudes + 1e-8)\n            result = torch.where(final_excess_mask, normalized * final_max_amplitude, result)", "            normalized = result[final_excess_mask] / (magnitudes[final_excess_mask] + 1e-8)\n            result[final_excess_mask] = normalized * final_max_amplitude", "ok", "PAPR"),
        ("papr: amplitude instead of power in bound", PW, "final_max_amplitude = torch.sqrt(avg_power * self.max_papr * 0.98)", "final_max_amplitude = avg_power * self.max_papr * 0.98", "violation", "PAPR"),
        ("ofdm: mask-free reorder keeps finding only", CU, "    # Add power constraint\n    constraints.append(TotalPowerConstraint(total_power))\n", "    constraints.insert(0, TotalPowerConstraint(total_power))\n", "silent"),
        ("mimo: papr before power", CU, "    # Add power constraint first\n    if uniform_power is not None:\n        constraints.append(PerAntennaPowerConstraint(uniform_power=uniform_power))\n    else:\n        # At this point, total_power must be a float because of the earlier checks\n        assert total_power is not None, \"total_power cannot be None here due to prior validation\"\n        constraints.append(TotalPowerConstraint(total_power=total_power))\n\n    # Add PAPR constraint if specified\n    if max_papr is not None:\n        from .power import PAPRConstraint\n\n        constraints.append(PAPRConstraint(max_papr=max_papr))\n", "    if max_papr is not None:\n        from .power import PAPRConstraint\n\n        constraints.append(PAPRConstraint(max_papr=max_papr))\n    if uniform_power is not None:\n        constraints.append(PeakAmplitudeConstraint(1.0))\n        constraints.append(PerAntennaPowerConstraint(uniform_power=uniform_power))\n    else:\n        constraints.append(TotalPowerConstraint(total_power=total_power))\n", "violation", "COMPOSITE-ORDER"),
        ("composite skips a stage", "kaira/constraints/composite.py", "        for step in self.constraints:\n            x = step(x, *args, **kwargs)", "        for step in self.constraints[1:]:\n            x = step(x, *args, **kwargs)", "violation", "SEQ-LOOP"),
        ("twin: scale via pow 0.5", PW, "        scale = torch.sqrt(self.total_power / (current_power + 1e-8))\n\n        # Scale the input to achieve desired total power", "        scale = (self.total_power / (current_power + 1e-8)) ** 0.5\n\n        # Scale the input to achieve desired total power", "silent"),
        ("twin: split sqrt", PW, "        scale = torch.sqrt(self.average_power / (current_power + 1e-8))\n\n        # Scale the input to achieve desired average power", "        scale = self.power_avg_factor / torch.sqrt(current_power + 1e-8)\n\n        # Scale the input to achieve desired average power", "silent"),
    ],
    "C12": [
        ("bsc reversed comparison", DG, "flips = (noise < self.crossover_prob).float()", "flips = (noise > self.crossover_prob).float()", "violation", "BERNOULLI"),
        ("bsc non-strict", DG, "flips = (noise < self.crossover_prob).float()", "flips = (noise <= self.crossover_prob).float()", "violation", "BERNOULLI"),
        ("bsc halves probability", DG, "flips = (noise < self.crossover_prob).float()", "flips = (noise < self.crossover_prob / 2).float()", "violation", "BERNOULLI"),
        ("bsc or instead of xor", DG, "y = (x + flips) % 2", "y = torch.clamp(x + flips, max=1)", "violation", "TRANSITION"),
        ("bsc back conversion wrong", DG, "        flips = (noise < self.crossover_prob).float()\n        y = (x + flips) % 2\n\n        # Convert back to original format if needed\n        if neg_one_format:\n            y = 2 * y - 1", "        flips = (noise < self.crossover_prob).float()\n        y = (x + flips) % 2\n\n        # Convert back to original format if needed\n        if neg_one_format:\n            y = 1 - 2 * y", "violation", "BIPOLAR"),
        ("bec erases in place", DG, "y = x.clone().float()", "y = x.float()", "violation"),
        ("bec complement mask", DG, "y[erasure_mask] = self.erasure_symbol", "y[~erasure_mask] = self.erasure_symbol", "violation", "TRANSITION"),
        ("z flips zeros", DG, "ones_mask = x_binary == 1", "ones_mask = x_binary == 0", "violation", "TRANSITION"),
        ("z writes ones", DG, "y[ones_mask] = torch.where(random_values < self.error_prob, torch.zeros_like(y[ones_mask]), y[ones_mask])", "y[ones_mask] = torch.where(random_values < self.error_prob, y[ones_mask], torch.zeros_like(y[ones_mask]))", "violation", "TRANSITION"),
        ("z in-place on input", DG, "            x_binary = x.clone()\n", "            x_binary = x\n", "silent"),
        ("z in-place on input 2", DG, "        y = x_binary.clone().float()", "        y = x_binary.float()", "violation"),
        ("z prob not validated", DG, "        if not 0 <= error_prob <= 1:\n            raise ValueError(\"Error probability must be between 0 and 1\")\n", "", "violation", "PARAM"),
        ("twin: p > U", DG, "flips = (noise < self.crossover_prob).float()", "flips = (self.crossover_prob > noise).float()", "silent"),
        ("twin: bernoulli", DG, "erasure_mask = torch.rand_like(x.float()) < self.erasure_prob", "erasure_mask = torch.rand_like(x.float()) < self.erasure_prob  # same", "silent"),
    ],
    "C13": [
        ("rayleigh not normalised", AN, "            h = torch.complex(h_real, h_imag) / (2**0.5)\n\n        elif self.fading_type == \"rician\":", "            h = torch.complex(h_real, h_imag)\n\n        elif self.fading_type == \"rician\":", "violation", "GAIN"),
        ("rician LOS uses K only", AN, "los_magnitude = torch.sqrt(k / (k + 1))", "los_magnitude = torch.sqrt(k / (k + 2))", "violation", "GAIN"),
        ("rician scatter not split", AN, "scattered_magnitude = torch.sqrt(1 / (k + 1)) / (2**0.5)", "scattered_magnitude = torch.sqrt(1 / (k + 1))", "violation", "GAIN"),
        ("rician LOS amplitude not sqrt", AN, "los_magnitude = torch.sqrt(k / (k + 1))", "los_magnitude = k / (k + 1)", "violation", "GAIN"),
        ("modulo instead of floor division", AN, "block_indices = torch.arange(seq_length, device=device) // self.coherence_time", "block_indices = torch.arange(seq_length, device=device) % self.coherence_time", "violation", "BLOCKS"),
        ("floor instead of ceil blocks", AN, "num_blocks = (seq_length + self.coherence_time - 1) // self.coherence_time", "num_blocks = seq_length // self.coherence_time", "violation", "BLOCKS"),
        ("shared coefficients across batch", AN, "            h_real = torch.randn(batch_size, num_blocks, device=device)\n            h_imag = torch.randn(batch_size, num_blocks, device=device)\n            h = torch.complex(h_real, h_imag) / (2**0.5)", "            h_real = torch.randn(1, num_blocks, device=device).expand(batch_size, num_blocks)\n            h_imag = torch.randn(batch_size, num_blocks, device=device)\n            h = torch.complex(h_real, h_imag) / (2**0.5)", "violation", "BLOCKS"),
        ("row expanded from row 0", AN, "h_expanded[b] = h[b, block_indices]", "h_expanded[b] = h[0, block_indices]", "violation", "BLOCKS"),
        ("csi normalised", AN, "            # Use the provided CSI\n            h = csi", "            # Use the provided CSI\n            h = csi / torch.abs(csi).mean()", "violation", "FORWARD"),
        ("noise override halved", AN, "        if noise is not None:\n            y = y + noise\n        else:", "        if noise is not None:\n            y = y + 0.5 * noise\n        else:", "violation"),
        ("1-D shape not restored", AN, "        elif is_1d:\n            # Remove the batch dimension we added for 1D inputs\n            y = y.squeeze(0)", "        elif is_1d and y.shape[-1] > 1:\n            # Remove the batch dimension we added for 1D inputs\n            y = y.squeeze(0)", "violation", "FORWARD"),
        ("fading applied twice", AN, "        # Apply fading\n        y = h * x", "        # Apply fading\n        y = h * h * x", "violation", "FORWARD"),
        ("twin: x*h", AN, "        # Apply fading\n        y = h * x", "        # Apply fading\n        y = x * h", "silent"),
        ("twin: sqrt(0.5) factor", AN, "            h = torch.complex(h_real, h_imag) / (2**0.5)\n\n        elif self.fading_type == \"rician\":", "            h = torch.complex(h_real, h_imag) * (0.5**0.5)\n\n        elif self.fading_type == \"rician\":", "silent"),
    ],
    "C06": [
        ("qam llr not divided by noise", QAM, "llrs[..., bit_idx] = (dist_1 - dist_0) / (2 * noise_var_tensor)", "llrs[..., bit_idx] = (dist_1 - dist_0) * (2 * noise_var_tensor)", "violation", "LLR-SCALE"),
        ("qam llr sqrt noise", QAM, "llrs[..., bit_idx] = (dist_1 - dist_0) / (2 * noise_var_tensor)", "llrs[..., bit_idx] = (dist_1 - dist_0) / (2 * torch.sqrt(noise_var_tensor))", "violation", "LLR-SCALE"),
        ("qam unsquared distance", QAM, "squared_distances = torch.real(diff * torch.conj(diff))", "squared_distances = torch.abs(diff)", "violation", "LLR-SCALE"),
        ("qam hard argmax", QAM, "closest_indices = torch.argmin(distances, dim=-1)  # (..., N)", "closest_indices = torch.argmax(distances, dim=-1)  # (..., N)", "violation", "HARD-NEAREST"),
        ("qam device perturbation", QAM, "            closest_indices = torch.argmin(distances, dim=-1)  # (..., N)", "            if self.order == 4 and y.device.type == \"cuda\":\n                distances = distances + torch.randn_like(distances) * 1e-5\n            closest_indices = torch.argmin(distances, dim=-1)  # (..., N)", "violation", "G3"),
        ("psk hard negative metric", PSK, "            distances = torch.abs(expanded_y - expanded_const)\n            closest_indices = torch.argmin(distances, dim=-1)  # (..., N)", "            distances = -torch.abs(expanded_y - expanded_const)\n            closest_indices = torch.argmin(distances, dim=-1)  # (..., N)", "violation", "HARD-NEAREST"),
        ("bpsk hard inverted", PSK, "return (y_real < 0).float()", "return (y_real > 0).float()", "violation", "HARD-NEAREST"),
        ("oqpsk hard inverted", OQPSK, "bits_real = (y_real < 0).float()", "bits_real = (y_real >= 0).float()", "violation", "HARD-NEAREST"),
        ("pam soft uses constellation of other table", PAM, "bit_0_indices = (self.modulator.bit_patterns[:, bit_idx] == 0).nonzero().squeeze(1)", "bit_0_indices = (self.bit_table[:, bit_idx] == 0).nonzero().squeeze(1)", "violation"),
        ("dpsk noise doubling dropped to multiply", DPSK, "distances = -torch.abs(y_expanded - points_expanded) ** 2 / noise_var_expanded", "distances = -torch.abs(y_expanded - points_expanded) ** 2 * noise_var_expanded", "violation", "LLR-SCALE"),
        ("pi4 per-symbol variance ignored", PI4, "                        min_dist_0 = min_dist_0 / current_noise_var\n\n                        # Distance to constellation points where bit is 1\n                        distances_1 = -torch.abs(expanded_y - const_bit_1.unsqueeze(0)) ** 2", "                        min_dist_0 = min_dist_0\n\n                        # Distance to constellation points where bit is 1\n                        distances_1 = -torch.abs(expanded_y - const_bit_1.unsqueeze(0)) ** 2", "violation", "LLR-SCALE"),
        ("qpsk hard searches subset", PSK, "            expanded_const = self.modulator.constellation.expand(*([1] * len(batch_shape)), symbol_shape, 4)  # (..., N, 4)", "            expanded_const = self.modulator.constellation[self.modulator.bit_patterns[:, 0] == 0].expand(*([1] * len(batch_shape)), symbol_shape, 2)", "violation", "HARD-NEAREST"),
        ("twin: abs squared in hard", PSK, "            distances = torch.abs(expanded_y - expanded_const)\n            closest_indices = torch.argmin(distances, dim=-1)  # (..., N)", "            distances = torch.abs(expanded_y - expanded_const) ** 2\n            closest_indices = torch.argmin(distances, dim=-1)  # (..., N)", "silent"),
        ("twin: argmax of negated", QAM, "closest_indices = torch.argmin(distances, dim=-1)  # (..., N)", "closest_indices = torch.argmax(-distances, dim=-1)  # (..., N)", "silent"),
        ("twin: noise var factor order", QAM, "llrs[..., bit_idx] = (dist_1 - dist_0) / (2 * noise_var_tensor)", "llrs[..., bit_idx] = 0.5 * (dist_1 - dist_0) / noise_var_tensor", "silent"),
    ],
    "C14": [
        ("qpsk duplicate point", PSK, "im_part = torch.tensor([1.0, -1.0, 1.0, -1.0], dtype=torch.float) * self._normalization\n        self.register_buffer(\"constellation\", torch.complex(re_part, im_part))\n\n        # Bit patterns for each symbol - Gray coded", "im_part = torch.tensor([1.0, -1.0, 1.0, 1.0], dtype=torch.float) * self._normalization\n        self.register_buffer(\"constellation\", torch.complex(re_part, im_part))\n\n        # Bit patterns for each symbol - Gray coded", "violation", "LITERAL-TABLE"),
        ("qpsk labels not gray", PSK, "                [0.0, 1.0],  # Fourth quadrant\n                [1.0, 0.0],  # Second quadrant\n                [1.0, 1.0],  # Third quadrant", "                [0.0, 1.0],  # Fourth quadrant\n                [1.0, 1.0],  # Second quadrant\n                [1.0, 0.0],  # Third quadrant", "violation", "LITERAL-TABLE"),
        ("qpsk duplicate label", PSK, "                [1.0, 1.0],  # Third quadrant", "                [1.0, 0.0],  # Third quadrant", "violation", "LITERAL-TABLE"),
        ("qpsk normalisation constant", PSK, "        self._normalization = 1 / (2**0.5) if normalize else 1.0\n\n        # QPSK mapping table with Gray coding", "        self._normalization = 0.5 if normalize else 1.0\n\n        # QPSK mapping table with Gray coding", "violation", "LITERAL-TABLE"),
        ("oqpsk normalisation constant", OQPSK, "        self._normalization = 1 / (2**0.5) if normalize else 1.0\n\n        # OQPSK constellation", "        self._normalization = 1 / 2 if normalize else 1.0\n\n        # OQPSK constellation", "violation", "LITERAL-TABLE"),
        ("pi4 rotated angles", PI4, "angles_rotated = torch.tensor([0, 2, 6, 4]) * torch.pi / 4", "angles_rotated = torch.tensor([0, 2, 4, 6]) * torch.pi / 4", "violation", "LITERAL-TABLE"),
        ("pi4 gray labels old", PI4, "        bit_patterns = torch.tensor([[0, 0], [0, 1], [1, 0], [1, 1]], dtype=torch.float)\n\n        self.register_buffer(\"bit_patterns\", bit_patterns)", "        bit_patterns = torch.tensor([[0, 0], [0, 1], [1, 1], [1, 0]], dtype=torch.float)\n\n        self.register_buffer(\"bit_patterns\", bit_patterns)", "violation", "LITERAL-TABLE"),
        ("psk gray map wrong", PSK, "                gray_idx = i ^ (i >> 1)  # Binary to Gray conversion\n                bin_str = format(gray_idx, f\"0{self._bits_per_symbol}b\")\n                for j, bit in enumerate(bin_str):\n                    bit_patterns[i, j] = int(bit)\n        else:\n            # Standard binary coding\n            for i in range(self.order):\n                bin_str = format(i, f\"0{self._bits_per_symbol}b\")\n                for j, bit in enumerate(bin_str):\n                    bit_patterns[i, j] = int(bit)\n\n        # Create mapping from bit patterns", "                gray_idx = i ^ (i >> 2)  # Binary to Gray conversion\n                bin_str = format(gray_idx, f\"0{self._bits_per_symbol}b\")\n                for j, bit in enumerate(bin_str):\n                    bit_patterns[i, j] = int(bit)\n        else:\n            # Standard binary coding\n            for i in range(self.order):\n                bin_str = format(i, f\"0{self._bits_per_symbol}b\")\n                for j, bit in enumerate(bin_str):\n                    bit_patterns[i, j] = int(bit)\n\n        # Create mapping from bit patterns", "violation", "GENERATED-TABLE"),
        ("qam normalisation only for gray", QAM, "        if self.normalize:\n            # Normalize to unit average energy\n            energy = torch.mean(torch.abs(constellation) ** 2)\n            constellation = constellation / torch.sqrt(energy)\n", "        if self.gray_coding:\n            if self.normalize:\n                energy = torch.mean(torch.abs(constellation) ** 2)\n                constellation = constellation / torch.sqrt(energy)\n", "violation", "NORMALISE"),
        ("qam normalise by energy", QAM, "            constellation = constellation / torch.sqrt(energy)", "            constellation = constellation / energy", "violation", "NORMALISE"),
        ("pam normalise mean abs", PAM, "            energy = torch.mean(levels**2)", "            energy = torch.mean(torch.abs(levels))", "violation", "NORMALISE"),
        ("qam gray axis swapped", QAM, "                    j_gray = binary_to_gray(j)", "                    j_gray = j", "violation", "GENERATED-TABLE"),
        ("gray_to_binary log step", "kaira/modulations/utils.py", "    mask = num\n    result = num\n\n    while mask > 0:\n        mask >>= 1\n        result ^= mask\n\n    return result", "    result = num\n    result ^= result >> 16\n    result ^= result >> 8\n    result ^= result >> 4\n    result ^= result >> 2\n    result ^= result >> 1\n    return result", "violation", "GRAY-UTIL"),
        ("binary_to_gray shift 2", "kaira/modulations/utils.py", "    return num ^ (num >> 1)", "    return num ^ (num >> 2)", "violation", "GRAY-UTIL"),
        ("array form calls wrong scalar", "kaira/modulations/utils.py", "        binary[i] = gray_to_binary(int(num))", "        binary[i] = binary_to_gray(int(num))", "violation", "GRAY-UTIL"),
        ("twin: qpsk label floats as ints", PSK, "                [0.0, 1.0],  # Fourth quadrant", "                [0, 1],  # Fourth quadrant", "silent"),
        ("twin: normalisation literal form", PSK, "        self._normalization = 1 / (2**0.5) if normalize else 1.0\n\n        # QPSK mapping table with Gray coding", "        self._normalization = 0.5**0.5 if normalize else 1.0\n\n        # QPSK mapping table with Gray coding", "silent"),
    ],
    "C01": [
        ("encode with transposed right inverse", LINF, "return torch.matmul(reshaped_x, self.generator_matrix.to(reshaped_x.dtype)) % 2", "return torch.matmul(reshaped_x, self.generator_right_inverse.t().to(reshaped_x.dtype)) % 2", "violation", "ENCODE-FORM"),
        ("syndrome without transpose", LINF, "return torch.matmul(reshaped_x, self.check_matrix.transpose(0, 1).to(reshaped_x.dtype)) % 2", "return torch.matmul(reshaped_x, self.check_matrix.to(reshaped_x.dtype)) % 2", "violation", "ENCODE-FORM"),
        ("encode not reduced mod 2", LINF, "return torch.matmul(reshaped_x, self.generator_matrix.to(reshaped_x.dtype)) % 2", "return torch.matmul(reshaped_x, self.generator_matrix.to(reshaped_x.dtype))", "violation", "ENCODE-FORM"),
        ("systematic gather permutation", SYSF, "            # Place information bits directly\n            codewords[..., self.information_set] = reshaped_x\n\n            # Place parity bits\n            codewords[..., self.parity_set] = parity_bits\n", "            perm = torch.cat([self.information_set, self.parity_set])\n            codewords = torch.cat([reshaped_x, parity_bits], dim=-1)[..., perm]\n", "violation", "SYSTEMATIC"),
        ("systematic value-keyed fast path", SYSF, "            # Create output tensor of the right shape\n            batch_shape = reshaped_x.shape[:-1]", "            if int(self.information_set[0]) == 0 and int(self.information_set[-1]) == self._dimension - 1:\n                return torch.cat([reshaped_x, parity_bits], dim=-1)\n            batch_shape = reshaped_x.shape[:-1]", "violation", "SYSTEMATIC"),
        ("cyclic check matrix fixed layout", "kaira/models/fec/encoders/cyclic_code.py", "        check_matrix[:, self.parity_set] = torch.eye(self._redundancy, dtype=torch.float32, device=self.generator_matrix.device)\n        check_matrix[:, self.information_set] = self.parity_submatrix.T.to(torch.float32)\n        self._check_matrix = check_matrix", "        check_matrix[:, : self._redundancy] = torch.eye(self._redundancy, dtype=torch.float32, device=self.generator_matrix.device)\n        check_matrix[:, self._redundancy :] = self.parity_submatrix.T.to(torch.float32)\n        self._check_matrix = check_matrix", "violation", "CHECK-LAYOUT"),
        ("cyclic dead string comparison", "kaira/models/fec/encoders/cyclic_code.py", "        self._check_matrix = check_matrix\n", "        self._check_matrix = check_matrix if self.information_set == \"left\" else check_matrix\n", "violation", "T-STR"),
        ("null space constant fallback", LINF, "    reduced, transform, pivots = _gf2_row_reduce(matrix)\n    free_columns", "    reduced, transform, pivots = _gf2_row_reduce(matrix)\n    if len(pivots) < k:\n        return torch.zeros((n - k, n), dtype=matrix.dtype)\n    free_columns", "violation"),
        ("ldpc generator cut at m", "kaira/models/fec/encoders/ldpc_code.py", "generator_matrix = row_reduction(check_matrix_eye[rank:, check_matrix.shape[1] :])[0]", "generator_matrix = row_reduction(check_matrix_eye[check_matrix.shape[1] :, check_matrix.shape[1] :])[0]", "violation", "VERIFIED-RETURN"),
        ("rs re-registers left generator", "kaira/models/fec/encoders/reed_solomon_code.py", "        super().__init__(parity_submatrix=parity_submatrix, information_set=information_set, dtype=dtype, **kwargs)\n", "        super().__init__(parity_submatrix=parity_submatrix, information_set=information_set, dtype=dtype, **kwargs)\n        self.register_buffer(\"generator_matrix\", generator_matrix)\n", "violation", "INFO-SET"),
        ("shape keyed special case in encoder", LINF, "        def encode_fn(reshaped_x):\n", "        if x.shape[-1] == 7:\n            return x\n\n        def encode_fn(reshaped_x):\n", "violation"),
        ("twin: matmul operator", LINF, "return torch.matmul(reshaped_x, self.generator_matrix.to(reshaped_x.dtype)) % 2", "return reshaped_x @ self.generator_matrix.to(reshaped_x.dtype) % 2", "silent"),
        ("twin: systematic store order", SYSF, "            # Place information bits directly\n            codewords[..., self.information_set] = reshaped_x\n\n            # Place parity bits\n            codewords[..., self.parity_set] = parity_bits\n", "            codewords[..., self.parity_set] = parity_bits\n            codewords[..., self.information_set] = reshaped_x\n", "silent"),
    ],
    "C04": [
        ("right inverse rounded pseudo-inverse", LINF, "    reduced, transform, pivots = _gf2_row_reduce(matrix)\n    if len(pivots) < k:\n        raise ValueError", "    pseudo_inv = torch.linalg.pinv(matrix.float())\n    result_binary = (torch.matmul(matrix.float(), pseudo_inv).round() % 2).type(matrix.dtype)\n    if torch.allclose(result_binary, torch.eye(k, dtype=matrix.dtype)):\n        return (pseudo_inv.round() % 2).type(matrix.dtype)\n    reduced, transform, pivots = _gf2_row_reduce(matrix)\n    if len(pivots) < k:\n        raise ValueError", "violation", "VERIFIED-RETURN"),
        ("right inverse shape-keyed constant", LINF, "    reduced, transform, pivots = _gf2_row_reduce(matrix)\n    if len(pivots) < k:\n        raise ValueError", "    if k == 3 and n == 7:\n        right_inv = torch.zeros((7, 3), dtype=matrix.dtype)\n        right_inv[0, 0] = 1\n        return right_inv\n    reduced, transform, pivots = _gf2_row_reduce(matrix)\n    if len(pivots) < k:\n        raise ValueError", "violation"),
        ("right inverse fallback", LINF, "        raise ValueError(\"The generator matrix does not have full row rank over GF(2); it has no right inverse\")", "        return torch.zeros((n, k), dtype=matrix.dtype)", "violation"),
        ("inverse uses generator transpose", LINF, "return torch.matmul(reshaped_x, self.generator_right_inverse.to(reshaped_x.dtype)) % 2", "return torch.matmul(reshaped_x, self.generator_matrix.t().to(reshaped_x.dtype)) % 2", "violation", "INVERSE-FORM"),
        ("inverse block size k", LINF, "        decoded = apply_blockwise(x, self.code_length, decode_fn)", "        decoded = apply_blockwise(x, self.code_dimension, decode_fn)", "violation", "INVERSE-FORM"),
        ("hamming single block reshape", "kaira/models/fec/encoders/hamming_code.py", "decoded = decoded.reshape(*original_dims, -1)", "decoded = decoded.reshape(*original_dims, self.code_dimension)", "violation", "BLOCKWISE"),
        ("rm 2-D only", "kaira/models/fec/encoders/reed_muller_code.py", "        y2d = x.reshape(-1, self.code_length)\n", "        if x.dim() == 1:\n            y2d = x.unsqueeze(0)\n        else:\n            y2d = x\n", "violation", "BLOCKWISE"),
        ("twin: view instead of reshape in blockwise", "kaira/models/fec/utils.py", "        return result.view(*leading_dims, -1)", "        return result.reshape(*leading_dims, -1)", "silent"),
    ],
    "C03": [
        ("golay matrix entry flipped", GOLF, "            [0, 0, 0, 0, 1, 1, 1, 1, 1, 1, 1],", "            [0, 0, 0, 1, 1, 1, 1, 1, 1, 1, 1],", "violation", "GOLAY"),
        ("golay extension constant", GOLF, "        last_column = (1 + row_sums) % 2", "        last_column = torch.ones_like(row_sums)", "violation"),
        ("golay extension parity inverted", GOLF, "        last_column = (1 + row_sums) % 2", "        last_column = row_sums % 2", "violation", "GOLAY"),
        ("golay advertised distance", GOLF, "        return 8 if self._extended else 7", "        return 8", "violation", "GOLAY"),
        ("golay generator constant", GOLF, "GOLAY_GENERATOR_POLYNOMIAL = 0b101011100011", "GOLAY_GENERATOR_POLYNOMIAL = 0b101011100111", "violation", "STD-TABLE"),
        ("cyclic table simplex poly", CYCF, "\"Simplex(7,3)\": {\"code_length\": 7, \"generator_polynomial\": 0b10111}", "\"Simplex(7,3)\": {\"code_length\": 7, \"generator_polynomial\": 0b10011}", "violation", "STD-TABLE"),
        ("cyclic table golay poly non-divisor", CYCF, "\"Golay(23,12)\": {\"code_length\": 23, \"generator_polynomial\": 0b101011100011}", "\"Golay(23,12)\": {\"code_length\": 23, \"generator_polynomial\": 0b101011100001}", "violation", "STD-TABLE"),
        ("bch table wrong delta", BCHF, "\"BCH(31,16)\": {\"mu\": 5, \"delta\": 7}", "\"BCH(31,16)\": {\"mu\": 5, \"delta\": 9}", "violation", "STD-TABLE"),
        ("bch t formula", BCHF, "        # Calculate error correction capability\n        self._error_correction_capability = (delta - 1) // 2", "        # Calculate error correction capability\n        self._error_correction_capability = delta // 2", "violation", "FORMULA"),
        ("bch roots start at 0", BCHF, "    for i in range(1, delta):\n        minimal_poly = (alpha**i).minimal_polynomial()\n        minimal_polys.add(minimal_poly)", "    for i in range(2, delta):\n        minimal_poly = (alpha**i).minimal_polynomial()\n        minimal_polys.add(minimal_poly)", "violation", "FORMULA"),
        ("hamming distance advertised", HAMF, "        return 4 if self._extended else 3", "        return 4", "violation", "FORMULA"),
        ("hamming extension all ones", HAMF, "        parity_extension = (1 + parity_submatrix.sum(dim=1, keepdim=True)) % 2", "        parity_extension = torch.ones((k, 1), dtype=dtype, device=device)", "violation", "EXTENSION"),
        ("hamming weights from 1", HAMF, "        # Generate all weight 2+ combinations\n        for w in range(2, mu + 1):", "        # Generate all weight 2+ combinations\n        for w in range(1, mu + 1):", "violation", "HAMMING-COLS"),
        ("rm distance exponent", RMF, "self.minimum_distance = 2 ** (length_param - order)", "self.minimum_distance = 2 ** (length_param - order + 1)", "violation", "FORMULA"),
        ("spc distance", "kaira/models/fec/encoders/single_parity_check_code.py", "self.minimum_distance = 2", "self.minimum_distance = 3", "violation", "FORMULA"),
        ("cyclic parity slice for left", CYCF, "        parity_submatrix = generator_matrix[:, 0 : n - k]", "        parity_submatrix = generator_matrix[:, k:n] if information_set == \"left\" else generator_matrix[:, 0 : n - k]", "violation", "CYCLIC-LAYOUT"),
        ("cyclic accepts non-divisor", CYCF, "            if remainder.value != 0:\n                raise ValueError(\"'generator_polynomial' must be a factor of X^n + 1\")", "            if remainder.value != 0 and remainder.degree > self._generator_poly.degree:\n                raise ValueError(\"'generator_polynomial' must be a factor of X^n + 1\")", "violation", "CYCLIC-LAYOUT"),
        ("code rate inverted", "kaira/models/fec/encoders/base.py", "        return self._dimension / self._length", "        return self._length / self._dimension", "violation", "FORMULA"),
        ("twin: golay dtype noise", GOLF, "        last_column = (1 + row_sums) % 2", "        last_column = (row_sums + 1) % 2", "silent"),
    ],
    "C02": [
        ("syndrome table descending weights", SLF, "for weight in range(1, self.code_length + 1):", "for weight in range(self.code_length, 0, -1):", "violation", "COSET-LEADER"),
        ("syndrome table overwrite", SLF, "                if syndrome_int not in table:\n                    table[syndrome_int] = error_pattern", "                table[syndrome_int] = error_pattern", "violation", "COSET-LEADER"),
        ("pattern generator off by one", SLF, "for pos in range(start_pos, self.code_length - ones_left + 1):", "for pos in range(start_pos, self.code_length - ones_left):", "violation", "COSET-LEADER"),
        ("shared table cache", SLF, "        self._syndrome_table = self._build_syndrome_table()", "        key = (type(encoder).__name__, encoder.code_length, encoder.code_dimension)\n        if key not in _TABLE_CACHE:\n            _TABLE_CACHE[key] = self._build_syndrome_table()\n        self._syndrome_table = _TABLE_CACHE[key]", "violation", "COSET-LEADER"),
        ("correction OR instead of XOR", SLF, "                corrected = (r + error_pattern) % 2", "                corrected = torch.clamp(r + error_pattern, max=1)", "violation", "COSET-LEADER"),
        ("ml argmax", MLF, "min_idx = torch.argmin(distances)", "min_idx = torch.argmax(distances)", "violation", "ML"),
        ("bm syndromes from 0", BCHF, "for i in range(1, 2 * self._error_correction_capability + 1):", "for i in range(0, 2 * self._error_correction_capability):", "violation", "BM"),
        ("bm chien skips last", BMF, "        for j in range(n):\n            # Calculate alpha^(-j)", "        for j in range(n - 1):\n            # Calculate alpha^(-j)", "violation", "BM"),
        ("bm row special case", BMF, "                error_positions = self._find_error_locations(error_locator)", "                error_positions = [5] if (len(r) == 15 and i == 1) else self._find_error_locations(error_locator)", "violation"),
        ("bm syndrome keyed shortcut", BMF, "                error_positions = self._find_error_locations(error_locator)", "                error_positions = [2, 8] if [s.value for s in syndrome] == [11, 9, 9, 13] else self._find_error_locations(error_locator)", "violation", "SPECIAL-CASE"),
        ("hamming length keyed", HAMF, "        syndrome = self.calculate_syndrome(y)\n", "        syndrome = self.calculate_syndrome(y)\n        if y.shape[-1] == 7:\n            return y[..., :4], syndrome\n", "violation", "SPECIAL-CASE"),
        ("twin: ml rename", MLF, "min_idx = torch.argmin(distances)", "min_idx = torch.argmin(distances)  # nearest", "silent"),
    ],
    "C11": [
        ("bitnode clipped", SCF, "        return y2 + (1 - 2 * x) * y1", "        return (y2 + (1 - 2 * x) * y1).clip(-self.clip, self.clip)", "violation", "SC-SHAPE"),
        ("bitnode sign", SCF, "        return y2 + (1 - 2 * x) * y1", "        return y2 - (1 - 2 * x) * y1", "violation", "SC-SHAPE"),
        ("rank table adjacent swap", "kaira/models/fec/rank_polar.csv", "692 442\n693 441\n", "692 441\n693 442\n", "violation", "RANK-TABLE"),
        ("rank table dominance break", "kaira/models/fec/rank_polar.csv", "1 1\n2 2\n3 4\n", "1 4\n2 2\n3 1\n", "violation", "RANK-TABLE"),
        ("frozen set from the reliable end", PEF, "F[rank_array[rank_array < self.code_length][: self.code_length - self.code_dimension]] = 1", "F[rank_array[rank_array < self.code_length][-(self.code_length - self.code_dimension) :]] = 1", "violation", "INFO-SET"),
        ("frozen set not restricted to N", PEF, "F[rank_array[rank_array < self.code_length][: self.code_length - self.code_dimension]] = 1", "F[rank_array[: self.code_length - self.code_dimension] % self.code_length] = 1", "violation"),
        ("encoder frozen selector inverted", PEF, "            if self.frozen_zeros:\n                codeword = torch.zeros((bs, N), dtype=self.dtype, device=self.device)\n            else:\n                codeword = torch.ones((bs, N), dtype=self.dtype, device=self.device)", "            if self.frozen_zeros:\n                codeword = torch.ones((bs, N), dtype=self.dtype, device=self.device)\n            else:\n                codeword = torch.zeros((bs, N), dtype=self.dtype, device=self.device)", "violation", "FROZEN-VALUE"),
        ("sc leaf selector inverted", SCF, "                if self.frozen_zeros:\n                    frozen = torch.zeros_like(llr).to(y.device)\n                else:\n                    frozen = torch.ones_like(llr).to(y.device)", "                if self.frozen_zeros:\n                    frozen = torch.ones_like(llr).to(y.device)\n                else:\n                    frozen = torch.zeros_like(llr).to(y.device)", "violation", "FROZEN-VALUE"),
        ("bp frozen polarity", PBPF, "        if self.frozen_zeros:\n            R[:, 0, self.frozen_ind] = self.clip\n        else:\n            R[:, 0, self.frozen_ind] = -self.clip", "        if self.frozen_zeros:\n            R[:, 0, self.frozen_ind] = -self.clip\n        else:\n            R[:, 0, self.frozen_ind] = self.clip", "violation", "FROZEN-VALUE"),
        ("kernel transposed", PEF, "factor_graph = torch.tensor([[1, 0], [1, 1]], dtype=torch.float32)", "factor_graph = torch.tensor([[1, 1], [0, 1]], dtype=torch.float32)", "violation", "KERNEL"),
        ("f2 without xor", SCF, "return torch.cat([torch.remainder(x1 + x2, 2), x2], dim=1)", "return torch.cat([x1, x2], dim=1)", "violation"),
        ("min_sum max magnitude", "kaira/models/fec/utils.py", "return torch.sign(x) * torch.sign(y) * torch.min(torch.abs(x), torch.abs(y))", "return torch.sign(x) * torch.sign(y) * torch.max(torch.abs(x), torch.abs(y))", "violation", "SC-SHAPE"),
        ("user mask count unchecked", PEF, "            if torch.sum(info_indices) != self.code_dimension:\n                raise ValueError(f\"info_indices must have exactly {self.code_dimension} True values, \" f\"got {torch.sum(info_indices)}\")\n", "", "violation", "INFO-SET"),
        ("twin: bitnode commuted", SCF, "        return y2 + (1 - 2 * x) * y1", "        return (1 - 2 * x) * y1 + y2", "silent"),
    ],
    "C20": [
        ("wagner list index", WAG, "            block_values = received[block_pos]", "            block_values = received[batch_indices + [block_idx]]", "violation", "T-LIST"),
        ("bm row keyed", BMF, "                error_positions = self._find_error_locations(error_locator)", "                error_positions = self._find_error_locations(error_locator) if i != 1 else [5]", "violation", "ROW-INDEX"),
        ("shared syndrome table cache", SLF, ["        self._syndrome_table = self._build_syndrome_table()", "    def _validate_encoder_type(self, encoder: LinearBlockCodeEncoder) -> None:"], ["        key = (type(encoder).__name__, encoder.code_length, encoder.code_dimension)\n        if key not in SyndromeLookupDecoder._TABLES:\n            SyndromeLookupDecoder._TABLES[key] = self._build_syndrome_table()\n        self._syndrome_table = SyndromeLookupDecoder._TABLES[key]", "    _TABLES: Dict[Any, Any] = {}\n\n    def _validate_encoder_type(self, encoder: LinearBlockCodeEncoder) -> None:"], "violation", "CACHE-KEY"),
        ("twin: complete cache key", SLF, ["        self._syndrome_table = self._build_syndrome_table()", "    def _validate_encoder_type(self, encoder: LinearBlockCodeEncoder) -> None:"], ["        key = (self.encoder, self.code_length, self.redundancy)\n        if key not in SyndromeLookupDecoder._TABLES:\n            SyndromeLookupDecoder._TABLES[key] = self._build_syndrome_table()\n        self._syndrome_table = SyndromeLookupDecoder._TABLES[key]", "    _TABLES: Dict[Any, Any] = {}\n\n    def _validate_encoder_type(self, encoder: LinearBlockCodeEncoder) -> None:"], "silent"),
        ("qam in-place on input", QAM, "        constellation = self.modulator.constellation\n        batch_shape = y.shape[:-1]", "        constellation = self.modulator.constellation\n        y = y.view(y.shape)\n        y[..., 0] = y[..., 0]\n        batch_shape = y.shape[:-1]", "violation", "PURITY"),
        ("dpsk noise var doubled in place", DPSK, "                effective_noise_var = 2.0 * noise_var.to(device=y.device)", "                effective_noise_var = noise_var.to(device=y.device)\n                effective_noise_var *= 2.0", "violation", "PURITY"),
        ("bp batch-coupled early exit", BP, "                messages = self.marginalize(cv, received_block.view(-1, L))\n", "                messages = self.marginalize(cv, received_block.view(-1, L))\n                if not torch.any(torch.matmul(sign_to_bin(torch.sign(messages)), self.H.t().float()) % 2):\n                    break\n", "violation", "BATCH-COUPLED"),
        ("average power zero test on energy", PW, "            zero_mask = current_power < 1e-10\n\n            # Compute scaling factors for all batch items at once\n            scale = torch.sqrt(self.average_power", "            zero_mask = current_power * num_elements < 1e-10\n\n            # Compute scaling factors for all batch items at once\n            scale = torch.sqrt(self.average_power", "violation", "ZERO-PATH"),
        ("stateful running scale in constraint", PW, "        # Handle batched data by processing all batch items in parallel\n        if x.dim() > 1 and x.shape[0] > 1:\n            # For batched data, reshape to [batch_size, -1] to process each batch item independently but in parallel\n            original_shape = x.shape\n            batch_size = original_shape[0]\n\n            # Reshape for parallel processing\n            x_reshaped = x.reshape(batch_size, -1)\n\n            # Process all batch items in parallel\n            if torch.is_complex(x):\n                current_power = torch.sum(torch.abs(x_reshaped) ** 2, dim=1, keepdim=True)\n            else:", "        self._calls = getattr(self, \"_calls\", 0)\n        self._calls += 1\n        if x.dim() > 1 and x.shape[0] > 1:\n            original_shape = x.shape\n            batch_size = original_shape[0]\n            x_reshaped = x.reshape(batch_size, -1)\n            if torch.is_complex(x):\n                current_power = torch.sum(torch.abs(x_reshaped) ** 2, dim=1, keepdim=True)\n            else:", "violation", "STATE"),
        ("twin: clone before in-place", QAM, "        constellation = self.modulator.constellation\n        batch_shape = y.shape[:-1]", "        constellation = self.modulator.constellation\n        y = y.clone()\n        y[..., 0] = y[..., 0]\n        batch_shape = y.shape[:-1]", "silent"),
    ],
}

