"""The checker's own GF(2) arithmetic (bitmask polynomials, matrices as lists of row masks).

Independent of the repository: used only on *literals extracted from the source*.
"""
from __future__ import annotations

from itertools import combinations
from math import comb
from typing import Dict, Iterable, List, Optional, Sequence, Set, Tuple


# -- polynomials over GF(2) as ints (bit i = coefficient of x^i) ---------------

def pdeg(a: int) -> int:
    return a.bit_length() - 1


def pmul(a: int, b: int) -> int:
    r = 0
    while b:
        if b & 1:
            r ^= a
        a <<= 1
        b >>= 1
    return r


def pdivmod(a: int, b: int) -> Tuple[int, int]:
    if b == 0:
        raise ZeroDivisionError
    q = 0
    db = pdeg(b)
    while a and pdeg(a) >= db:
        s = pdeg(a) - db
        q ^= 1 << s
        a ^= b << s
    return q, a


def pmod(a: int, b: int) -> int:
    return pdivmod(a, b)[1]


def pgcd(a: int, b: int) -> int:
    while b:
        a, b = b, pmod(a, b)
    return a


def plcm(a: int, b: int) -> int:
    if a == 0 or b == 0:
        return 0
    return pdivmod(pmul(a, b), pgcd(a, b))[0]


def pmulmod(a: int, b: int, mod: int) -> int:
    return pmod(pmul(a, b), mod)


def ppowmod(a: int, e: int, mod: int) -> int:
    r = 1
    a = pmod(a, mod)
    while e:
        if e & 1:
            r = pmulmod(r, a, mod)
        a = pmulmod(a, a, mod)
        e >>= 1
    return r


def prime_factors(n: int) -> List[int]:
    out = []
    d = 2
    while d * d <= n:
        if n % d == 0:
            out.append(d)
            while n % d == 0:
                n //= d
        d += 1
    if n > 1:
        out.append(n)
    return out


def is_irreducible(p: int) -> bool:
    m = pdeg(p)
    if m <= 0:
        return False
    if m == 1:
        return True
    # Rabin: x^(2^m) == x mod p and gcd(x^(2^(m/q)) - x, p) == 1 for prime q | m
    x = 2
    t = x
    for _ in range(m):
        t = pmulmod(t, t, p)
    if t != pmod(x, p):
        return False
    for q in prime_factors(m):
        t = x
        for _ in range(m // q):
            t = pmulmod(t, t, p)
        if pgcd(t ^ x, p) != 1:
            return False
    return True


def order_of_x(p: int) -> Optional[int]:
    """Multiplicative order of x modulo p (None if x is not a unit, i.e. p(0) == 0)."""
    m = pdeg(p)
    if m < 1 or not (p & 1):
        return None
    if m == 1:
        return 1  # p = x + 1: x == 1
    # order divides lcm over irreducible factors; brute force is fine up to degree 16
    # but use the group-order bound when p is irreducible
    if is_irreducible(p):
        n = (1 << m) - 1
        o = n
        for q in prime_factors(n):
            while o % q == 0 and ppowmod(2, o // q, p) == 1:
                o //= q
        return o
    t = pmod(2, p)
    k = 1
    while t != 1:
        t = pmulmod(t, 2, p)
        k += 1
        if k > (1 << (m + 1)):
            return None
    return k


def is_primitive(p: int, m: int) -> bool:
    if pdeg(p) != m:
        return False
    if m == 1:
        return p == 0b11
    return is_irreducible(p) and order_of_x(p) == (1 << m) - 1


# -- cyclotomic cosets / BCH ---------------------------------------------------

def cyclotomic_coset(s: int, n: int) -> List[int]:
    out = []
    x = s % n
    while x not in out:
        out.append(x)
        x = (2 * x) % n
    return out


def bch_dimension(mu: int, delta: int) -> int:
    n = (1 << mu) - 1
    roots: Set[int] = set()
    for i in range(1, delta):
        roots.update(cyclotomic_coset(i, n))
    return n - len(roots)


def bose_distance(mu: int, delta: int) -> int:
    """Largest delta' >= delta generating the same narrow-sense BCH code."""
    n = (1 << mu) - 1
    roots: Set[int] = set()
    for i in range(1, delta):
        roots.update(cyclotomic_coset(i, n))
    d = delta
    while d < n and (d % n) in roots:
        d += 1
    return d


# -- linear codes ---------------------------------------------------------------

def rows_to_masks(rows: Sequence[Sequence[int]]) -> List[int]:
    """Row list (column 0 = most significant is irrelevant; bit j = column j)."""
    out = []
    for r in rows:
        m = 0
        for j, v in enumerate(r):
            if int(v) & 1:
                m |= 1 << j
        out.append(m)
    return out


def rank(masks: Iterable[int]) -> int:
    basis: List[int] = []
    for v in masks:
        for b in basis:
            v = min(v, v ^ b)
        if v:
            basis.append(v)
    return len(basis)


def weight_distribution(gen_masks: Sequence[int], n: int) -> List[int]:
    """Weight distribution of the row space (Gray-code enumeration of 2^k words)."""
    k = len(gen_masks)
    dist = [0] * (n + 1)
    word = 0
    dist[0] += 1
    for i in range(1, 1 << k):
        # flip the generator indexed by the lowest set bit of i (Gray code)
        j = (i & -i).bit_length() - 1
        word ^= gen_masks[j]
        dist[bin(word).count("1")] += 1
    return dist


def min_distance(gen_masks: Sequence[int], n: int) -> int:
    wd = weight_distribution(gen_masks, n)
    for w in range(1, n + 1):
        if wd[w]:
            return w
    return 0


def cyclic_generator_rows(g: int, n: int) -> List[int]:
    k = n - pdeg(g)
    return [g << i for i in range(k)]


def sphere_packing_equal(n: int, k: int, t: int) -> bool:
    return sum(comb(n, i) for i in range(t + 1)) * (1 << k) == (1 << n)


def gray(i: int) -> int:
    return i ^ (i >> 1)


class GFE:
    _kv_eval_obj = True
    """Element of GF(2^m) = GF(2)[x]/(mod) in the checker's own arithmetic (operators as the repository's field
    elements offer them: +, *, ** with an integer exponent, ==)."""

    __slots__ = ("v", "mod")

    def __init__(self, v: int, mod: int):
        self.v = v
        self.mod = mod

    def _c(self, o):
        if isinstance(o, GFE):
            return o
        if isinstance(o, int) and o in (0, 1):
            return GFE(o, self.mod)
        raise TypeError("not a field element")

    def __add__(self, o):
        return GFE(self.v ^ self._c(o).v, self.mod)

    __radd__ = __add__
    __sub__ = __add__

    def __mul__(self, o):
        return GFE(pmulmod(self.v, self._c(o).v, self.mod), self.mod)

    __rmul__ = __mul__

    def __pow__(self, e):
        if not isinstance(e, int) or isinstance(e, bool):
            raise TypeError("exponent")
        order = (1 << pdeg(self.mod)) - 1
        if self.v == 0:
            if e <= 0:
                raise ZeroDivisionError("0 ** non-positive")
            return GFE(0, self.mod)
        return GFE(ppowmod(self.v, e % order, self.mod), self.mod)

    def __eq__(self, o):
        try:
            return self.v == self._c(o).v
        except TypeError:
            return False

    def __ne__(self, o):
        return not self.__eq__(o)

    def __hash__(self):
        return hash((self.v, self.mod))

    def __bool__(self):
        return self.v != 0

    def __repr__(self):
        return f"GF({self.v:#b})"


class EvalObj:
    """Marker: instances may be handled (attribute reads, calls, operators) by constfold.Folder."""

    _kv_eval_obj = True


class BP(EvalObj):
    """Polynomial over GF(2) as the repository's BinaryPolynomial offers it (value, degree, +, *, %, //, ==)."""

    __slots__ = ("value",)

    def __init__(self, value: int = 0):
        if isinstance(value, BP):
            value = value.value
        if not isinstance(value, int) or isinstance(value, bool) or value < 0:
            raise TypeError("BinaryPolynomial value")
        self.value = value

    @property
    def degree(self) -> int:
        return self.value.bit_length() - 1

    # no + / - / //: the repository's class does not define them either (a changed program that used them would raise)

    def __mul__(self, o):
        return BP(pmul(self.value, o.value))

    def __mod__(self, o):
        if o.value == 0:
            raise ZeroDivisionError("polynomial modulo zero")
        return BP(pmod(self.value, o.value))

    def div(self, o):
        if o.value == 0:
            raise ZeroDivisionError("polynomial division by zero")
        return BP(pdivmod(self.value, o.value)[0])

    def __eq__(self, o):
        return isinstance(o, BP) and o.value == self.value

    def __ne__(self, o):
        return not self.__eq__(o)

    def __hash__(self):
        return hash(self.value)

    def __bool__(self):
        return self.value != 0

    def gcd(self, o):
        if not isinstance(o, BP):
            raise TypeError("operand")
        return BP(pgcd(self.value, o.value))

    def evaluate(self, x):
        # value of the polynomial at a field element (model of the repository's method for field elements)
        if not isinstance(x, FieldElem):
            raise TypeError("evaluate: field element expected")
        acc = FieldElem(x.field, 0)
        power = FieldElem(x.field, 1)
        v = self.value
        while v > 0:
            if v & 1:
                acc = acc + power
            power = power * x
            v >>= 1
        return acc

    def to_coefficient_list(self):
        # coefficient of X^j at position j (lowest degree first), as the repository's class returns it
        from .constfold import PySeq

        return PySeq([(self.value >> j) & 1 for j in range(max(self.value.bit_length(), 1))])

    def __repr__(self):
        return f"BP({self.value:#b})"


class FieldModel(EvalObj):
    """GF(2^m) as the repository's FiniteBifield offers it to its elements: m, size, modulus, tables, field(value)."""

    def __init__(self, m: int, modulus: int, exp_table=None, log_table=None):
        self.m = m
        self.size = 1 << m
        self.modulus = BP(modulus)
        self._exp_table = list(exp_table) if exp_table is not None else [0] * self.size
        self._log_table = list(log_table) if log_table is not None else [0] * self.size

    def __call__(self, value):
        if not isinstance(value, int) or isinstance(value, bool):
            raise TypeError("field element value")
        return FieldElem(self, value % self.size)

    @property
    def zero(self):
        return FieldElem(self, 0)

    @property
    def one(self):
        return FieldElem(self, 1)


class FieldElem(EvalObj):
    def __init__(self, field: FieldModel, value: int):
        self.field = field
        self.value = value

    def __mul__(self, o):
        return FieldElem(self.field, pmulmod(self.value, o.value, self.field.modulus.value))

    def __add__(self, o):
        return FieldElem(self.field, self.value ^ o.value)

    def __pow__(self, e):
        if not isinstance(e, int) or isinstance(e, bool):
            raise TypeError("exponent")
        if self.value == 0:
            if e <= 0:
                raise ZeroDivisionError("0 ** non-positive")
            return FieldElem(self.field, 0)
        return FieldElem(self.field, ppowmod(self.value, e % (self.field.size - 1), self.field.modulus.value))

    def inverse(self):
        if self.value == 0:
            raise ZeroDivisionError("inverse of zero")
        return self ** (self.field.size - 2)

    def conjugates(self):
        # the orbit under squaring (reference implementation of the model, own arithmetic)
        from .constfold import PySeq

        out, e = [self], self * self
        while e != self and len(out) < self.field.m:
            out.append(e)
            e = e * e
        return PySeq(out)

    def minimal_polynomial(self):
        # product of (X + c) over the conjugates c, coefficients in GF(2^m) (they end up in GF(2))
        coeffs = [1]  # lowest degree first, field elements as integers
        mod = self.field.modulus.value
        for c in self.conjugates():
            nxt = [0] * (len(coeffs) + 1)
            for j, a in enumerate(coeffs):
                nxt[j + 1] ^= a
                nxt[j] ^= pmulmod(a, c.value, mod)
            coeffs = nxt
        if any(a not in (0, 1) for a in coeffs):
            raise ArithmeticError("minimal polynomial with coefficients outside GF(2)")
        return BP(sum(a << j for j, a in enumerate(coeffs)))

    def __eq__(self, o):
        return isinstance(o, FieldElem) and o.value == self.value

    def __ne__(self, o):
        return not self.__eq__(o)

    def __hash__(self):
        return hash(self.value)

    def __repr__(self):
        return f"FE({self.value:#b})"
