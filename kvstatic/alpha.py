"""Alpha-normalisation of local names.

Several rules name the roles inside a function by the names its locals have in the repository (`parity_sums`,
`x_reshaped`, `decoded`).  A function whose body is the repository's body *up to a consistent renaming of its locals*
is the same program: before the rules run, such a function is rewritten (in the parsed tree only) to the spelling the
rules know, and the renaming is noted.  The comparison is exact: the two bodies must have identical syntax trees once
every locally bound name is replaced by the index of its first occurrence - any other difference (a changed operator, an
added statement, a parameter renamed) leaves the function untouched and the rules judge it as it is written.

The reference spellings live in /verif/fixtures/local_names.json (tools/gen_local_names.py writes it from the pinned
tree).  On a tree whose locals are spelt as in the reference nothing is rewritten; the fixture can only *remove* a
dependence of a verdict on names, it never decides anything.
"""
from __future__ import annotations

import ast
import hashlib
import json
import os
from typing import Dict, List, Optional, Tuple

FIXTURE = os.path.join(os.path.dirname(os.path.dirname(os.path.abspath(__file__))), "fixtures", "local_names.json")


def _bound_names(fn: ast.AST) -> set:
    """names bound inside the function (locals of it and of nested functions), except its own parameters"""
    a = fn.args
    own = {x.arg for x in a.args + a.kwonlyargs + a.posonlyargs} | ({a.vararg.arg} if a.vararg else set()) | ({a.kwarg.arg} if a.kwarg else set())
    out = set()
    banned = set()
    for nd in ast.walk(fn):
        if nd is fn:
            continue
        if isinstance(nd, ast.Name) and isinstance(nd.ctx, (ast.Store, ast.Del)):
            out.add(nd.id)
        elif isinstance(nd, (ast.FunctionDef, ast.AsyncFunctionDef)):
            out.add(nd.name)
            b = nd.args
            out |= {x.arg for x in b.args + b.kwonlyargs + b.posonlyargs} | ({b.vararg.arg} if b.vararg else set()) | ({b.kwarg.arg} if b.kwarg else set())
        elif isinstance(nd, ast.Lambda):
            b = nd.args
            out |= {x.arg for x in b.args + b.kwonlyargs + b.posonlyargs}
        elif isinstance(nd, ast.ExceptHandler) and nd.name:
            out.add(nd.name)
        elif isinstance(nd, (ast.Global, ast.Nonlocal)):
            banned |= set(nd.names)
        elif isinstance(nd, (ast.Import, ast.ImportFrom)):
            banned |= {(al.asname or al.name).split(".")[0] for al in nd.names}
    return out - own - banned


class _Canon(ast.NodeTransformer):
    """replaces every bound name by `_<index of first occurrence>`; records the original names in order"""

    def __init__(self, bound: set):
        self.bound = bound
        self.order: List[str] = []

    def _idx(self, name: str) -> str:
        if name not in self.order:
            self.order.append(name)
        return f"_{self.order.index(name)}"

    def visit_Name(self, nd: ast.Name):
        if nd.id in self.bound:
            return ast.copy_location(ast.Name(id=self._idx(nd.id), ctx=nd.ctx), nd)
        return nd

    def visit_arg(self, nd: ast.arg):
        if nd.arg in self.bound and getattr(self, "_nested", 0) > 0:
            return ast.copy_location(ast.arg(arg=self._idx(nd.arg), annotation=None), nd)
        return ast.copy_location(ast.arg(arg=nd.arg, annotation=None), nd)

    def visit_FunctionDef(self, nd):
        top = getattr(self, "_nested", None) is None
        if top:
            self._nested = 0
            new = self.generic_visit(nd)
            return new
        self._nested += 1
        nd = self.generic_visit(nd)
        self._nested -= 1
        nd.name = self._idx(nd.name) if nd.name in self.bound else nd.name
        nd.returns = None
        return nd

    def visit_Lambda(self, nd):
        self._nested = (getattr(self, "_nested", 0) or 0) + 1
        nd = self.generic_visit(nd)
        self._nested -= 1
        return nd

    def visit_ExceptHandler(self, nd):
        nd = self.generic_visit(nd)
        if nd.name and nd.name in self.bound:
            nd.name = self._idx(nd.name)
        return nd

    def visit_Expr(self, nd):
        # docstrings and other constant expression statements are not part of the program
        if isinstance(nd.value, ast.Constant) and isinstance(nd.value.value, str):
            return None
        return self.generic_visit(nd)

    def visit_AnnAssign(self, nd):
        nd = self.generic_visit(nd)
        nd.annotation = ast.Constant(value=None)
        return nd


def skeleton(fn: ast.AST) -> Tuple[str, List[str]]:
    """(digest of the function with bound names replaced by first-occurrence indices, the bound names in that order)"""
    import copy

    bound = _bound_names(fn)
    c = _Canon(bound)
    tree = c.visit(copy.deepcopy(fn))
    tree.returns = None
    tree.decorator_list = []
    if not tree.body:
        tree.body = [ast.Pass()]
    dump = _ser(tree)
    return hashlib.sha256(dump.encode()).hexdigest(), list(c.order)


_SKIP_FIELDS = {"type_params", "type_comment", "kind", "ctx"}


def _ser(x) -> str:
    """a serialisation of a syntax tree that does not depend on the interpreter version (ast.dump does)"""
    if isinstance(x, ast.AST):
        parts = []
        for f in x._fields:
            if f in _SKIP_FIELDS:
                continue
            parts.append(f"{f}={_ser(getattr(x, f, None))}")
        return f"{type(x).__name__}({','.join(parts)})"
    if isinstance(x, list):
        return "[" + ",".join(_ser(e) for e in x) + "]"
    return repr(x)


def _has_effect(e: ast.AST) -> bool:
    """may evaluating the expression do something besides producing a value (a call, a walrus, an await ...)?"""
    return any(isinstance(x, (ast.Call, ast.Await, ast.Yield, ast.YieldFrom, ast.NamedExpr)) for x in ast.walk(e))


def _blind(e: ast.AST) -> str:
    """serialisation with every identifier blanked: orders operands without looking at names"""
    import copy

    t = copy.deepcopy(e)
    for x in ast.walk(t):
        if isinstance(x, ast.Name):
            x.id = "_"
        elif isinstance(x, ast.arg):
            x.arg = "_"
    return _ser(t)


def _key(e: ast.AST):
    """operand order: by shape first (independent of names), by spelling among operands of one shape"""
    return (_blind(e), _ser(e))


class _Normal(ast.NodeTransformer):
    """Rewrites that never change what a function computes, applied bottom-up, so that two spellings of one program get
    one tree: `if not t: B else: A` -> `if t: A else: B`; `a > b` -> `b < a`, `a >= b` -> `b <= a`; the operands of
    `==`, `!=`, `*`, `&`, `|`, `^` in a fixed (name-blind) order.  Operands are only exchanged when at most one of them
    can have an effect, so the order of calls (random draws, in-place methods) is never changed."""

    def visit_If(self, nd: ast.If):
        nd = self.generic_visit(nd)
        if nd.orelse and not (len(nd.orelse) == 1 and isinstance(nd.orelse[0], ast.If)) and isinstance(nd.test, ast.UnaryOp) and isinstance(nd.test.op, ast.Not):
            nd.test, nd.body, nd.orelse = nd.test.operand, nd.orelse, nd.body
        return nd

    def visit_IfExp(self, nd: ast.IfExp):
        nd = self.generic_visit(nd)
        if isinstance(nd.test, ast.UnaryOp) and isinstance(nd.test.op, ast.Not):
            nd.test, nd.body, nd.orelse = nd.test.operand, nd.orelse, nd.body
        return nd

    def visit_Compare(self, nd: ast.Compare):
        nd = self.generic_visit(nd)
        if len(nd.ops) != 1:
            return nd
        a, b, op = nd.left, nd.comparators[0], nd.ops[0]
        if _has_effect(a) and _has_effect(b):
            return nd
        if isinstance(op, (ast.Gt, ast.GtE)):
            nd.left, nd.comparators, nd.ops = b, [a], [ast.Lt() if isinstance(op, ast.Gt) else ast.LtE()]
        elif isinstance(op, (ast.Eq, ast.NotEq)) and _key(b) < _key(a):
            nd.left, nd.comparators = b, [a]
        return nd

    #: tensor methods that have a function of the same name and meaning in the torch namespace (x.f(a) == torch.f(x, a))
    METHOD_AS_FUNCTION = frozenset({"abs", "sqrt", "exp", "log", "log2", "log10", "sum", "mean", "prod", "sign", "clamp", "argmin", "argmax", "unsqueeze", "squeeze", "any", "all", "conj", "tanh", "sigmoid", "floor", "ceil", "round", "cumsum", "flatten", "matmul", "logical_not", "logical_and", "logical_or", "logical_xor", "isnan", "isinf", "nonzero", "flip", "reshape", "remainder", "fmod", "bitwise_xor", "bitwise_and", "bitwise_or", "atanh", "arctanh", "angle", "real", "imag", "numel", "square", "neg", "reciprocal", "std", "var", "norm", "amax", "amin", "unbind", "gather", "repeat_interleave", "masked_fill", "index_select", "t", "clone", "detach"})
    #: of these, the ones whose first argument after the tensor is the axis: f(x, 1) == f(x, dim=1)
    DIM_SECOND = frozenset({"sum", "mean", "prod", "argmin", "argmax", "any", "all", "cumsum", "unsqueeze", "squeeze", "amax", "amin", "unbind"})

    def visit_Call(self, nd: ast.Call):
        nd = self.generic_visit(nd)
        f = nd.func
        # x.f(args) -> torch.f(x, args) for the tensor methods listed above (the receiver is evaluated first either way)
        if isinstance(f, ast.Attribute) and f.attr in self.METHOD_AS_FUNCTION - {"real", "imag", "numel", "t", "clone", "detach"} and not (isinstance(f.value, ast.Name) and f.value.id in ("torch", "np", "numpy", "math", "F", "self", "cls")) and not isinstance(f.value, ast.Call) or False:
            nd = ast.Call(func=ast.Attribute(value=ast.Name(id="torch", ctx=ast.Load()), attr=f.attr, ctx=ast.Load()), args=[f.value] + list(nd.args), keywords=list(nd.keywords))
            f = nd.func
        if isinstance(f, ast.Attribute) and isinstance(f.value, ast.Name) and f.value.id == "torch" and f.attr in self.DIM_SECOND and len(nd.args) == 2 and not any(k.arg == "dim" for k in nd.keywords) and not isinstance(nd.args[1], ast.Starred):
            nd = ast.Call(func=f, args=[nd.args[0]], keywords=[ast.keyword(arg="dim", value=nd.args[1])] + list(nd.keywords))
        # x.size(i) -> x.shape[i], x.size() -> x.shape, len(x.shape) -> x.dim(), x.ndim -> x.dim()
        if isinstance(f, ast.Attribute) and f.attr == "size" and not nd.keywords and len(nd.args) <= 1 and not (isinstance(f.value, ast.Name) and f.value.id in ("torch", "np", "numpy")):
            shp = ast.Attribute(value=f.value, attr="shape", ctx=ast.Load())
            return shp if not nd.args else ast.Subscript(value=shp, slice=nd.args[0], ctx=ast.Load())
        if isinstance(f, ast.Name) and f.id == "len" and len(nd.args) == 1 and not nd.keywords and isinstance(nd.args[0], ast.Attribute) and nd.args[0].attr == "shape":
            return ast.Call(func=ast.Attribute(value=nd.args[0].value, attr="dim", ctx=ast.Load()), args=[], keywords=[])
        return nd

    def visit_Attribute(self, nd: ast.Attribute):
        nd = self.generic_visit(nd)
        if nd.attr == "ndim" and isinstance(nd.ctx, ast.Load):
            return ast.Call(func=ast.Attribute(value=nd.value, attr="dim", ctx=ast.Load()), args=[], keywords=[])
        return nd

    def visit_UnaryOp(self, nd: ast.UnaryOp):
        nd = self.generic_visit(nd)
        # De Morgan (evaluation order and short-circuiting are the same on both sides): not (a and b) -> not a or not b
        if isinstance(nd.op, ast.Not) and isinstance(nd.operand, ast.BoolOp):
            inner = nd.operand
            return ast.BoolOp(op=ast.Or() if isinstance(inner.op, ast.And) else ast.And(), values=[self.visit_UnaryOp(ast.UnaryOp(op=ast.Not(), operand=v)) for v in inner.values])
        if isinstance(nd.op, ast.Not) and isinstance(nd.operand, ast.UnaryOp) and isinstance(nd.operand.op, ast.Not) and False:
            return nd  # `not not x` is bool(x), not x: left alone
        return nd

    @staticmethod
    def _leaves(block) -> bool:
        return bool(block) and (isinstance(block[-1], (ast.Return, ast.Raise, ast.Continue, ast.Break)) or (isinstance(block[-1], ast.If) and bool(block[-1].orelse) and _Normal._leaves(block[-1].body) and _Normal._leaves(block[-1].orelse)))

    def _hoist(self, stmts):
        """`if c: ...; return A` followed by an else arm: the else arm is the rest of the block (early-return form)"""
        out = []
        for st in stmts:
            out.append(st)
            if isinstance(st, ast.If) and st.orelse and self._leaves(st.body) and not (len(st.orelse) == 1 and isinstance(st.orelse[0], ast.If) and False):
                rest, st.orelse = st.orelse, []
                out.extend(self._hoist(rest))
        return out

    def generic_visit(self, node):
        node = super().generic_visit(node)
        for fld in ("body", "orelse", "finalbody"):
            blk = getattr(node, fld, None)
            if isinstance(blk, list) and blk and isinstance(blk[0], ast.stmt):
                setattr(node, fld, self._hoist(blk))
        return node

    def visit_BinOp(self, nd: ast.BinOp):
        nd = self.generic_visit(nd)
        if isinstance(nd.op, (ast.Mult, ast.BitAnd, ast.BitOr, ast.BitXor)) and not (_has_effect(nd.left) and _has_effect(nd.right)) and _key(nd.right) < _key(nd.left):
            nd.left, nd.right = nd.right, nd.left
        return nd


def normal_skeleton(fn: ast.AST) -> str:
    """digest of the function after the behaviour-preserving rewrites of _Normal, with bound names indexed"""
    import copy

    t = _Normal().visit(copy.deepcopy(fn))
    return skeleton(ast.fix_missing_locations(t))[0]


def functions_of(tree: ast.Module):
    for st in tree.body:
        if isinstance(st, (ast.FunctionDef, ast.AsyncFunctionDef)):
            yield st.name, st
        elif isinstance(st, ast.ClassDef):
            for s2 in st.body:
                if isinstance(s2, (ast.FunctionDef, ast.AsyncFunctionDef)):
                    yield f"{st.name}.{s2.name}", s2


_REF: Optional[Dict[str, Dict[str, object]]] = None


def reference() -> Dict[str, Dict[str, object]]:
    global _REF
    if _REF is None:
        try:
            with open(FIXTURE, "r", encoding="utf-8") as fh:
                _REF = json.load(fh)
        except (OSError, ValueError):
            _REF = {}
    return _REF


def normalise_module(relpath: str, tree: ast.Module) -> List[str]:
    """Rewrite, in place, every function of the module that equals its reference up to a renaming of locals.  Returns notes."""
    ref = reference()
    notes = []
    for qual, fn in functions_of(tree):
        r = ref.get(f"{relpath}::{qual}")
        if not r:
            continue
        dig, names = skeleton(fn)
        if dig != r["skeleton"] and r.get("normal") and r.get("src") and normal_skeleton(fn) == r["normal"]:
            # the same program up to operand order of commutative operators, mirrored comparisons, the polarity of two-armed
            # ifs and the names of locals: read as the reference spells it
            try:
                ref_fn = ast.parse(r["src"]).body[0]
            except (SyntaxError, IndexError):
                continue
            if not isinstance(ref_fn, (ast.FunctionDef, ast.AsyncFunctionDef)) or _ser(_strip_args(ref_fn.args)) != _ser(_strip_args(fn.args)):
                continue
            ast.increment_lineno(ref_fn, fn.lineno - ref_fn.lineno)
            fn.body = ref_fn.body
            notes.append(f"{relpath}::{qual}: equal to the reference up to operand order / mirrored comparisons / if-polarity / names of locals; read in the reference spelling")
            continue
        if dig != r["skeleton"] or names == r["names"] or len(names) != len(r["names"]):
            continue
        want = list(r["names"])
        # the renaming must be a bijection onto names that do not clash with anything else the function mentions
        mapping = dict(zip(names, want))
        other = {nd.id for nd in ast.walk(fn) if isinstance(nd, ast.Name)} | {a.arg for a in ast.walk(fn) if isinstance(a, ast.arg)}
        other -= set(names)
        if len(set(want)) != len(want) or set(want) & other:
            continue
        for nd in ast.walk(fn):
            if isinstance(nd, ast.Name) and nd.id in mapping:
                nd.id = mapping[nd.id]
            elif isinstance(nd, ast.arg) and nd is not None and nd.arg in mapping and not any(nd is x for x in fn.args.args + fn.args.kwonlyargs + fn.args.posonlyargs + [fn.args.vararg, fn.args.kwarg]):
                nd.arg = mapping[nd.arg]
            elif isinstance(nd, (ast.FunctionDef, ast.AsyncFunctionDef)) and nd is not fn and nd.name in mapping:
                nd.name = mapping[nd.name]
            elif isinstance(nd, ast.ExceptHandler) and nd.name in mapping:
                nd.name = mapping[nd.name]
        changed = [f"{a} -> {b}" for a, b in mapping.items() if a != b]
        notes.append(f"{relpath}::{qual}: locals read under their reference names ({', '.join(changed[:6])}{', ...' if len(changed) > 6 else ''}); the body is otherwise identical to the reference")
    return notes


def _strip_args(a: ast.arguments) -> ast.arguments:
    import copy

    a = copy.deepcopy(a)
    for x in ast.walk(a):
        if isinstance(x, ast.arg):
            x.annotation = None
    return a


def build_fixture(root: str) -> Dict[str, Dict[str, object]]:
    out = {}
    pkg = os.path.join(root, "kaira")
    for dirpath, dirnames, filenames in os.walk(pkg):
        dirnames[:] = sorted(d for d in dirnames if d != "__pycache__")
        for fn in sorted(filenames):
            if not fn.endswith(".py"):
                continue
            path = os.path.join(dirpath, fn)
            rel = os.path.relpath(path, root)
            try:
                tree = ast.parse(open(path, encoding="utf-8").read())
            except SyntaxError:
                continue
            for qual, node in functions_of(tree):
                dig, names = skeleton(node)
                ent = {"skeleton": dig, "names": names, "normal": normal_skeleton(node)}
                import copy

                bare = copy.deepcopy(node)
                bare.decorator_list = []
                ent["src"] = ast.unparse(bare)
                out[f"{rel}::{qual}"] = ent
    return out
