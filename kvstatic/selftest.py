"""Checker self-test (thorough tier): seeded mutants must be reported, behaviour-preserving twins must stay silent.

Mutants are single source edits (exact, unique text replacement, verified to still compile)
applied to a scratch copy of <root>/kaira under $TMPDIR, removed immediately.  The analysis
is run in-process on the copy.  A mutant whose anchor text is no longer present in the source
is skipped and counted; the run fails if fewer than two thirds of a property's mutants apply.
"""
from __future__ import annotations

import importlib
import os
import random
import shutil
import sys
import tempfile
from concurrent.futures import ProcessPoolExecutor
from typing import Dict, List, Optional, Tuple

from .core import OK, UNDECIDED, VIOLATION, AnalysisError, Repo, Report, load_known_findings
from .mutants import MUTANTS


def _run_one(args) -> Tuple[str, str, str]:
    prop, root, m = args
    name, relfile, old, new, expect = m[0], m[1], m[2], m[3], m[4]
    rule_sub = m[5] if len(m) > 5 else ""
    src_path = os.path.join(root, relfile)
    try:
        src = open(src_path, encoding="utf-8").read()
    except OSError:
        return name, "skipped", "file missing"
    olds = list(old) if isinstance(old, (list, tuple)) else [old]
    news = list(new) if isinstance(new, (list, tuple)) else [new]
    mutated = src
    for o, nw in zip(olds, news):
        if mutated.count(o) != 1:
            return name, "skipped", f"anchor text occurs {mutated.count(o)} times"
        mutated = mutated.replace(o, nw)
    if relfile.endswith(".py"):
        try:
            compile(mutated, relfile, "exec")
        except SyntaxError as exc:
            return name, "broken", f"mutant does not compile: {exc}"
    tmp = tempfile.mkdtemp(prefix="kvst_")
    try:
        shutil.copytree(os.path.join(root, "kaira"), os.path.join(tmp, "kaira"), ignore=shutil.ignore_patterns("__pycache__", "*.pyc"))
        with open(os.path.join(tmp, relfile), "w", encoding="utf-8") as fh:
            fh.write(mutated)
        mod = importlib.import_module(f"kvstatic.props.{prop.lower()}")
        try:
            repo = Repo(tmp)
            rep = Report(prop, repo)
            mod.run(repo, rep, "quick")
        except AnalysisError as exc:
            got, detail = "error", str(exc)
        except Exception as exc:  # a crash of the checker on a mutant is a checker defect
            import traceback

            got, detail = "crash", traceback.format_exc(limit=3)
        else:
            known = {f["key"] for f in load_known_findings().get("findings", []) if f.get("property") == prop}
            viol = [o for o in rep.obligations if o.status == VIOLATION and o.key() not in known]
            und = [o for o in rep.obligations if o.status == UNDECIDED]
            floor_fail = [f for f in rep.floors if f[1] < f[2]]
            if viol:
                got = "violation"
                detail = "; ".join(f"{o.rule} {o.where.split('::')[-1]}" for o in viol[:3])
                if rule_sub and not any(rule_sub in o.rule or rule_sub in o.where for o in viol):
                    return name, "wrong-rule", f"expected a report mentioning `{rule_sub}`, got {detail}"
            elif und or floor_fail:
                got, detail = "undecided", "; ".join(f"{o.rule} {o.where.split('::')[-1]}" for o in und[:3]) or str(floor_fail[:2])
            else:
                got, detail = "silent", ""
    finally:
        shutil.rmtree(tmp, ignore_errors=True)
    if got == "crash":
        return name, "broken", f"checker crashed: {detail}"
    if expect == "violation":
        return name, ("pass" if got == "violation" else "missed"), f"{got}: {detail}"
    if expect == "silent":
        return name, ("pass" if got == "silent" else "false-alarm"), f"{got}: {detail}"
    return name, "pass", got


def run_for(prop: str, root: str, seed: int = 0, verbose: bool = True) -> int:
    muts = list(MUTANTS.get(prop, []))
    if not muts:
        print(f"[{prop}] self-test: no mutants registered")
        return 0
    random.Random(seed).shuffle(muts)
    jobs = [(prop, root, m) for m in muts]
    with ProcessPoolExecutor(max_workers=min(16, len(jobs))) as ex:
        results = list(ex.map(_run_one, jobs))
    bad = [r for r in results if r[1] in ("missed", "false-alarm", "wrong-rule", "broken")]
    skipped = [r for r in results if r[1] == "skipped"]
    passed = [r for r in results if r[1] == "pass"]
    if verbose:
        print(f"[{prop}] self-test: {len(passed)} pass, {len(bad)} fail, {len(skipped)} skipped of {len(results)} mutants/twins")
        for r in bad + skipped:
            print(f"[{prop}]   {r[1]:12s} {r[0]}: {r[2]}")
    if bad:
        return 1
    if len(passed) * 3 < len(results) * 2:
        print(f"[{prop}] self-test: too many mutants no longer apply ({len(skipped)} skipped)")
        return 1
    return 0


if __name__ == "__main__":
    props = sys.argv[1:] or sorted(MUTANTS)
    rc = 0
    for p in props:
        rc |= run_for(p, os.environ.get("KVSTATIC_ROOT", "/repo"))
    sys.exit(rc)
