"""Tiny n-dimensional integer array (shape + flat list) with reshape / permute / transpose, used to evaluate
index-shuffling expressions (`torch.arange(N).reshape(..).permute(..).reshape(-1)`, `x.reshape(..).transpose(..)`)
with the checker's own arithmetic.  No repository code runs."""
from __future__ import annotations

import ast
from typing import Dict, List, Sequence

from .astutil import call_name
from .constfold import Folder, Unfoldable


class ND:
    def __init__(self, shape: Sequence[int], data: List[int]):
        self.shape = list(shape)
        self.data = list(data)
        n = 1
        for s in self.shape:
            n *= s
        if n != len(self.data):
            raise Unfoldable(f"shape {self.shape} does not hold {len(self.data)} elements")

    @staticmethod
    def arange(n: int) -> "ND":
        return ND([n], list(range(n)))

    def reshape(self, dims: Sequence[int]) -> "ND":
        dims = list(dims)
        total = len(self.data)
        if dims.count(-1) > 1:
            raise Unfoldable("more than one -1")
        if -1 in dims:
            known = 1
            for d in dims:
                if d != -1:
                    known *= d
            if known == 0 or total % known:
                raise Unfoldable("reshape does not divide")
            dims[dims.index(-1)] = total // known
        return ND(dims, self.data)

    def permute(self, order: Sequence[int]) -> "ND":
        order = [o % len(self.shape) for o in order]
        if sorted(order) != list(range(len(self.shape))):
            raise Unfoldable("not a permutation of the axes")
        strides = [1] * len(self.shape)
        for k in range(len(self.shape) - 2, -1, -1):
            strides[k] = strides[k + 1] * self.shape[k + 1]
        new_shape = [self.shape[o] for o in order]
        out = []
        idx = [0] * len(new_shape)
        total = len(self.data)
        for _ in range(total):
            off = sum(idx[k] * strides[order[k]] for k in range(len(order)))
            out.append(self.data[off])
            for k in range(len(new_shape) - 1, -1, -1):
                idx[k] += 1
                if idx[k] < new_shape[k]:
                    break
                idx[k] = 0
        return ND(new_shape, out)

    def transpose(self, a: int, b: int) -> "ND":
        order = list(range(len(self.shape)))
        a %= len(order)
        b %= len(order)
        order[a], order[b] = order[b], order[a]
        return self.permute(order)


def eval_shuffle(expr: ast.AST, names: Dict[str, object], attrs: Dict[str, object], arrays: Dict[str, ND]) -> ND:
    """Evaluate a chain of reshape/view/permute/transpose/contiguous/to/flatten calls on torch.arange(n) or a named array."""
    def ints(args):
        out = []
        for a in args:
            v = Folder(names, attrs).fold(a)
            if isinstance(v, list):
                out += v
            else:
                out.append(v)
        if not all(isinstance(v, int) and not isinstance(v, bool) for v in out):
            raise Unfoldable("non-integer shape argument")
        return out

    if isinstance(expr, ast.Name) and expr.id in arrays:
        return arrays[expr.id]
    if isinstance(expr, ast.Attribute) and expr.attr in ("T", "mT"):
        base = eval_shuffle(expr.value, names, attrs, arrays)
        if len(base.shape) == 2:
            return base.transpose(0, 1)
        raise Unfoldable(".T of a non-matrix")
    if isinstance(expr, ast.Call) and call_name(expr) in ("torch.arange",) and len(expr.args) == 1:
        return ND.arange(ints(expr.args)[0])
    if isinstance(expr, ast.Call) and isinstance(expr.func, ast.Attribute):
        m = expr.func.attr
        base = eval_shuffle(expr.func.value, names, attrs, arrays)
        if m in ("reshape", "view"):
            return base.reshape(ints(expr.args))
        if m == "permute":
            return base.permute(ints(expr.args))
        if m == "transpose":
            a, b = ints(expr.args)
            return base.transpose(a, b)
        if m in ("contiguous", "to", "clone", "long", "int"):
            return base
        if m == "flatten" and not expr.args:
            return base.reshape([-1])
        if m == "t" and len(base.shape) == 2:
            return base.transpose(0, 1)
    raise Unfoldable(f"not an index-shuffling chain: {ast.unparse(expr)[:60]}")
