"""Engine E - may-alias / effect analysis: does a function write through an alias of a tensor parameter?

Abstract value: the set of parameter names whose storage the value MAY share (empty = fresh).
Alias-preserving: plain assignment, view/reshape/squeeze/unsqueeze/expand/flatten/contiguous/
detach/T/real/imag, basic indexing, `.float()/.to()/.type()` (torch returns self when no
conversion is needed), torch.as_tensor / torch.from_numpy, tuple/list packing.
Fresh: clone, arithmetic, comparison, zeros_like & friends, torch.tensor(...), reductions,
advanced (mask / index-tensor) *reads*.
Effects reported: subscript stores, augmented assignments, trailing-underscore methods and
`out=` arguments whose target may alias a parameter.
"""
from __future__ import annotations

import ast
from typing import Dict, FrozenSet, List, Optional, Tuple

from .absint import Env, Interp
from .astutil import attr_chain, call_name, unparse
from .core import ClassInfo, FuncInfo, Repo

FRESH: FrozenSet[str] = frozenset()

ALIAS_METHODS = {
    "view", "reshape", "squeeze", "unsqueeze", "expand", "expand_as", "flatten", "contiguous", "detach", "t", "transpose", "permute", "narrow", "select", "unbind", "chunk", "split",
    "float", "double", "half", "long", "int", "bool", "to", "type", "type_as", "view_as", "reshape_as", "cpu", "cuda", "requires_grad_", "unfold", "diagonal", "movedim", "swapaxes", "ravel", "real", "imag", "data",
}
ALIAS_FUNCS = {"torch.as_tensor", "torch.from_numpy", "torch.reshape", "torch.squeeze", "torch.unsqueeze", "torch.flatten", "torch.transpose", "torch.view_as_real", "torch.view_as_complex", "torch.real", "torch.imag", "torch.atleast_1d", "torch.atleast_2d", "torch.narrow", "torch.select", "torch.detach"}
INPLACE_OK_NAMES = {"requires_grad_"}


class Effects(Interp):
    MAX_ITER = 3

    def __init__(self, fi: FuncInfo, repo: Repo, cls: Optional[ClassInfo] = None, depth: int = 0, tensor_params: Optional[List[str]] = None):
        super().__init__(fi)
        self.repo = repo
        self.cls = cls or fi.cls
        self.depth = depth
        self.writes: List[Tuple[ast.AST, str, FrozenSet[str]]] = []  # (node, how, params possibly written)
        self.tensor_params = tensor_params

    def top(self):
        return FRESH

    def join(self, a, b):
        return frozenset(a or ()) | frozenset(b or ())

    def unbound(self, name, node, env):
        return FRESH

    def seed_env(self) -> Env:
        params = [p for p in self.fi.params if p not in ("self", "cls", "args", "kwargs")]
        if self.tensor_params is not None:
            params = [p for p in params if p in self.tensor_params]
        return {p: frozenset([p]) for p in params}

    # expressions ---------------------------------------------------------
    def eval_Constant(self, node, env):
        return FRESH

    def attribute(self, node, base, env):
        if node.attr in ("real", "imag", "T", "mT", "data", "H"):
            return base or FRESH
        return FRESH

    def eval_Subscript(self, node, env):
        base = self.eval(node.value, env)
        idx = node.slice
        self.eval(idx, env)
        if not base:
            return FRESH
        # basic indexing (ints, slices, Ellipsis, None, tuples of those) returns a view
        def basic(n):
            if isinstance(n, ast.Tuple):
                return all(basic(e) for e in n.elts)
            if isinstance(n, (ast.Slice,)):
                return True
            if isinstance(n, ast.Constant) and (n.value is None or n.value is Ellipsis or isinstance(n.value, int)):
                return True
            if isinstance(n, ast.UnaryOp) and isinstance(n.operand, ast.Constant):
                return True
            if isinstance(n, ast.Name):
                return True  # loop index / int variable: a view (a mask variable would be a copy; stay conservative)
            if isinstance(n, ast.BinOp):
                return True
            return False

        return base if basic(idx) else FRESH

    def eval_BinOp(self, node, env):
        self.eval(node.left, env)
        self.eval(node.right, env)
        return FRESH

    def eval_UnaryOp(self, node, env):
        self.eval(node.operand, env)
        return FRESH

    def eval_Compare(self, node, env):
        self.eval(node.left, env)
        for c in node.comparators:
            self.eval(c, env)
        return FRESH

    def eval_BoolOp(self, node, env):
        for v in node.values:
            self.eval(v, env)
        return FRESH

    def collection(self, vals, node, env):
        out = FRESH
        for v in vals:
            out = self.join(out, v)
        return out

    def iter_element(self, iterable_val, node, env):
        return iterable_val or FRESH

    def unpack(self, value, n, node):
        return [value or FRESH] * n

    def eval_Lambda(self, node, env):
        return FRESH

    def eval_JoinedStr(self, node, env):
        return FRESH

    def eval_Dict(self, node, env):
        return FRESH

    def eval_Call(self, node: ast.Call, env):
        name = call_name(node) or ""
        short = name.split(".")[-1]
        args = [self.eval(a.value if isinstance(a, ast.Starred) else a, env) for a in node.args]
        kw = {k.arg: self.eval(k.value, env) for k in node.keywords if k.arg}
        is_method = isinstance(node.func, ast.Attribute) and not name.startswith(("torch.", "F.", "math.", "np.", "nn."))
        recv = self.eval(node.func.value, env) if is_method else FRESH
        # in-place effects
        if "out" in kw and kw["out"]:
            self.writes.append((node, "out= argument", kw["out"]))
        if is_method and short.endswith("_") and not short.startswith("__") and short not in INPLACE_OK_NAMES and recv:
            self.writes.append((node, f"in-place method .{short}()", recv))
            return recv
        if name.startswith("torch.") and short.endswith("_") and args and args[0]:
            self.writes.append((node, f"in-place function {name}", args[0]))
            return args[0]
        # repository helpers: analyse with the actual alias sets
        if name.startswith("self.") and name.count(".") == 1 and self.cls is not None and self.depth < 3:
            callee = self.cls.find_method(short)
            if callee is not None:
                return self.call_repo(callee, args, kw, True, node)
        if name and "." not in name and self.depth < 3:
            tgt = self.repo.resolve_name(self.fi.module, name)
            if isinstance(tgt, FuncInfo):
                return self.call_repo(tgt, args, kw, False, node)
        if is_method and short in ALIAS_METHODS:
            return recv
        if name in ALIAS_FUNCS:
            return args[0] if args else FRESH
        if is_method and short in ("clone", "copy"):
            return FRESH
        return FRESH

    def call_repo(self, callee: FuncInfo, args, kw, bound: bool, node) -> FrozenSet[str]:
        params = list(callee.params)
        if bound and params and params[0] in ("self", "cls"):
            params = params[1:]
        env: Env = {}
        for p, a in zip(params, args):
            env[p] = a
        for k, v in kw.items():
            env[k] = v
        sub = Effects(callee, self.repo, cls=self.cls if bound else callee.cls, depth=self.depth + 1)
        sub.run(env)
        for (n, how, who) in sub.writes:
            self.writes.append((node, f"{how} inside {callee.qualname} ({unparse(n)[:60]})", who))
        out = FRESH
        for v, _r, _e in sub.returns:
            if v:
                out = self.join(out, v)
        return out

    def closure(self, st, env):
        return FRESH

    # statements -----------------------------------------------------------
    def store_subscript(self, target, value, env, stmt):
        base = self.eval(target.value, env)
        if base:
            self.writes.append((stmt, "subscript store", base))

    def aug_store_subscript(self, target, value, env, stmt):
        self.store_subscript(target, value, env, stmt)

    def store_attribute(self, target, value, env, stmt):
        ch = attr_chain(target)
        if ch is not None:
            env[ch] = value

    def stmt_AugAssign(self, st, env):
        from .absint import _Flow

        if isinstance(st.target, ast.Name):
            cur = env.get(st.target.id) or FRESH
            self.eval(st.value, env)
            if cur:
                self.writes.append((st, "augmented assignment (in-place for tensors)", cur))
            return _Flow(env)
        if isinstance(st.target, ast.Subscript):
            self.eval(st.value, env)
            self.store_subscript(st.target, FRESH, env, st)
            return _Flow(env)
        self.eval(st.value, env)
        return _Flow(env)

    def stmt_FunctionDef(self, st, env):
        # closures are analysed with the enclosing environment when they are called; analyse the body
        # once here with its own parameters fresh and captured names from env
        sub_fi = FuncInfo(self.fi.module, st, self.fi.cls)
        sub = Effects(sub_fi, self.repo, cls=self.cls, depth=self.depth + 1)
        e2 = dict(env)
        for p in sub_fi.params:
            e2[p] = frozenset([f"{st.name}:{p}"]) if False else FRESH
        sub.run(e2)
        self.writes += sub.writes
        env[st.name] = FRESH
        from .absint import _Flow

        return _Flow(env)


def input_writes(repo: Repo, fi: FuncInfo, cls: Optional[ClassInfo] = None, tensor_params: Optional[List[str]] = None) -> List[Tuple[ast.AST, str, FrozenSet[str]]]:
    it = Effects(fi, repo, cls=cls, tensor_params=tensor_params)
    it.run(it.seed_env())
    # de-duplicate by node
    seen = set()
    out = []
    for n, how, who in it.writes:
        if (id(n), how) in seen:
            continue
        seen.add((id(n), how))
        out.append((n, how, who))
    return out
